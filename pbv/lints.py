"""Generic cross-reference passes over the whole package (thorough tier).  Their findings are *observations* written
to the evidence file; they never decide a property (no third-party linter exists on this image)."""
import ast

from . import api


def unused_loop_variables(prog):
    out = []
    for f in prog.all_funcs():
        for n in ast.walk(f.node):
            if isinstance(n, ast.For) and isinstance(n.target, ast.Name) and not n.target.id.startswith('_'):
                used = any(isinstance(x, ast.Name) and x.id == n.target.id and isinstance(x.ctx, ast.Load) for s in n.body for x in ast.walk(s))
                if not used:
                    out.append(f'{f.loc(n)} {f.qual}: loop variable `{n.target.id}` is never used in the loop body')
    return out


def nested_identical_conditions(prog):
    out = []
    for f in prog.all_funcs():
        for n in ast.walk(f.node):
            if isinstance(n, ast.If):
                for s in n.body:
                    if isinstance(s, ast.If) and ast.dump(s.test) == ast.dump(n.test):
                        out.append(f'{f.loc(s)} {f.qual}: inner `if {ast.unparse(s.test)}` repeats the enclosing condition (its elif/else branches are dead)')
    return out


def uncalled_methods_as_values(prog):
    out = []
    for f in prog.all_funcs():
        if f.cls is None:
            continue
        methods = {m for m, fn in f.cls.methods.items() if not fn.is_property}
        for n in ast.walk(f.node):
            if isinstance(n, ast.Call):
                for a in n.args:
                    if isinstance(a, ast.Attribute) and isinstance(a.value, ast.Name) and a.value.id == 'self' and a.attr in methods:
                        out.append(f'{f.loc(a)} {f.qual}: bound method self.{a.attr} passed as a value (missing call parentheses?)')
    return out


def missing_library_names(A):
    out = []
    for f in A.prog.all_funcs():
        g = A.graphs.get(f)
        for dotted, t in api.lib_refs(g):
            ex, _ = api.resolve(dotted)
            if ex is False:
                out.append(f'{f.loc(t.node)} {f.qual}: `{dotted}` does not exist in the installed library')
    return sorted(set(out))


def run_all(A):
    return dict(
        unused_loop_variables=unused_loop_variables(A.prog),
        nested_identical_conditions=nested_identical_conditions(A.prog),
        uncalled_methods_as_values=uncalled_methods_as_values(A.prog),
        missing_library_names=missing_library_names(A),
    )
