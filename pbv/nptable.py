"""Table-driven abstract semantics of the numpy / scipy / builtin operations pb_bss uses.

For each operation: is the result a view of an argument or fresh memory (alias), how the
named-axis shape, the unit-norm typestate, the sign and the dependence set transfer.
Anything missing here evaluates to the unknown value ("may alias any argument",
flagged `maybe`), which rules count as *unresolved*, never as a violation.
"""
import operator

from .absint import AV, TOP, UNKNOWN, BOT, Shape, cav, join, join_all, broadcast_shape, unknown_result, none_state, join_sign, is_bot
from .terms import T

ARR = frozenset(['array'])
SCALAR = frozenset(['scalar'])
EFFECTS = []  # not used; effects are recorded on the ctx


# ---------------------------------------------------------------------------- helpers
def deps_of(*vs):
    out = frozenset()
    for v in vs:
        if v is not None:
            out |= v.deps
    return out


def alias_of(*vs):
    out = frozenset()
    for v in vs:
        if v is not None:
            out |= v.alias
    return out


def BCAST(name):
    """alias tag of a broadcast view (np.broadcast_to / np.broadcast_arrays): elements along an expanded axis share one memory location"""
    return frozenset([('bcast', name)])


def maybe(alias):
    return frozenset(a if (a and a[0] == 'maybe') else ('maybe',) + tuple(a) for a in alias)


def argval(pos, kw, i, name, default=None):
    if name is not None and name in kw:
        return kw[name]
    if i is not None and i < len(pos):
        return pos[i]
    return default


def const_of(v, default=None):
    if v is None:
        return default
    if v.is_const:
        return v.cval
    return TOP


def is_arrayish(v):
    return v.kind is TOP or bool(v.kind & {'array'})


def tracked(v):
    return v.norm is not None


def real_dtype(v):
    return v.dtype in ('real', 'bool', 'int')


# ---------------------------------------------------------------------------- binary operators
_ARITH = {'Add': operator.add, 'Sub': operator.sub, 'Mult': operator.mul, 'Div': operator.truediv, 'FloorDiv': operator.floordiv,
          'Mod': operator.mod, 'Pow': operator.pow, 'BitAnd': operator.and_, 'BitOr': operator.or_, 'BitXor': operator.xor,
          'LShift': operator.lshift, 'RShift': operator.rshift, 'MatMult': None}


def sign_binop(opn, a, b):
    sa, sb = a.sign, b.sign
    if opn == 'Add':
        if sa == 'POS' and sb in ('POS', 'NONNEG'):
            return 'POS'
        if sb == 'POS' and sa in ('POS', 'NONNEG'):
            return 'POS'
        if sa == 'NONNEG' and sb == 'NONNEG':
            return 'NONNEG'
        return None
    if opn == 'Mult':
        if sa == 'POS' and sb == 'POS':
            return 'POS'
        if sa in ('POS', 'NONNEG') and sb in ('POS', 'NONNEG'):
            return 'NONNEG'
        if sa in ('POS', 'NONZERO') and sb in ('POS', 'NONZERO'):
            return 'NONZERO'
        return None
    if opn == 'Div':
        if sa == 'POS' and sb == 'POS':
            return 'POS'
        if sa in ('POS', 'NONNEG') and sb == 'POS':
            return 'NONNEG'
        if sa in ('POS', 'NONZERO') and sb in ('POS', 'NONZERO'):
            return 'NONZERO'
        return None
    if opn == 'Pow':
        if sa == 'POS':
            return 'POS'
        if b.is_const and isinstance(b.cval, int) and b.cval % 2 == 0 and b.cval > 0:
            if sa == 'NONZERO' and real_dtype(a):
                return 'POS'
            if sa in ('NONNEG',) or real_dtype(a):
                return 'NONNEG'
        if a.is_const and isinstance(a.cval, (int, float)) and a.cval > 0:
            return 'POS'
        return None
    return None


def binop(ev, t, opn, a, b, inplace, ctx):
    deps = a.deps | b.deps
    # constant folding
    if a.const is not TOP and b.const is not TOP and a.const and b.const and not inplace:
        f = _ARITH.get(opn)
        if f is not None:
            outs = []
            ok = True
            for x in a.const:
                for y in b.const:
                    try:
                        if isinstance(x, bool) or isinstance(y, bool):
                            pass
                        outs.append(f(x, y))
                    except Exception:
                        ok = False
            if ok and outs and len(outs) <= 16:
                try:
                    r = join_all([cav(o) for o in outs])
                    return r.replace(deps=deps, sign=r.sign if len(outs) == 1 else sign_binop(opn, a, b))
                except Exception:
                    pass
    # python sequences
    if opn == 'Add' and a.tup is not None and b.tup is not None and not (a.kind is not TOP and 'array' in a.kind):
        return AV(kind=a.kind, tup=a.tup + b.tup, deps=deps, alias=frozenset())
    if opn == 'Mult' and a.kind is not TOP and a.kind <= {'list', 'tuple'}:
        if a.tup is not None and b.is_const and isinstance(b.cval, int) and 0 <= b.cval * len(a.tup) <= 16:
            return AV(kind=a.kind, tup=a.tup * b.cval, deps=deps)
        return AV(kind=a.kind, deps=deps)
    if opn == 'Add' and ((a.kind is not TOP and a.kind <= {'list', 'tuple', 'str'}) and (b.kind is not TOP and b.kind <= {'list', 'tuple', 'str'})):
        return AV(kind=a.kind, deps=deps)
    if opn == 'Mod' and a.kind is not TOP and a.kind <= {'str'}:
        return AV(kind=frozenset(['str']), deps=deps)
    # arrays / scalars
    kind = TOP
    if (a.kind is not TOP and 'array' in a.kind) or (b.kind is not TOP and 'array' in b.kind):
        kind = ARR
    elif a.kind is not TOP and b.kind is not TOP and a.kind <= {'scalar', 'bool'} and b.kind <= {'scalar', 'bool'}:
        kind = SCALAR
    if a.shape is not None and b.shape is not None:
        shape = broadcast_shape(a.shape, b.shape)
    elif a.shape is not None and b.kind is not TOP and b.kind <= {'scalar', 'bool'}:
        shape = a.shape
    elif b.shape is not None and a.kind is not TOP and a.kind <= {'scalar', 'bool'}:
        shape = b.shape
    elif a.shape is not None or b.shape is not None:
        # the other operand's shape is unknown: broadcasting can only add leading axes or widen singleton axes
        k = a.shape if a.shape is not None else b.shape
        shape = Shape(True, tuple(frozenset(d - {'1'}) for d in k.dims))
    else:
        shape = None
    if inplace:
        shape = a.shape if a.shape is not None else shape
    sign = sign_binop(opn, a, b)
    norm = None
    if tracked(a) or tracked(b):
        norm = 'RAW'
    if opn == 'Div' and b.ncore is not None and a.vid is not None and b.ncore[0] == a.vid and b.ncore[2]:
        norm = ('UNIT', b.ncore[1])
        # x / ||x||: invariant under a gain on x - the scale taint ('scale', p) ends here
        deps = frozenset(d for d in deps if d[0] != 'scale')
    elif opn == 'Div' and b.ncore is not None and b.ncore[2] and a.vid is None and tracked(a):
        norm = 'RAW'
    dtype = None
    if real_dtype(a) and real_dtype(b):
        dtype = 'real'
    elif a.dtype == 'complex' or b.dtype == 'complex':
        dtype = 'complex'
    alias = a.alias if inplace else frozenset()
    meta = None
    if not inplace and a.meta is not None and b.meta is not None and isinstance(a.meta, tuple) and isinstance(b.meta, tuple) \
            and a.meta and b.meta and a.meta[0] == 'dim' and b.meta[0] == 'dim' and opn == 'Mult':
        fa = a.meta[2] if len(a.meta) > 2 else (a.meta[1],)
        fb = b.meta[2] if len(b.meta) > 2 else (b.meta[1],)
        # product of axis sizes: keep the ordered atomic factors (used by the reshape order rule)
        meta = ('dim', frozenset(['*'.join(sorted(a.meta[1])) + '*' + '*'.join(sorted(b.meta[1]))]), tuple(fa) + tuple(fb))
        kind = SCALAR
    if meta is None and opn == 'Pow' and b.is_const and b.cval == 2 and not isinstance(b.cval, bool):
        meta = ('elementwise', 'numpy.square', (a,))
    if meta is None and opn == 'Mult' and a.vid is not None and a.vid == b.vid and real_dtype(a):
        meta = ('elementwise', 'numpy.square', (a,))
    if meta is None and opn == 'Mult':
        # conj(x) * x  (either order, function or method form) is |x|^2
        for u, v in ((a, b), (b, a)):
            cj = conj_arg(u)
            if cj is not None and cj.vid is not None and cj.vid == v.vid:
                meta = ('abs2', v)
    if meta is None and opn == 'Add':
        # x.real ** 2 + x.imag ** 2 is |x|^2
        pa, pb = square_of_part(a), square_of_part(b)
        if pa is not None and pb is not None and {pa[0], pb[0]} == {'real', 'imag'} and pa[1].vid is not None and pa[1].vid == pb[1].vid:
            meta = ('abs2', pa[1])
    return AV(kind=kind, deps=deps, alias=alias, shape=shape, sign=sign, norm=norm, dtype=dtype, meta=meta,
              vid=None)


# ---------------------------------------------------------------------------- subscripts
def index_items(i):
    """list of per-position index descriptors or None if not analysable:
    ('int', v) ('slice', full?) ('none',) ('ell',) ('adv',) ('unk',)"""
    items = None
    if i.tup is not None and i.kind is not TOP and 'tuple' in i.kind:
        items = list(i.tup)
    else:
        items = [i]
    out = []
    for x in items:
        if x.is_const:
            c = x.cval
            if c is None:
                out.append(('none',))
            elif c is Ellipsis:
                out.append(('ell',))
            elif isinstance(c, bool):
                out.append(('adv',))
            elif isinstance(c, int):
                out.append(('int', c))
            elif isinstance(c, tuple) and c and c[0] == 'slice':
                out.append(('slice', c[1] is None and c[2] is None and c[3] is None, c))
            elif isinstance(c, (tuple, list)):
                out.append(('adv',))
            else:
                out.append(('unk',))
        elif x.kind is not TOP and x.kind <= {'slice'}:
            out.append(('slice', False, None))
        elif x.kind is not TOP and x.kind <= {'list', 'array', 'tuple'}:
            out.append(('adv',))
        elif x.kind is not TOP and x.kind <= {'scalar'}:
            out.append(('int', None))
        else:
            out.append(('unk',))
    return out


def index_shape(shape, items):
    """shape after basic indexing; returns (Shape|None, axis_map) where axis_map maps old negative axis -> new negative axis"""
    if shape is None or any(k[0] in ('adv', 'unk') for k in items):
        return None, None
    n_ell = sum(1 for k in items if k[0] == 'ell')
    if n_ell > 1:
        return None, None
    consuming = [k for k in items if k[0] in ('int', 'slice')]
    if n_ell == 0:
        # leading positions consumed from the left: only exact shapes can be handled
        if shape.ell:
            if items and all(k[0] == 'none' for k in items):
                # x[None]: the new leading axes are absorbed by the unknown leading part
                return shape, {-(i + 1): -(i + 1) for i in range(len(shape.dims))}
            return None, None
        items = list(items) + [('ell',)]
    pos = next(j for j, k in enumerate(items) if k[0] == 'ell')
    left, right = items[:pos], items[pos + 1:]
    n_right = sum(1 for k in right if k[0] in ('int', 'slice'))
    n_left = sum(1 for k in left if k[0] in ('int', 'slice'))
    if n_right > len(shape.dims):
        return None, None
    if not shape.ell and n_left + n_right > len(shape.dims):
        return None, None
    # right part
    new_right = []
    amap = {}
    old_ax = -n_right
    tmp = []
    for k in right:
        if k[0] == 'none':
            tmp.append(('new', None))
        elif k[0] == 'int':
            old_ax += 1
        else:
            d = shape.dims[old_ax] if k[1] else frozenset(shape.dims[old_ax] - {'1'})
            tmp.append(('old', old_ax, d, k[1]))
            old_ax += 1
    for j, e in enumerate(tmp):
        newax = j - len(tmp)
        if e[0] == 'new':
            new_right.append(frozenset(['1']))
        else:
            new_right.append(e[2])
            if e[3]:
                amap[e[1]] = newax
    # middle (covered by the ellipsis)
    n_mid = len(shape.dims) - n_right - (0 if shape.ell else n_left)
    mid = list(shape.dims[len(shape.dims) - n_right - n_mid: len(shape.dims) - n_right]) if n_mid > 0 else []
    for j in range(len(mid)):
        old = -n_right - len(mid) + j
        amap[old] = old + n_right - len(new_right)
    # left part
    new_left = []
    left_kept = []
    if not shape.ell:
        li = 0
        for k in left:
            if k[0] == 'none':
                new_left.append(frozenset(['1']))
            elif k[0] == 'int':
                li += 1
            else:
                d = shape.dims[li]
                new_left.append(d if k[1] else frozenset(d - {'1'}))
                if k[1]:
                    left_kept.append((li - len(shape.dims), len(new_left) - 1))          # (old negative axis, position in new_left)
                li += 1
        total = len(new_left) + len(mid) + len(new_right)
        for old_neg, pos_left in left_kept:
            amap[old_neg] = pos_left - total          # x[:, None, :, :] on a rank-3 array: the fully sliced axes keep their identity
        return Shape(False, tuple(new_left + mid + new_right)), amap
    else:
        if any(k[0] != 'none' for k in left) and left:
            # ints/slices on unknown leading axes: result keeps '...'
            pass
        return Shape(True, tuple(mid + new_right)), amap


def index_axis_map(items, axis):
    """new negative position of old negative `axis` after basic indexing with an Ellipsis
    (valid for any rank); None if the axis is removed / partially sliced / not determinable"""
    if any(k[0] in ('adv', 'unk') for k in items):
        return None
    n_ell = sum(1 for k in items if k[0] == 'ell')
    if n_ell != 1:
        return None
    pos = next(j for j, k in enumerate(items) if k[0] == 'ell')
    right = items[pos + 1:]
    n_right = sum(1 for k in right if k[0] in ('int', 'slice'))
    out_len = sum(1 for k in right if k[0] in ('none', 'slice'))
    if -axis > n_right:
        # axis is covered by the ellipsis: shifted by the change in the number of trailing axes
        # (only valid if the left part does not consume it, which we cannot know without the rank: accept
        # when the left part is empty or consists of None only)
        left = items[:pos]
        if any(k[0] != 'none' for k in left):
            return None
        return axis + n_right - out_len
    old = -n_right
    new = -out_len
    for k in right:
        if k[0] == 'none':
            new += 1
        elif k[0] == 'int':
            if old == axis:
                return None
            old += 1
        else:
            if old == axis:
                return new if k[1] else None
            old += 1
            new += 1
    return None


def subscript(ev, t, b, i, ctx):
    deps = b.deps | i.deps
    # python constants
    if b.const is not TOP and b.const and i.is_const and all(isinstance(c, (tuple, str, list)) for c in b.const):
        idx = i.cval
        outs = []
        try:
            for c in b.const:
                if isinstance(idx, tuple) and idx and idx[0] == 'slice':
                    outs.append(cav(c[slice(idx[1], idx[2], idx[3])]))
                else:
                    outs.append(cav(c[idx]))
            return join_all(outs).replace(deps=deps)
        except Exception:
            pass
    if b.tup is not None and i.is_const and not (b.kind is not TOP and 'array' in b.kind):
        idx = i.cval
        try:
            if isinstance(idx, tuple) and idx and idx[0] == 'slice':
                sub = b.tup[slice(idx[1], idx[2], idx[3])]
                return AV(kind=b.kind, tup=tuple(sub), deps=frozenset().union(*[x.deps for x in sub]) if sub else frozenset(),
                          meta=('dims_slice',) if (b.meta and b.meta[0] == 'shape_of') else None)
            if isinstance(idx, int):
                return b.tup[idx]
        except Exception:
            pass
    # shape tuples of arrays whose rank is not exactly known
    if b.meta is not None and isinstance(b.meta, tuple) and b.meta and b.meta[0] == 'shape_of':
        src = b.meta[1]
        if i.is_const and isinstance(i.cval, int):
            lab = frozenset()
            if src is not None and src.shape is not None:
                d = src.shape.dim(i.cval)
                if d is not None:
                    lab = d
            return AV(kind=SCALAR, sign='POS', meta=('dim', lab))
        if i.is_const and isinstance(i.cval, tuple) and i.cval and i.cval[0] == 'slice':
            _, lo, hi, st = i.cval
            if st is None and src is not None and src.shape is not None:
                sh = src.shape
                if lo is None and isinstance(hi, int) and hi < 0 and -hi <= len(sh.dims):
                    # leading part
                    lead = sh.dims[:len(sh.dims) + hi]
                    return AV(kind=frozenset(['tuple']), meta=('dims', sh.ell, tuple(lead)),
                              tup=None if sh.ell else tuple(AV(kind=SCALAR, sign='POS', meta=('dim', d)) for d in lead))
                if hi is None and isinstance(lo, int) and lo < 0 and -lo <= len(sh.dims):
                    tail = sh.dims[lo:]
                    return AV(kind=frozenset(['tuple']), meta=('dims', False, tuple(tail)),
                              tup=tuple(AV(kind=SCALAR, sign='POS', meta=('dim', d)) for d in tail))
            return AV(kind=frozenset(['tuple']), meta=('dims', True, ()))
        return AV(kind=SCALAR, sign='POS', meta=('dim', frozenset()))
    if b.kind is not TOP and b.kind <= {'dict'}:
        return AV(deps=deps, alias=maybe(b.alias))
    if b.kind is not TOP and b.kind <= {'list', 'tuple'}:
        el = ev.elem_of(b) if b.tup is not None else AV(deps=b.deps, alias=b.alias)
        return el.replace(deps=deps)
    items = index_items(i)
    basic = all(k[0] in ('int', 'slice', 'none', 'ell') for k in items)
    advanced = any(k[0] == 'adv' for k in items)
    shape, amap = index_shape(b.shape, items) if basic else (None, None)
    norm = None
    if tracked(b):
        norm = 'RAW'
        if isinstance(b.norm, tuple) and amap is not None and b.norm[1] in amap:
            norm = ('UNIT', amap[b.norm[1]])
        elif isinstance(b.norm, tuple) and basic:
            na = index_axis_map(items, b.norm[1])
            if na is not None:
                norm = ('UNIT', na)
    if basic:
        alias = b.alias
    elif advanced:
        alias = frozenset()
    else:
        alias = maybe(b.alias)
    sign = b.sign
    return AV(kind=ARR if (b.kind is not TOP and b.kind <= {'array'}) else TOP, deps=deps, alias=alias, shape=shape, norm=norm,
              sign=sign, dtype=b.dtype)


# ---------------------------------------------------------------------------- attributes of array-like values
def shape_tuple(ev, b):
    tup = None
    if b.shape is not None and not b.shape.ell:
        tup = tuple(AV(kind=SCALAR, sign='POS', meta=('dim', d)) for d in b.shape.dims)
    return AV(kind=frozenset(['tuple']), tup=tup, meta=('shape_of', b))


def array_attr(ev, b, name, t, ctx):
    if name == 'shape':
        return shape_tuple(ev, b)
    if name in ('ndim', 'size', 'itemsize', 'nbytes'):
        c = TOP
        if name == 'ndim' and b.shape is not None and not b.shape.ell:
            c = frozenset([len(b.shape.dims)])
        return AV(kind=SCALAR, const=c, sign='NONNEG', meta=('ndim_of', b) if name == 'ndim' else None)
    if name == 'dtype':
        return AV(kind=frozenset(['dtype']), meta=('dtype_of', b))
    if name == 'T':
        shape = None
        if b.shape is not None and not b.shape.ell:
            shape = Shape(False, tuple(reversed(b.shape.dims)))
        return AV(kind=ARR, deps=b.deps, alias=b.alias, shape=shape, norm='RAW' if tracked(b) else None, sign=b.sign, dtype=b.dtype)
    if name in ('real', 'imag'):
        return AV(kind=b.kind if b.kind is not TOP and b.kind <= {'scalar'} else ARR, deps=b.deps, alias=b.alias, shape=b.shape,
                  norm='RAW' if tracked(b) else None, dtype='real',
                  sign=b.sign if (name == 'real' and real_dtype(b)) else None, meta=('part_of', name, b))
    if name in ('tiny', 'eps', 'max', 'min') and b.meta is not None and isinstance(b.meta, tuple) and b.meta and b.meta[0] in ('finfo', 'iinfo'):
        if name in ('tiny', 'eps'):
            return AV(kind=SCALAR, sign='POS', meta=('finfo.' + name, b.meta[1] if len(b.meta) > 1 else None))
        return AV(kind=SCALAR, meta=(b.meta[0] + '.' + name,), sign='POS' if name == 'max' else 'NONZERO')
    if name == 'kind' and b.kind is not TOP and b.kind <= {'dtype'}:
        return AV(kind=frozenset(['str']))
    if name in ('x', 'fun', 'success') and b.meta == ('optimize_result',):
        return AV(kind=ARR, deps=b.deps)
    return AV(kind=frozenset(['func']), fns=[('ndmethod', name, b)], deps=b.deps)


# ---------------------------------------------------------------------------- library calls
def axis_const(v, default=None):
    """int | tuple of ints | None (all axes) | TOP"""
    if v is None:
        return default
    if v.is_const:
        c = v.cval
        if c is None or isinstance(c, int) and not isinstance(c, bool):
            return c
        if isinstance(c, (tuple, list)) and all(isinstance(x, int) for x in c):
            return tuple(c)
        return TOP
    if v.tup is not None and all(x.is_const and isinstance(x.cval, int) for x in v.tup):
        return tuple(x.cval for x in v.tup)
    return TOP


def reduce_shape(shape, axis, keepdims):
    if shape is not None and axis is TOP and keepdims is True:
        # unknown axes reduced with keepdims: rank and axis roles are preserved (sizes may become 1)
        return Shape(shape.ell, tuple(frozenset(d - {'1'}) for d in shape.dims))
    if shape is None or axis is TOP or keepdims is TOP:
        return None
    if axis is None:
        if keepdims:
            return Shape(shape.ell, tuple(frozenset(['1']) for _ in shape.dims)) if not shape.ell else None
        return Shape(False, ())
    axes = (axis,) if isinstance(axis, int) else tuple(axis)
    neg = []
    for a in axes:
        na = shape.neg_axis(a)
        if na is None or -na > len(shape.dims):
            return None
        neg.append(na)
    dims = list(shape.dims)
    if keepdims:
        for na in neg:
            dims[na] = frozenset(['1'])
        return Shape(shape.ell, tuple(dims))
    keep = [d for j, d in enumerate(dims) if (j - len(dims)) not in neg]
    return Shape(shape.ell, tuple(keep))


def h_reduce(sign_rule=None, positional_axis=1, positional_keepdims=None, dtype=None):
    def h(ev, name, pos, kw, ctx, t):
        x = argval(pos, kw, 0, 'a') or argval(pos, kw, 0, 'x') or UNKNOWN
        axis = axis_const(argval(pos, kw, positional_axis, 'axis'), None)
        kd = const_of(argval(pos, kw, positional_keepdims, 'keepdims'), False)
        shape = reduce_shape(x.shape, axis, kd)
        sign = None
        if sign_rule == 'same':
            sign = x.sign if x.sign in ('POS', 'NONNEG') else None
        elif sign_rule == 'nonneg':
            sign = 'NONNEG'
        elif sign_rule == 'max':
            sign = x.sign if x.sign in ('POS', 'NONNEG') else None
        out = argval(pos, kw, None, 'out')
        axv = argval(pos, kw, positional_axis, 'axis')
        return AV(kind=TOP if shape is None else (SCALAR if (shape.rank == 0) else ARR), deps=deps_of(x, axv, *[v for k, v in kw.items() if k in ('weights', 'b', 'where')]),
                  alias=out.alias if out is not None else frozenset(), shape=shape, sign=sign,
                  norm='RAW' if tracked(x) else None, dtype=dtype or ('real' if real_dtype(x) else x.dtype),
                  meta=('reduce', name, axis, kd, x))
    return h


def h_norm(ev, name, pos, kw, ctx, t):
    x = argval(pos, kw, 0, 'x') or UNKNOWN
    ordv = const_of(argval(pos, kw, 1, 'ord'), None)
    axis = axis_const(argval(pos, kw, 2, 'axis'), None)
    kd = const_of(argval(pos, kw, 3, 'keepdims'), False)
    shape = reduce_shape(x.shape, axis, kd)
    ncore = None
    if isinstance(axis, int) and kd is True and x.vid is not None:
        na = axis if axis < 0 else (x.shape.neg_axis(axis) if x.shape is not None else None)
        if na is not None:
            ncore = (x.vid, na, ordv in (None, 2))
    return AV(kind=ARR if shape is None or shape.rank != 0 else SCALAR, deps=x.deps, shape=shape, sign='NONNEG', dtype='real',
              norm='RAW' if tracked(x) else None, ncore=ncore, meta=('reduce', name, axis, kd, x))


def h_elementwise(sign_rule=None, keeps_norm=False, dtype=None, nargs=1):
    def h(ev, name, pos, kw, ctx, t):
        xs = [p for p in pos[:nargs]]
        if not xs:
            xs = [v for v in kw.values()][:1]
        x = xs[0] if xs else UNKNOWN
        out = argval(pos, kw, None, 'out')
        sign = None
        if sign_rule == 'pos':
            sign = 'POS'
        elif sign_rule == 'nonneg':
            sign = 'NONNEG'
        elif sign_rule == 'same':
            sign = x.sign
        elif sign_rule == 'sqrt':
            sign = x.sign if x.sign in ('POS', 'NONNEG') else None
        elif sign_rule == 'abs':
            sign = 'POS' if x.sign in ('POS', 'NONZERO') else 'NONNEG'
        norm = None
        if tracked(x):
            norm = x.norm if keeps_norm else 'RAW'
        shape = x.shape
        for y in xs[1:]:
            shape = broadcast_shape(shape, y.shape) if (shape is not None and y.shape is not None) else (shape if (y.kind is not TOP and y.kind <= {'scalar'}) else None)
        kind = x.kind if (x.kind is not TOP and x.kind <= {'scalar', 'array'}) else TOP
        if x.is_const and isinstance(x.cval, (int, float)):
            kind = SCALAR
        return AV(kind=kind, deps=deps_of(*xs), alias=out.alias if out is not None else frozenset(), shape=shape, sign=sign, norm=norm,
                  dtype=dtype or (x.dtype if dtype is None else dtype), meta=('elementwise', name, tuple(xs)))
    return h


def h_maximum(ev, name, pos, kw, ctx, t):
    a = argval(pos, kw, 0, None) or UNKNOWN
    b = argval(pos, kw, 1, None) or UNKNOWN

    def vanishes_in_single(c, other):
        # a python float below the smallest normal single-precision number is cast to the dtype of the array it is compared with: 0.0 for float32 / complex64 data
        return c.is_const and isinstance(c.cval, float) and 0 < c.cval < 1.1754944e-38 and not (other.kind is not TOP and other.kind <= {'scalar'})
    a_sign = 'NONNEG' if vanishes_in_single(a, b) else a.sign
    b_sign = 'NONNEG' if vanishes_in_single(b, a) else b.sign
    sign = None
    if a_sign == 'POS' or b_sign == 'POS':
        sign = 'POS'
    elif a_sign == 'NONNEG' or b_sign == 'NONNEG':
        sign = 'NONNEG'
    shape = broadcast_shape(a.shape, b.shape) if (a.shape is not None and b.shape is not None) else (a.shape if (b.kind is not TOP and b.kind <= {'scalar'}) or b.shape is None else b.shape)
    ncore = None
    # max(||x||, floor) is an exact normaliser only for a floor far below the supported dynamic range
    if a.ncore is not None and b.sign == 'POS':
        ncore = a.ncore if tiny_like(b) else (a.ncore[0], a.ncore[1], False)
    elif b.ncore is not None and a.sign == 'POS':
        ncore = b.ncore if tiny_like(a) else (b.ncore[0], b.ncore[1], False)
    kind = SCALAR if (a.kind is not TOP and b.kind is not TOP and a.kind <= {'scalar'} and b.kind <= {'scalar'}) else ARR
    return AV(kind=kind, deps=a.deps | b.deps, shape=shape, sign=sign, ncore=ncore, norm='RAW' if (tracked(a) or tracked(b)) else None,
              dtype='real' if real_dtype(a) and real_dtype(b) else None, meta=('maximum', a, b))


def tiny_like(v):
    if v.meta is not None and isinstance(v.meta, tuple) and v.meta and v.meta[0] == 'finfo.tiny':
        return True
    if v.is_const and isinstance(v.cval, (int, float)) and 0 < v.cval <= 1e-150:
        return True
    return False


def h_minimum(ev, name, pos, kw, ctx, t):
    a = argval(pos, kw, 0, None) or UNKNOWN
    b = argval(pos, kw, 1, None) or UNKNOWN
    sign = None
    if a.sign == 'POS' and b.sign == 'POS':
        sign = 'POS'
    elif a.sign in ('POS', 'NONNEG') and b.sign in ('POS', 'NONNEG'):
        sign = 'NONNEG'
    shape = broadcast_shape(a.shape, b.shape) if (a.shape is not None and b.shape is not None) else None
    return AV(kind=ARR, deps=a.deps | b.deps, shape=shape, sign=sign, norm='RAW' if (tracked(a) or tracked(b)) else None)


def h_where(ev, name, pos, kw, ctx, t):
    if len(pos) < 3:
        return AV(kind=frozenset(['tuple']), deps=deps_of(*pos))
    c, a, b = pos[:3]
    sign = join_sign(a.sign, b.sign)
    ncore = None
    # where(n == 0, POS, n): zero entries replaced by a positive constant
    cm = c.meta
    if cm is not None and isinstance(cm, tuple) and cm and cm[0] == 'not_cmp0':
        # where(n != 0, n, POS) is where(n == 0, POS, n)
        cm = ('cmp0', cm[1])
        a, b = b, a
    if cm is not None and isinstance(cm, tuple) and cm and cm[0] == 'cmp0' and b.vid is not None and cm[1] == b.vid and a.sign == 'POS':
        if b.sign == 'NONNEG':
            sign = 'POS'
        if b.ncore is not None:
            ncore = b.ncore
    shape = None
    for x in (a, b, c):
        if x.shape is not None:
            shape = x.shape if shape is None else broadcast_shape(shape, x.shape)
    return AV(kind=ARR, deps=deps_of(c, a, b), shape=shape, sign=sign, ncore=ncore, norm='RAW' if (tracked(a) or tracked(b)) else None)


def h_clip(ev, name, pos, kw, ctx, t):
    x = argval(pos, kw, 0, 'a') or UNKNOWN
    lo = argval(pos, kw, 1, 'a_min') or argval(pos, kw, None, 'min')
    hi = argval(pos, kw, 2, 'a_max') or argval(pos, kw, None, 'max')
    sign = None
    if lo is not None and lo.sign == 'POS':
        sign = 'POS'
    elif lo is not None and lo.sign == 'NONNEG':
        sign = 'NONNEG'
    return AV(kind=ARR, deps=deps_of(x, lo, hi), shape=x.shape, sign=sign, norm='RAW' if tracked(x) else None, dtype=x.dtype,
              meta=('clip', x, lo, hi))


def h_view(axis_rule=None):
    """result shares memory with argument 0"""
    def h(ev, name, pos, kw, ctx, t):
        x = pos[0] if pos else (argval(pos, kw, None, 'a') or UNKNOWN)
        shape, norm = None, ('RAW' if tracked(x) else None)
        if axis_rule == 'same':
            shape, norm = x.shape, x.norm
        elif axis_rule == 'swapaxes':
            a1 = const_of(argval(pos, kw, 1, 'axis1'))
            a2 = const_of(argval(pos, kw, 2, 'axis2'))
            if isinstance(a1, int) and isinstance(a2, int) and x.shape is not None:
                n1, n2 = x.shape.neg_axis(a1), x.shape.neg_axis(a2)
                if n1 is not None and n2 is not None and -n1 <= len(x.shape.dims) and -n2 <= len(x.shape.dims):
                    dims = list(x.shape.dims)
                    dims[n1], dims[n2] = dims[n2], dims[n1]
                    shape = Shape(x.shape.ell, tuple(dims))
            if isinstance(a1, int) and isinstance(a2, int) and a1 < 0 and a2 < 0 and isinstance(x.norm, tuple):
                ax = x.norm[1]
                norm = ('UNIT', a2 if ax == a1 else a1 if ax == a2 else ax)
            elif isinstance(a1, int) and isinstance(a2, int) and a1 < 0 and a2 < 0 and x.shape is None:
                pass
        elif axis_rule == 'moveaxis':
            src = const_of(argval(pos, kw, 1, 'source'))
            dst = const_of(argval(pos, kw, 2, 'destination'))
            if isinstance(src, int) and isinstance(dst, int) and not isinstance(src, bool) and not isinstance(dst, bool):
                def moved(a, s_, d_):
                    # new position of axis a (all three negative, counted from the right) when axis s_ is moved to d_
                    if a == s_:
                        return d_
                    if s_ < a <= d_:
                        return a - 1
                    if d_ <= a < s_:
                        return a + 1
                    return a
                if x.shape is not None:
                    n = len(x.shape.dims)
                    s_, d_ = x.shape.neg_axis(src), x.shape.neg_axis(dst)
                    if s_ is not None and d_ is not None and -s_ <= n and -d_ <= n:
                        dims = list(x.shape.dims)
                        ax = dims.pop(n + s_)
                        dims.insert(n + d_, ax)
                        shape = Shape(x.shape.ell, tuple(dims))
                if src < 0 and dst < 0 and isinstance(x.norm, tuple):
                    norm = ('UNIT', moved(x.norm[1], src, dst))
        elif axis_rule == 'transpose':
            axes = argval(pos, kw, 1, 'axes')
            ac = axis_const(axes) if axes is not None else None
            # a permutation that is not known is not `no permutation given` (which reverses the axes); TOP is None in this module, so keep a flag
            unknown_axes = axes is not None and ac is None and not (axes.is_const and const_of(axes) is None)
            if len(pos) > 2:
                ac = tuple(const_of(p) for p in pos[1:]) if all(p.is_const for p in pos[1:]) else TOP
                unknown_axes = ac is TOP
            if x.shape is not None and not x.shape.ell and not unknown_axes:
                if ac is None:
                    shape = Shape(False, tuple(reversed(x.shape.dims)))
                elif ac is not TOP and isinstance(ac, tuple) and len(ac) == len(x.shape.dims):
                    shape = Shape(False, tuple(x.shape.dims[a] for a in ac))
            if ac is not None and ac is not TOP and isinstance(ac, tuple) and all(isinstance(a, int) for a in ac) and isinstance(x.norm, tuple):
                # an explicit permutation fixes the rank: follow the unit-norm axis
                n = len(ac)
                old = n + x.norm[1] if x.norm[1] < 0 else x.norm[1]
                norm_ac = [a % n for a in ac]
                if 0 <= old < n and old in norm_ac:
                    norm = ('UNIT', norm_ac.index(old) - n)
        elif axis_rule == 'expand_dims':
            ax = const_of(argval(pos, kw, 1, 'axis'))
            if isinstance(ax, int) and x.shape is not None:
                if ax < 0 and -ax <= len(x.shape.dims) + 1:
                    dims = list(x.shape.dims)
                    dims.insert(len(dims) + ax + 1, frozenset(['1']))
                    shape = Shape(x.shape.ell, tuple(dims))
                    if isinstance(x.norm, tuple):
                        norm = ('UNIT', x.norm[1] if x.norm[1] > ax else x.norm[1] - 1)
                elif ax >= 0 and not x.shape.ell and ax <= len(x.shape.dims):
                    dims = list(x.shape.dims)
                    dims.insert(ax, frozenset(['1']))
                    shape = Shape(False, tuple(dims))
                elif ax == 0 and x.shape.ell:
                    shape = x.shape
                    norm = x.norm
        elif axis_rule == 'squeeze':
            ax = axis_const(argval(pos, kw, 1, 'axis'), None)
            if isinstance(ax, int) and x.shape is not None:
                na = x.shape.neg_axis(ax)
                if na is not None and -na <= len(x.shape.dims):
                    dims = list(x.shape.dims)
                    del dims[na]
                    shape = Shape(x.shape.ell, tuple(dims))
        elif axis_rule == 'reshape':
            shape, norm = reshape_result(ev, x, argval(pos, kw, 1, 'newshape') or argval(pos, kw, None, 'shape'), pos[1:])
        elif axis_rule == 'broadcast_to':
            shp = argval(pos, kw, 1, 'shape')
            shape = shape_from_value(shp)
            if shape is not None and x.shape is not None and isinstance(x.norm, tuple) and -x.norm[1] <= len(shape.dims):
                norm = x.norm
            elif isinstance(x.norm, tuple):
                norm = x.norm
        if norm == 'RAW' and isinstance(x.norm, tuple) and axis_rule in ('swapaxes', 'moveaxis', 'transpose'):
            # a pure reordering of a unit-norm array whose axis order could not be followed (computed at run time): still of unit norm along SOME axis - the typestate
            # is lost (undecided at the sink), not RAW
            norm = None
        return AV(kind=ARR, deps=x.deps, alias=(x.alias | BCAST(name)) if axis_rule == 'broadcast_to' else x.alias, shape=shape, norm=norm, sign=x.sign, dtype=x.dtype, vid=None,
                  meta=('view', name, x))
    return h


def shape_from_value(shp):
    """Shape described by a shape-tuple abstract value"""
    if shp is None:
        return None
    if shp.meta is not None and isinstance(shp.meta, tuple) and shp.meta and shp.meta[0] == 'shape_of':
        return shp.meta[1].shape
    items = shp.tup
    if items is None and shp.meta is not None and isinstance(shp.meta, tuple) and shp.meta and shp.meta[0] == 'seq_with_star':
        items = shp.meta[1]
    if items is not None:
        dims = []
        ell = False
        for j, x in enumerate(items):
            m = x.meta
            if m is not None and isinstance(m, tuple) and m and m[0] == 'dims':
                if j != 0 and m[1]:
                    return None
                ell = ell or m[1]
                dims.extend(m[2])
            elif x.kind is not TOP and x.kind == frozenset(['star']):
                if j != 0:
                    return None
                ell = True
                m2 = x.meta
                if m2 is not None and isinstance(m2, tuple) and m2 and m2[0] == 'dims':
                    dims.extend(m2[2])
            elif m is not None and isinstance(m, tuple) and m and m[0] == 'dim':
                dims.append(m[1])
            elif x.is_const and isinstance(x.cval, int):
                dims.append(frozenset(['1']) if x.cval == 1 else frozenset([str(x.cval)]))
            else:
                dims.append(frozenset())
        return Shape(ell, tuple(dims))
    if shp.meta is not None and isinstance(shp.meta, tuple) and shp.meta and shp.meta[0] == 'dims':
        return Shape(shp.meta[1], tuple(shp.meta[2]))
    if shp.is_const and isinstance(shp.cval, tuple) and all(isinstance(x, int) for x in shp.cval):
        return Shape(False, tuple(frozenset(['1']) if x == 1 else frozenset([str(x)]) for x in shp.cval))
    if shp.is_const and isinstance(shp.cval, int):
        return Shape(False, (frozenset([str(shp.cval)]),))
    return None


def reshape_result(ev, x, shp, rest):
    """shape/norm of x reshaped; '-1' leading entries mean flattened leading axes"""
    if shp is None:
        return None, ('RAW' if tracked(x) else None)
    vals = None
    if len(rest) > 1:
        vals = list(rest)
    elif shp.tup is not None:
        vals = list(shp.tup)
    elif shp.is_const and isinstance(shp.cval, tuple):
        vals = [cav(c) for c in shp.cval]
    shape = None
    norm = 'RAW' if tracked(x) else None
    if vals is not None:
        dims, ell, ok = [], False, True
        for j, v in enumerate(vals):
            m = v.meta
            if v.is_const and v.cval == -1:
                dims.append(frozenset(['flat']))
            elif m is not None and isinstance(m, tuple) and m and m[0] == 'dim':
                dims.append(m[1])
            elif m is not None and isinstance(m, tuple) and m and m[0] == 'dims':
                if j != 0:
                    ok = False
                ell = ell or m[1]
                dims.extend(m[2])
            elif v.kind is not TOP and v.kind == frozenset(['star']):
                if j != 0:
                    ok = False
                ell = True
            elif v.is_const and isinstance(v.cval, int):
                dims.append(frozenset(['1']) if v.cval == 1 else frozenset([str(v.cval)]))
            else:
                dims.append(frozenset())
        if ok:
            shape = Shape(ell, tuple(dims))
        # the unit-norm axis survives when the trailing dims up to it are unchanged
        if isinstance(x.norm, tuple) and x.shape is not None and shape is not None:
            k = -x.norm[1]
            if k <= len(shape.dims) and k <= len(x.shape.dims):
                same = all(shape.dims[-j] and (shape.dims[-j] & x.shape.dims[-j]) for j in range(1, k + 1))
                if same:
                    norm = x.norm
    else:
        shape = shape_from_value(shp)
        if shape is not None and isinstance(x.norm, tuple) and x.shape is not None:
            k = -x.norm[1]
            if k <= len(shape.dims) and k <= len(x.shape.dims) and all(shape.dims[-j] and (shape.dims[-j] & x.shape.dims[-j]) for j in range(1, k + 1)):
                norm = x.norm
    return shape, norm


def h_fresh_like(ev, name, pos, kw, ctx, t):
    x = pos[0] if pos else UNKNOWN
    sign = {'numpy.ones_like': 'POS', 'numpy.zeros_like': 'NONNEG'}.get(name)
    return AV(kind=ARR, deps=frozenset(), shape=x.shape, sign=sign, dtype=None)


def h_fresh_shape(ev, name, pos, kw, ctx, t):
    shp = argval(pos, kw, 0, 'shape')
    if name == 'numpy.random.uniform' or name.startswith('numpy.random.'):
        shp = argval(pos, kw, None, 'size') or (pos[2] if len(pos) > 2 else None)
    shape = shape_from_value(shp)
    sign = {'numpy.ones': 'POS', 'numpy.zeros': 'NONNEG', 'numpy.random.uniform': 'NONNEG'}.get(name)
    deps = frozenset([('rng',)]) if name.startswith('numpy.random.') else frozenset()
    if name == 'numpy.full':
        fv = argval(pos, kw, 1, 'fill_value')
        deps = deps | (fv.deps if fv is not None else frozenset())
        sign = fv.sign if fv is not None else None
    return AV(kind=ARR, deps=deps, shape=shape, sign=sign, meta=('alloc', name, tuple(pos), tuple(sorted(kw))))


def h_copy(ev, name, pos, kw, ctx, t):
    x = pos[0] if pos else (argval(pos, kw, None, 'a') or UNKNOWN)
    alias = frozenset()
    cp = kw.get('copy')
    if name in ('numpy.array', 'ndarray.astype') and cp is not None and const_of(cp) is not True:
        alias = maybe(x.alias) if const_of(cp) is TOP else x.alias
    dt = argval(pos, kw, 1, 'dtype')
    return AV(kind=ARR, deps=x.deps, alias=alias, shape=x.shape, norm=x.norm, sign=x.sign, dtype=x.dtype, tup=None,
              meta=('copy', name, x))


def h_asarray(ev, name, pos, kw, ctx, t):
    x = pos[0] if pos else (argval(pos, kw, None, 'a') or UNKNOWN)
    dt = argval(pos, kw, 1, 'dtype')
    # asarray(x, dtype=T) returns x itself whenever x already has dtype T: a genuine may-alias
    alias = x.alias
    if x.kind is not TOP and x.kind <= {'list', 'tuple', 'scalar'}:
        alias = frozenset()
    return AV(kind=ARR, deps=x.deps, alias=alias, shape=x.shape, norm=x.norm, sign=x.sign, dtype=x.dtype, vid=x.vid if dt is None else None,
              meta=('view', name, x))


def h_memoised(ev, name, pos, kw, ctx, t):
    """marker the builder puts around the value of a memoising helper it evaluated in place: one object is handed to every call with equal arguments"""
    x = pos[0] if pos else UNKNOWN
    q = const_of(pos[1]) if len(pos) > 1 else '?'
    tag = frozenset([('global', str(q).split('::')[0], f'<results memoised by {str(q).split("::")[-1]}>')])

    def shared(v):
        if not isinstance(v, AV):
            return v
        return v.replace(alias=v.alias | tag, tup=tuple(shared(y) for y in v.tup) if v.tup is not None else None)
    return shared(x)


def h_fresh(kind=ARR, sign=None, dtype=None):
    def h(ev, name, pos, kw, ctx, t):
        vs = list(pos) + list(kw.values())
        norm = 'RAW' if any(tracked(v) for v in vs) else None
        return AV(kind=kind, deps=deps_of(*vs), sign=sign, dtype=dtype, norm=norm, meta=('fresh', name, tuple(pos)))
    return h


def h_scalar_query(ev, name, pos, kw, ctx, t):
    return AV(kind=frozenset(['bool']), deps=frozenset())


def h_finfo(ev, name, pos, kw, ctx, t):
    # second component: the fixed dtype the limits belong to ('float64', ...), or None when it is the dtype of an array at hand
    fixed = None
    try:
        from .walk import call_arg, const_val, NOVAL
        a = call_arg(t, 0)
        while a is not None and a.op == 'refine':
            a = a.args[0]
        if a is not None and a.op == 'ref' and hasattr(a.args[0], 'dotted'):
            fixed = a.args[0].dotted.split('.')[-1]
        elif a is not None and isinstance(const_val(a), str):
            fixed = const_val(a)
        elif a is not None and a.op == 'ref' and a.args[0] == ('builtin', 'float'):
            fixed = 'float64'
    except Exception:
        fixed = None
    return AV(kind=frozenset(['other']), meta=('finfo' if name.endswith('finfo') else 'iinfo', fixed))


def einsum_parse(sub):
    sub = sub.replace(' ', '')
    if '->' in sub:
        ins, out = sub.split('->')
    else:
        ins, out = sub, None
    ops = ins.split(',')
    if out is None:
        letters = [c for o in ops for c in o.replace('...', '')]
        out = ('...' if any('...' in o for o in ops) else '') + ''.join(sorted(c for c in set(letters) if letters.count(c) == 1))
    return ops, out


def h_einsum(ev, name, pos, kw, ctx, t):
    if not pos:
        return UNKNOWN
    sub = pos[0]
    ops = pos[1:]
    deps = deps_of(*ops)
    shape = None
    subs = sub.consts()
    if subs and all(isinstance(s, str) for s in subs):
        shapes = set()
        for s in subs:
            try:
                ins, out = einsum_parse(s)
                ell = out.startswith('...')
                shapes.add(Shape(ell, tuple(frozenset([c]) for c in out.replace('...', ''))))
            except Exception:
                shapes.add(None)
        if len(shapes) == 1:
            shape = shapes.pop()
        elif None not in shapes:
            it = iter(shapes)
            shape = next(it)
            for s2 in it:
                shape = shape.join(s2)
    sign = None
    if ops and all(o.sign in ('POS', 'NONNEG') for o in ops):
        sign = 'NONNEG'
    return AV(kind=ARR, deps=deps, shape=shape, sign=sign, norm='RAW' if any(tracked(o) for o in ops) else None,
              meta=('einsum', sub, tuple(ops)))


def h_eigh(ev, name, pos, kw, ctx, t):
    x = pos[0] if pos else UNKNOWN
    vals_shape = vecs_shape = None
    if x.shape is not None and len(x.shape.dims) >= 2:
        vals_shape = Shape(x.shape.ell, x.shape.dims[:-1])
        vecs_shape = x.shape
    deps = deps_of(*pos, *kw.values())
    vals = AV(kind=ARR, deps=deps, shape=vals_shape, dtype='real' if name.endswith('eigh') else None, meta=('eigvals', name, x))
    vecs = AV(kind=ARR, deps=deps, shape=vecs_shape, meta=('eigvecs', name, x))
    return AV(kind=frozenset(['tuple']), tup=(vals, vecs), deps=deps)


def h_solve(ev, name, pos, kw, ctx, t):
    a = pos[0] if pos else UNKNOWN
    b = pos[1] if len(pos) > 1 else UNKNOWN
    return AV(kind=ARR, deps=deps_of(a, b), shape=b.shape if b.shape is not None else None, meta=('solve', name, a, b))


def h_lstsq(ev, name, pos, kw, ctx, t):
    a = pos[0] if pos else UNKNOWN
    b = pos[1] if len(pos) > 1 else UNKNOWN
    x = AV(kind=ARR, deps=deps_of(a, b), shape=b.shape, meta=('solve', name, a, b))
    r = AV(kind=ARR, deps=deps_of(a, b))
    return AV(kind=frozenset(['tuple']), tup=(x, r, r, r), deps=deps_of(a, b))


def h_slogdet(ev, name, pos, kw, ctx, t):
    a = pos[0] if pos else UNKNOWN
    sh = Shape(a.shape.ell, a.shape.dims[:-2]) if (a.shape is not None and len(a.shape.dims) >= 2) else None
    s = AV(kind=ARR, deps=a.deps, shape=sh)
    return AV(kind=frozenset(['tuple']), tup=(s, s.replace(meta=('logabsdet', a))), deps=a.deps)


def h_broadcast_arrays(ev, name, pos, kw, ctx, t):
    # every result is a (possibly stride-0) view of its argument: the tag ('bcast', ..) marks memory in which several elements may share one location
    outs = tuple(AV(kind=ARR, deps=p.deps, alias=p.alias | BCAST('numpy.broadcast_arrays'), norm=p.norm, sign=p.sign, dtype=p.dtype) for p in pos)
    return AV(kind=frozenset(['list']), tup=outs, deps=deps_of(*pos), alias=alias_of(*pos) | BCAST('numpy.broadcast_arrays'))


def h_mutator(target_index=0):
    def h(ev, name, pos, kw, ctx, t):
        tgt = pos[target_index] if len(pos) > target_index else (kw.get('dst') or kw.get('a') or kw.get('arr') or UNKNOWN)
        ctx.effects.append((('lib', name, t), tgt, UNKNOWN))
        return cav(None)
    return h


def h_least_squares(ev, name, pos, kw, ctx, t):
    return AV(kind=frozenset(['other']), deps=deps_of(*pos, *kw.values()), meta=('optimize_result',))


def h_interp1d(ev, name, pos, kw, ctx, t):
    return AV(kind=frozenset(['func']), deps=deps_of(*pos, *kw.values()), meta=('interp1d', tuple(pos), tuple(sorted(kw.items(), key=lambda kv: kv[0]))),
              fns=[Lib_('scipy.interpolate.interp1d.__call__')])


def Lib_(d):
    from .model import Lib
    return Lib(d)


def h_permutations(ev, name, pos, kw, ctx, t):
    return AV(kind=frozenset(['list']), deps=deps_of(*pos), meta=('permutations', tuple(pos), kw.get('r')))


def h_passthrough_rng(ev, name, pos, kw, ctx, t):
    shp = argval(pos, kw, None, 'size')
    return AV(kind=ARR, deps=frozenset([('rng',)]) | deps_of(*pos), shape=shape_from_value(shp), sign='NONNEG' if name.endswith(('uniform', 'dirichlet', 'randint', 'permutation', 'choice')) else None)


TABLE = {}


def reg(names, h):
    for n in names.split():
        TABLE[n] = h


reg('pbv.memoised', h_memoised)
reg('numpy.exp', h_elementwise('pos'))
reg('numpy.log numpy.log10 numpy.log2 numpy.angle numpy.cos numpy.sin numpy.tan numpy.arctan2 numpy.sign numpy.floor numpy.ceil numpy.around numpy.round '
    'numpy.nan_to_num numpy.negative scipy.special.ive scipy.special.hyp1f1 scipy.special.gammaln scipy.special.perm numpy.cumsum numpy.cumprod '
    'numpy.diff numpy.sort numpy.flip numpy.fft.fft numpy.fft.rfft numpy.fft.irfft scipy.special.factorial math.factorial numpy.isposinf', h_elementwise(None, dtype=None))
reg('numpy.abs numpy.absolute', h_elementwise('abs', dtype='real'))
def conj_arg(v):
    m = v.meta
    if isinstance(m, tuple) and m:
        if m[0] == 'conj' and len(m) > 1:
            return m[1]
        if m[0] == 'elementwise' and m[1] in ('numpy.conj', 'numpy.conjugate') and m[2]:
            return m[2][0]
    return None


def square_of_part(v):
    """v == x.real ** 2 / x.imag ** 2  ->  ('real' | 'imag', x)"""
    m = v.meta
    if isinstance(m, tuple) and m and m[0] == 'elementwise' and m[1] == 'numpy.square' and m[2]:
        mp = m[2][0].meta
        if isinstance(mp, tuple) and mp and mp[0] == 'part_of' and mp[1] in ('real', 'imag'):
            return mp[1], mp[2]
    return None


def abs2_base(v):
    """the x of a value known to be |x|^2 elementwise: |x| ** 2, x ** 2 (x * x), conj(x) * x [.real], x.real ** 2 + x.imag ** 2"""
    m = v.meta
    if not (isinstance(m, tuple) and m):
        return None
    if m[0] == 'abs2':
        return m[1]
    if (m[0] == 'part_of' and m[1] == 'real') or (m[0] == 'elementwise' and m[1] == 'numpy.real' and m[2]):
        inner = m[2] if m[0] == 'part_of' else m[2][0]
        mi = inner.meta
        return mi[1] if isinstance(mi, tuple) and mi and mi[0] == 'abs2' else None
    if m[0] == 'elementwise' and m[1] == 'numpy.square' and m[2]:
        base = m[2][0]
        mb = base.meta
        if isinstance(mb, tuple) and mb and mb[0] == 'elementwise' and mb[1] in ('numpy.abs', 'numpy.absolute') and mb[2]:
            base = mb[2][0]
        return base
    return None


def h_sqrt(ev, name, pos, kw, ctx, t):
    """sqrt(sum(|x|^2, axis=a, keepdims=True)) is the 2-norm of x along a, spelled out"""
    r = h_elementwise('sqrt')(ev, name, pos, kw, ctx, t)
    x = pos[0] if pos else None
    try:
        m = x.meta if x is not None else None
        if m and m[0] == 'reduce' and str(m[1]).endswith('sum') and isinstance(m[2], int) and m[3] is True:
            base = abs2_base(m[4])
            if base is not None:
                if base.vid is not None:
                    na = m[2] if m[2] < 0 else (base.shape.neg_axis(m[2]) if base.shape is not None else None)
                    if na is not None:
                        r = r.replace(ncore=(base.vid, na, True))
    except Exception:
        pass
    return r


reg('numpy.sqrt', h_sqrt)
reg('numpy.square', h_elementwise(None))
reg('numpy.conj numpy.conjugate', h_elementwise('same', keeps_norm=True))
reg('numpy.real numpy.imag', h_elementwise(None, dtype='real'))
reg('numpy.isfinite numpy.isnan numpy.isinf numpy.logical_not', h_elementwise(None, dtype='bool'))
reg('numpy.logical_and numpy.logical_or numpy.equal numpy.not_equal numpy.greater numpy.less', h_elementwise(None, dtype='bool', nargs=2))
reg('numpy.add numpy.subtract numpy.multiply numpy.power numpy.matmul numpy.dot numpy.outer numpy.kron numpy.cross numpy.mod numpy.hypot', h_elementwise(None, nargs=2))


def h_divide(ev, name, pos, kw, ctx, t):
    """np.divide(a, b[, out=]) is a / b: the unit-norm typestate and the end of the scale taint of `x / ||x||` hold for the ufunc spelling as for the operator (round 14, S254)"""
    r = h_elementwise(None, nargs=2)(ev, name, pos, kw, ctx, t)
    if len(pos) >= 2:
        try:
            q = binop(ev, t, 'Div', pos[0], pos[1], False, ctx)
        except Exception:
            q = None
        if q is not None and isinstance(q.norm, tuple):
            r = AV(kind=r.kind, deps=q.deps, alias=r.alias, shape=r.shape, sign=r.sign, norm=q.norm, dtype=r.dtype, meta=r.meta)
    return r


reg('numpy.divide numpy.true_divide', h_divide)
reg('numpy.maximum numpy.fmax', h_maximum)
reg('numpy.minimum numpy.fmin', h_minimum)
reg('numpy.where', h_where)
reg('numpy.clip', h_clip)
reg('numpy.sum numpy.mean numpy.nansum numpy.nanmean numpy.prod numpy.median numpy.std numpy.var numpy.average', h_reduce('same'))
reg('numpy.amax numpy.max numpy.amin numpy.min numpy.nanmax numpy.nanmin', h_reduce('max'))
reg('numpy.all numpy.any', h_reduce(None, dtype='bool'))
reg('numpy.argmax numpy.argmin numpy.count_nonzero', h_reduce('nonneg', dtype='int'))
reg('scipy.special.logsumexp', h_reduce(None))
reg('numpy.percentile numpy.quantile', h_reduce(None, positional_axis=2))
reg('numpy.linalg.norm', h_norm)
reg('numpy.einsum', h_einsum)
reg('numpy.trace', h_fresh())
reg('numpy.swapaxes', h_view('swapaxes'))
reg('numpy.transpose', h_view('transpose'))
reg('numpy.moveaxis', h_view('moveaxis'))
reg('numpy.rollaxis numpy.ravel numpy.diagonal numpy.atleast_1d numpy.atleast_2d numpy.atleast_3d numpy.squeeze', h_view(None))
reg('numpy.squeeze', h_view('squeeze'))
reg('numpy.expand_dims', h_view('expand_dims'))
reg('numpy.reshape', h_view('reshape'))
reg('numpy.broadcast_to', h_view('broadcast_to'))
reg('numpy.ascontiguousarray numpy.asfortranarray numpy.asarray numpy.asanyarray numpy.asfarray', h_asarray)
reg('numpy.copy numpy.array', h_copy)
reg('numpy.zeros_like numpy.ones_like numpy.empty_like numpy.full_like', h_fresh_like)
reg('numpy.zeros numpy.ones numpy.empty numpy.full', h_fresh_shape)
reg('numpy.eye numpy.arange numpy.linspace numpy.logspace numpy.identity numpy.ndindex', h_fresh())
reg('numpy.concatenate numpy.stack numpy.append numpy.repeat numpy.tile numpy.delete numpy.take_along_axis numpy.argsort numpy.unique '
    'numpy.split numpy.unravel_index numpy.linalg.inv numpy.linalg.cholesky numpy.linalg.det numpy.linalg.pinv '
    'scipy.linalg.solve_triangular numpy.insert numpy.roll numpy.triu numpy.tril numpy.diag numpy.histogram', h_fresh())
reg('numpy.linalg.eigh numpy.linalg.eig scipy.linalg.eigh scipy.linalg.eig', h_eigh)
reg('numpy.linalg.solve scipy.linalg.solve', h_solve)
reg('numpy.linalg.lstsq', h_lstsq)
reg('numpy.linalg.slogdet', h_slogdet)
reg('numpy.broadcast_arrays', h_broadcast_arrays)
reg('numpy.iscomplexobj numpy.isrealobj numpy.isscalar numpy.isreal numpy.iscomplex numpy.ndim numpy.shape numpy.size numpy.issubdtype', h_scalar_query)
reg('numpy.finfo numpy.iinfo', h_finfo)
reg('numpy.copyto numpy.put numpy.place numpy.putmask numpy.fill_diagonal numpy.random.shuffle', h_mutator(0))
reg('scipy.optimize.least_squares', h_least_squares)
reg('scipy.interpolate.interp1d', h_interp1d)
reg('itertools.permutations itertools.combinations itertools.product', h_permutations)
reg('numpy.random.uniform numpy.random.normal numpy.random.randn numpy.random.rand numpy.random.dirichlet numpy.random.randint '
    'numpy.random.choice numpy.random.permutation numpy.random.random numpy.random.standard_normal', h_passthrough_rng)
reg('sklearn.mixture._gaussian_mixture._compute_precision_cholesky sklearn.mixture.gaussian_mixture._compute_precision_cholesky '
    'sklearn.mixture._gaussian_mixture._compute_log_det_cholesky sklearn.mixture.gaussian_mixture._compute_log_det_cholesky', h_fresh())
reg('operator.xor operator.mul operator.add', h_fresh(kind=TOP))
reg('functools.reduce', h_fresh(kind=TOP))
reg('warnings.warn', lambda ev, name, pos, kw, ctx, t: cav(None))
reg('numpy.errstate', lambda ev, name, pos, kw, ctx, t: AV(kind=frozenset(['other'])))
reg('collections.namedtuple', lambda ev, name, pos, kw, ctx, t: AV(kind=frozenset(['cls']), meta=('namedtuple',), fns=[Lib_('collections.namedtuple.<instance>')]))
reg('collections.namedtuple.<instance>', lambda ev, name, pos, kw, ctx, t: AV(kind=frozenset(['tuple']), tup=tuple(pos), deps=deps_of(*pos), meta=('namedtuple-instance',)))

DTYPE_NAMES = {'numpy.float64': 'real', 'numpy.float32': 'real', 'numpy.complex128': 'complex', 'numpy.complex64': 'complex', 'numpy.int64': 'int',
               'numpy.bool': 'bool', 'numpy.bool_': 'bool', 'numpy.int8': 'int', 'numpy.int32': 'int'}

FRESH_DEFAULT_PREFIXES = ('numpy.random.',)


def call_lib(ev, dotted, pos, kw, ctx, t):
    h = TABLE.get(dotted)
    if h is not None:
        r = h(ev, dotted, pos, kw, ctx, t)
        return r
    if dotted in DTYPE_NAMES:
        x = pos[0] if pos else UNKNOWN
        return AV(kind=SCALAR if not is_arrayish(x) else TOP, deps=x.deps, dtype=DTYPE_NAMES[dotted], sign=x.sign)
    if dotted == 'scipy.interpolate.interp1d.__call__':
        return AV(kind=ARR, deps=deps_of(*pos), shape=pos[0].shape if pos else None)
    if dotted.split('.')[0] in ('paderbox', 'matplotlib', 'IPython', 'pytest', 'sympy', 'jsonpickle', 'json', 'difflib', 'warnings', 'inspect', 'pathlib'):
        return AV(deps=deps_of(*pos, *kw.values()))
    ev.stats.setdefault('lib_unknown', set()).add(dotted)
    return unknown_result(pos, kw)


# ---------------------------------------------------------------------------- ndarray / generic methods
ND_VIEW = {'reshape': 'reshape', 'transpose': 'transpose', 'swapaxes': 'swapaxes', 'squeeze': 'squeeze', 'ravel': None, 'view': 'same', 'diagonal': None}
ND_REDUCE = {'sum': 'same', 'mean': 'same', 'max': 'max', 'min': 'max', 'prod': 'same', 'std': None, 'var': None, 'all': None, 'any': None,
             'argmax': 'nonneg', 'argmin': 'nonneg', 'cumsum': None, 'cumprod': None}
ND_INPLACE = {'sort', 'fill', 'resize', 'put', 'itemset', 'partition', 'setfield', 'byteswap'}
CONTAINER_MUT = {'append', 'extend', 'insert', 'pop', 'clear', 'remove', 'update', 'setdefault', 'reverse', 'popitem', 'add', 'discard'}


def call_ndmethod(ev, mname, b, pos, kw, ctx, t):
    allv = [b] + list(pos) + list(kw.values())
    if b.meta is not None and isinstance(b.meta, tuple) and b.meta and b.meta[0] == 'interp1d':
        return AV(kind=ARR, deps=deps_of(*allv))
    if mname in ('conj', 'conjugate'):
        # the METHOD returns the array itself for a real dtype (np.conj, the ufunc, always allocates): unless the operand is known to be complex the result may be the
        # operand - an in-place operation on it may write into the caller's array
        known_complex = isinstance(b.dtype, str) and 'complex' in b.dtype
        # (for a real-valued argument - an admissible input wherever a PSD / mask / real signal is taken - the alias is certain, so it is kept as such)
        return AV(kind=ARR, deps=b.deps, alias=frozenset() if known_complex else b.alias, shape=b.shape, norm=b.norm, sign=b.sign, dtype=b.dtype, meta=('conj', b))
    if mname == 'copy':
        return AV(kind=b.kind if b.kind is not TOP else TOP, deps=b.deps, shape=b.shape, norm=b.norm, sign=b.sign, dtype=b.dtype, tup=b.tup, meta=('copy', 'ndarray.copy', b))
    if mname == 'astype':
        return h_copy(ev, 'ndarray.astype', [b] + list(pos), kw, ctx, t)
    if mname == 'flatten':
        return AV(kind=ARR, deps=b.deps, sign=b.sign, dtype=b.dtype, norm='RAW' if tracked(b) else None)
    if mname in ND_VIEW:
        return h_view(ND_VIEW[mname])(ev, 'ndarray.' + mname, [b] + list(pos), kw, ctx, t)
    if mname in ND_REDUCE:
        if mname in ('cumsum', 'cumprod'):
            return AV(kind=ARR, deps=b.deps, shape=b.shape)
        return h_reduce(ND_REDUCE[mname], positional_axis=1, positional_keepdims=None)(ev, 'ndarray.' + mname, [b] + list(pos), kw, ctx, t)
    if mname in ND_INPLACE:
        if b.kind is TOP or (b.kind & {'array'}):
            ctx.effects.append((('method', mname, t), b, UNKNOWN))
        return cav(None)
    if mname in CONTAINER_MUT:
        ctx.effects.append((('container', mname, t), b, UNKNOWN))
        if mname in ('pop', 'setdefault'):
            # dict.pop(key, default): element or default
            d = pos[1] if len(pos) > 1 else None
            known = ev._kwdicts.get(id(b))
            if known is not None and pos and pos[0].is_const:
                if pos[0].cval in known:
                    return known[pos[0].cval]
                if d is not None:
                    return d
            return join(AV(deps=b.deps, alias=maybe(b.alias)), d) if d is not None else AV(deps=b.deps, alias=maybe(b.alias))
        return cav(None)
    if mname in ('tolist', 'item', 'dot', 'round', 'nonzero', 'argsort', 'searchsorted', 'repeat', 'take', 'compress', 'clip', 'trace'):
        return AV(deps=deps_of(*allv))
    if mname in ('get',):
        d = pos[1] if len(pos) > 1 else cav(None)
        if b.is_const and isinstance(b.cval, tuple) and pos and pos[0].const is not TOP:
            try:
                dd = dict(b.cval)
                return join_all([cav(dd.get(k, d.cval if d.is_const else None)) for k in pos[0].const])
            except Exception:
                pass
        return join(AV(deps=deps_of(*allv)), d)
    if mname in ('keys', 'values', 'items'):
        return AV(kind=frozenset(['list']), deps=b.deps, alias=maybe(b.alias))
    if mname in ('format', 'join', 'strip', 'lower', 'upper', 'replace', 'split', 'startswith', 'endswith', 'isdigit'):
        return AV(kind=frozenset(['str']) if mname not in ('split', 'startswith', 'endswith', 'isdigit') else TOP, deps=deps_of(*allv))
    if mname == 'permutation':
        return AV(kind=ARR, deps=frozenset([('rng',)]))
    if mname in ('to_dict', 'from_dict'):
        return AV(deps=deps_of(*allv))
    ev.stats.setdefault('method_unknown', set()).add(mname)
    return AV(deps=deps_of(*allv), alias=maybe(alias_of(*allv)))


def call_strmethod(ev, mname, b, pos, kw, ctx, t):
    outs = []
    if b.const is not TOP and all(p.is_const for p in pos) and not kw:
        try:
            for c in b.const:
                r = getattr(c, mname)(*[p.cval for p in pos])
                if isinstance(r, list):
                    r = tuple(r)
                outs.append(cav(r))
            v = join_all(outs)
            if isinstance(next(iter(v.const)) if v.const else None, tuple) and v.is_const:
                v = v.replace(tup=tuple(cav(x) for x in v.cval))
            return v.replace(deps=b.deps)
        except Exception:
            pass
    return AV(deps=deps_of(b, *pos))


# ---------------------------------------------------------------------------- builtins
def call_builtin(ev, name, pos, kw, ctx, t):
    deps = deps_of(*pos, *kw.values())
    if name == 'isinstance' and len(pos) == 2:
        r = isinstance_abs(ev, pos[0], pos[1])
        if r is not None:
            return cav(r)
        return AV(kind=frozenset(['bool']))
    if name == 'len' and pos:
        x = pos[0]
        if x.tup is not None:
            return cav(len(x.tup))
        if x.is_const and isinstance(x.cval, (str, tuple)):
            return cav(len(x.cval))
        if x.meta is not None and isinstance(x.meta, tuple) and x.meta and x.meta[0] == 'shape_of' and x.meta[1].shape is not None and not x.meta[1].shape.ell:
            return cav(len(x.meta[1].shape.dims))
        return AV(kind=SCALAR, sign='NONNEG', meta=('len', x))
    if name == 'range':
        if pos and all(p.is_const and isinstance(p.cval, int) for p in pos) and len(pos) <= 3:
            try:
                r = range(*[p.cval for p in pos])
                if len(r) <= 16:
                    return AV(kind=frozenset(['list']), tup=tuple(cav(i) for i in r), meta=('range', tuple(pos)))
            except Exception:
                pass
        return AV(kind=frozenset(['list']), meta=('range', tuple(pos)), deps=frozenset())
    if name in ('tuple', 'list') and len(pos) <= 1:
        if not pos:
            return AV(kind=frozenset([name]), tup=())
        x = pos[0]
        if x.is_const and isinstance(x.cval, (tuple, str)):
            return cav(tuple(x.cval)).replace(kind=frozenset([name]), tup=tuple(cav(c) for c in x.cval), const=x.const if name == 'tuple' else TOP)
        return AV(kind=frozenset([name]), tup=x.tup, deps=x.deps, alias=frozenset(), const=x.const if (name == 'tuple' and x.const is not TOP) else TOP, meta=x.meta)
    if name in ('int', 'float', 'complex', 'abs', 'round', 'bool') and pos:
        x = pos[0]
        if x.is_const:
            try:
                return cav({'int': int, 'float': float, 'complex': complex, 'abs': abs, 'round': round, 'bool': bool}[name](x.cval))
            except Exception:
                pass
        sign = 'NONNEG' if name == 'abs' else (x.sign if name in ('float', 'int') else None)
        keep = x.meta if (name in ('float', 'abs') and isinstance(x.meta, tuple) and x.meta and x.meta[0] in ('finfo.tiny', 'finfo.eps')) else None
        return AV(kind=SCALAR, deps=deps, sign=sign, meta=keep)
    if name == 'str':
        if pos and pos[0].is_const:
            return cav(str(pos[0].cval))
        return AV(kind=frozenset(['str']), deps=deps)
    if name == 'getattr' and len(pos) >= 2:
        base, nm = pos[0], pos[1]
        if nm.const is not TOP and nm.const and all(isinstance(c, str) for c in nm.const):
            return join_all([ev.getattr(base, c, t, ctx) for c in sorted(nm.const)])
        # unknown attribute name: any method of the class(es)
        outs = []
        for f in base.fns:
            from .model import Cls
            if isinstance(f, Cls):
                for mn in sorted(f.methods):
                    if not mn.startswith('__'):
                        outs.append(ev.getattr(base, mn, t, ctx))
        if outs:
            return join_all(outs)
        return AV(deps=deps)
    if name in ('sum', 'min', 'max'):
        return AV(deps=deps, kind=TOP)
    if name in ('zip', 'enumerate', 'sorted', 'reversed', 'map', 'filter', 'iter', 'set', 'dict', 'frozenset'):
        return AV(kind=frozenset(['list']) if name not in ('dict', 'set', 'frozenset') else frozenset([name.replace('frozenset', 'set')]), deps=deps, alias=maybe(alias_of(*pos)))
    if name in ('all', 'any', 'hasattr', 'callable', 'issubclass'):
        return AV(kind=frozenset(['bool']), deps=deps)
    if name in ('print', 'setattr'):
        return cav(None)
    if name == 'type' and len(pos) == 1:
        x = pos[0]
        if x.obj is not None:
            return AV(kind=frozenset(['cls']), fns=x.obj.classes)
        return AV(kind=frozenset(['cls']))
    if name == 'slice':
        return AV(kind=frozenset(['slice']), const=frozenset([('slice',) + tuple(p.cval for p in pos)]) if all(p.is_const for p in pos) and len(pos) == 3 else
                  (frozenset([('slice', None, None, None)]) if len(pos) == 1 and pos[0].is_const and pos[0].cval is None else TOP))
    if name == 'next':
        return AV(deps=deps, alias=maybe(alias_of(*pos)))
    if name in ('id', 'hash'):
        return AV(kind=SCALAR, deps=frozenset([('nondet', name)]))
    if name.endswith('Error') or name in ('Exception', 'StopIteration', 'UserWarning', 'NotImplemented'):
        return AV(kind=frozenset(['exc']))
    return AV(deps=deps)


def isinstance_abs(ev, x, typ):
    """definite result of isinstance(x, typ) or None"""
    from .model import Cls, Lib
    types = []
    if typ.tup is not None:
        for e in typ.tup:
            types.extend(e.fns)
    else:
        types.extend(typ.fns)
    if not types:
        return None
    ns = none_state(x)
    results = set()
    for ty in types:
        r = None
        if isinstance(ty, Cls):
            if x.obj is not None and (x.kind is not TOP and x.kind <= {'obj'}):
                mros = [ev.prog.mro(c) for c in x.obj.classes]
                if all(ty in m for m in mros):
                    r = True
                elif not any(ty in m for m in mros) and not any(c in ev.prog.mro(ty) for c in x.obj.classes):
                    r = False
            elif x.kind is not TOP and not (x.kind & {'obj'}) and x.kind:
                r = False
        elif isinstance(ty, Lib):
            d = ty.dotted
            if d == 'numpy.ndarray':
                if x.kind is not TOP and x.kind <= {'array'}:
                    r = True
                elif x.kind is not TOP and not (x.kind & {'array'}) and x.kind:
                    r = False
        elif isinstance(ty, tuple) and ty[0] == 'builtin':
            kmap = {'int': 'scalar', 'float': 'scalar', 'str': 'str', 'tuple': 'tuple', 'list': 'list', 'dict': 'dict', 'bool': 'bool'}
            k = kmap.get(ty[1])
            if x.const is not TOP and x.const:
                py = {'int': int, 'float': float, 'str': str, 'tuple': tuple, 'list': list, 'dict': dict, 'bool': bool}.get(ty[1])
                if py is not None:
                    rs = {isinstance(c, py) for c in x.const}
                    if len(rs) == 1:
                        r = rs.pop()
            elif k is not None and x.kind is not TOP and x.kind:
                if not (x.kind & {k}) and not (k == 'scalar' and (x.kind & {'bool'})):
                    r = False
                elif x.kind <= {k} and k not in ('scalar',):
                    r = True
        if ns is True:
            r = False
        results.add(r)
    if True in results:
        return True
    if results == {False}:
        return False
    return None


BUILTINS = {}
METHODS = {}
