"""R-LIN: signed-term form of an expression.

The return value of a `log_pdf` is reconstructed through the reaching definitions of
straight-line code (`+`, `-`, `*` by factors, `*=`, `-=`, `+=`, unary minus, division by
constants, shape-only indexing) into a sum of products:  sum_i  coef_i * prod(factors_i).
No path conditions, no solver: a gamma node yields one sum per alternative.
"""
from .terms import T
from .walk import strip_views, const_val, NOVAL


class Prod:
    __slots__ = ('coef', 'factors')

    def __init__(self, coef, factors):
        self.coef, self.factors = coef, list(factors)

    def __repr__(self):
        return f'{self.coef:+g}*' + '*'.join(repr(f)[:40] for f in self.factors)


def peel(t):
    """strip shape-only wrappers: x[..., None], x[..., None, :], .real is NOT stripped"""
    while isinstance(t, T):
        t2 = strip_views(t)
        if t2.op == 'sub':
            idx = t2.args[1]
            items = idx.args[0] if idx.op == 'tuple' else (idx,)
            if all((x.op == 'const' and (x.args[0] is None or x.args[0] is Ellipsis)) or
                   (x.op == 'slice' and all(y.op == 'const' and y.args[0] is None for y in x.args)) for x in items):
                t2 = t2.args[0]
        if t2 is t:
            break
        t = t2
    return t


def is_sum(t):
    t = peel(t)
    return isinstance(t, T) and ((t.op in ('binop', 'iop') and t.args[0] in ('Add', 'Sub')) or (t.op == 'unop' and t.args[0] == 'USub' and is_sum(t.args[1])))


def product_factors(t):
    """flatten a product: returns (numeric coefficient, [factor terms])"""
    t = peel(t)
    if isinstance(t, T):
        if t.op in ('binop', 'iop') and t.args[0] == 'Mult':
            c1, f1 = product_factors(t.args[1])
            c2, f2 = product_factors(t.args[2])
            return c1 * c2, f1 + f2
        if t.op in ('binop', 'iop') and t.args[0] == 'Div':
            c1, f1 = product_factors(t.args[1])
            d = const_val(peel(t.args[2]))
            if d is not NOVAL and isinstance(d, (int, float)) and d != 0:
                return c1 / d, f1
            return 1.0, [t]
        if t.op == 'unop' and t.args[0] == 'USub':
            c, f = product_factors(t.args[1])
            return -c, f
        if t.op == 'unop' and t.args[0] == 'UAdd':
            return product_factors(t.args[1])
        v = const_val(t)
        if v is not NOVAL and isinstance(v, (int, float)) and not isinstance(v, bool):
            return float(v), []
    return 1.0, [t]


def linearise(t, depth=0):
    """list of alternatives; each alternative is a list of Prod"""
    t = peel(t)
    if depth > 40 or not isinstance(t, T):
        return [[Prod(1.0, [t])]]
    if t.op == 'gamma':
        return linearise(t.args[1], depth + 1) + linearise(t.args[2], depth + 1)
    if t.op in ('binop', 'iop') and t.args[0] in ('Add', 'Sub'):
        ls = linearise(t.args[1], depth + 1)
        rs = linearise(t.args[2], depth + 1)
        neg = t.args[0] == 'Sub'
        out = []
        for l in ls:
            for r in rs:
                out.append(list(l) + [Prod(-p.coef if neg else p.coef, p.factors) for p in r])
        return out[:16]
    if t.op == 'unop' and t.args[0] == 'USub':
        return [[Prod(-p.coef, p.factors) for p in alt] for alt in linearise(t.args[1], depth + 1)]
    if t.op in ('binop', 'iop') and t.args[0] in ('Mult', 'Div'):
        coef, fs = product_factors(t)
        sums = [f for f in fs if is_sum(f) or (isinstance(peel(f), T) and peel(f).op == 'gamma')]
        if len(sums) == 1:
            rest = [f for f in fs if f is not sums[0]]
            return [[Prod(coef * p.coef, rest + p.factors) for p in alt] for alt in linearise(sums[0], depth + 1)]
        return [[Prod(coef, fs)]]
    coef, fs = product_factors(t)
    return [[Prod(coef, fs)]]
