"""Checker self-test: in-memory source variants (text replacement -> re-analysis).

  * mutants  : one instance broken, still valid Python; the named property's check must report a
               violation whose construct / detail mentions the expected marker;
  * neutrals : behaviour-preserving edits; every check must stay silent.

Nothing is written to disk (the program model takes an overlay of source texts).
A variant whose anchor text is absent from the current tree is counted as skipped.
"""
import importlib
import io
import json
import os
import sys
import time
import contextlib
from concurrent.futures import ProcessPoolExecutor

from .model import AnalysisError
from .core import Analysis, Run, VERIF


def load_corpus():
    p = VERIF / 'pbv' / 'selftest_corpus.json'
    corpus = json.loads(p.read_text())
    # the independently seeded changes (seeded/<name>/patch.diff) are part of the regression corpus
    from .props import ALL
    for d in sorted((VERIF / 'seeded').glob('S*/')):
        meta, patch = d / 'meta.json', d / 'patch.diff'
        if meta.exists() and patch.exists():
            m = json.loads(meta.read_text())
            if m.get('confirmed'):
                corpus.append(dict(id='seed-' + d.name, kind='mutant', property=m['property'], properties=list(ALL), expect=None, patch_abs=str(patch), edits=[]))
    return corpus


def apply_unified_diff(text, root):
    """apply a `git diff` to the files under root, in memory: {relative path: new source}; None if a hunk does not fit"""
    import pathlib
    import re
    out = {}
    cur, lines, delta = None, None, 0
    hunks = []
    for ln in text.splitlines():
        if ln.startswith('+++ '):
            cur = ln[4:].strip()
            cur = cur[2:] if cur.startswith('b/') else cur
            hunks.append((cur, []))
        elif ln.startswith('@@') and hunks:
            m = re.match(r'@@ -(\d+)(?:,(\d+))? \+(\d+)(?:,(\d+))? @@', ln)
            hunks[-1][1].append([int(m.group(1)), []])
        elif hunks and hunks[-1][1] and ln[:1] in (' ', '+', '-') and not ln.startswith('--- '):
            hunks[-1][1][-1][1].append(ln)
        elif hunks and hunks[-1][1] and ln == '':
            hunks[-1][1][-1][1].append(' ')
    for rel, hs in hunks:
        path = pathlib.Path(root) / rel
        if not path.exists():
            return None
        src = path.read_text().split('\n')
        delta = 0
        for start, body in hs:
            old = [x[1:] for x in body if x[:1] in (' ', '-')]
            new = [x[1:] for x in body if x[:1] in (' ', '+')]
            at = start - 1 + delta
            found = None
            for off in sorted(range(-30, 31), key=abs):
                if src[at + off: at + off + len(old)] == old:
                    found = at + off
                    break
            if found is None:
                return None
            src[found: found + len(old)] = new
            delta += len(new) - len(old)
        out[rel] = '\n'.join(src)
    return out


def apply_variant(v, root):
    import pathlib
    if v.get('patch_abs'):
        return apply_unified_diff(pathlib.Path(v['patch_abs']).read_text(), root)
    if v.get('patch'):
        return apply_unified_diff((VERIF / 'pbv' / v['patch']).read_text(), root)
    overlay = {}
    for ed in v['edits']:
        rel = ed['file']
        src = overlay.get(rel)
        if src is None:
            src = (pathlib.Path(root) / rel).read_text()
        if src.count(ed['old']) < 1:
            return None
        n = ed.get('nth', 0)
        if ed.get('all'):
            src = src.replace(ed['old'], ed['new'])
        else:
            idx = -1
            for _ in range(n + 1):
                idx = src.index(ed['old'], idx + 1)
            src = src[:idx] + ed['new'] + src[idx + len(ed['old']):]
        overlay[rel] = src
    return overlay


def run_variant(v):
    import warnings
    warnings.simplefilter('ignore')
    root = os.environ.get('PBV_REPO', '/repo')
    overlay = apply_variant(v, root)
    if overlay is None:
        return dict(id=v['id'], status='skipped', why='anchor text not present in the current tree')
    try:
        import ast
        for rel, src in overlay.items():
            ast.parse(src)
    except SyntaxError as e:
        return dict(id=v['id'], status='error', why=f'variant is not valid python: {e}')
    props = v.get('properties') or [v['property']]
    out = dict(id=v['id'], kind=v['kind'], results={})
    try:
        A = Analysis(root, overlay)
    except AnalysisError as e:
        return dict(id=v['id'], status='analysis-error', why=str(e))
    fired_any = False
    for pid in props:
        mod = importlib.import_module(f'pbv.props.{pid.lower()}')
        run = Run(pid, 'quick', A)
        try:
            mod.check(run)
            viol = [i for i in run.items if i['status'] == 'violation']
            out['results'][pid] = dict(violations=[dict(construct=i['construct'], loc=i['loc'], detail=i['detail'][:200]) for i in viol[:5]], n=len(viol))
            if viol:
                fired_any = True
            elif run.undecided():
                # an undecided obligation ends the check inconclusive (exit 2), like a lost anchor
                u = run.undecided()[0]
                raise AnalysisError(f'undecided obligation {u["rule"]} {u["instance"]}: {u["detail"]}')
        except AnalysisError as e:
            viol = [i for i in run.items if i['status'] == 'violation']
            out['results'][pid] = dict(analysis_error=str(e), n=len(viol),
                                       violations=[dict(construct=i['construct'], loc=i['loc'], detail=i['detail'][:200]) for i in viol[:5]])
            if viol:
                fired_any = True
            if v['kind'] == 'mutant':
                # a vanished anchor fails the run as analysis-broken (exit 2): counts as detected-by-fail-closed
                out.setdefault('fail_closed', []).append(pid)
    if v['kind'] == 'mutant':
        exp = v.get('expect')
        hit = False
        for pid, r in out['results'].items():
            for vi in r.get('violations', []):
                if exp is None or exp in vi['construct'] or exp in vi['detail']:
                    hit = True
        out['status'] = 'killed' if hit else ('fail-closed' if out.get('fail_closed') else ('fired-elsewhere' if fired_any else 'missed'))
    else:
        # `inconclusive_ok`: properties for which this variant is known to rewrite an anchor beyond recognition (einsum built from a mutated
        # operand list, outer product by broadcasting): the check must then stop with an analysis error (exit 2), never with a violation
        errs = [pid for pid, r in out['results'].items() if r.get('analysis_error') and pid not in v.get('inconclusive_ok', [])]
        out['inconclusive'] = [pid for pid, r in out['results'].items() if r.get('analysis_error') and pid in v.get('inconclusive_ok', [])]
        out['status'] = 'silent' if (not fired_any and not errs) else ('false-alarm' if fired_any else 'analysis-error')
    return out


def run_variant_for(arg):
    """run one variant against a single property (used by the thorough tier of that property)"""
    v, pid = arg
    v2 = dict(v)
    v2['properties'] = [pid]
    r = run_variant(v2)
    if v['kind'] == 'mutant' and v.get('property') != pid and r.get('status') == 'missed':
        r['status'] = 'not-this-property'
    return r


def main(argv, tier='quick'):
    corpus = load_corpus()
    only = [a for a in argv if not a.startswith('-')]
    if only:
        corpus = [v for v in corpus if any(v['id'].startswith(o) or o in v.get('properties', [v.get('property')]) for o in only)]
    t0 = time.time()
    jobs = int(os.environ.get('PBV_JOBS', '16'))
    with ProcessPoolExecutor(max_workers=jobs) as ex:
        results = list(ex.map(run_variant, corpus))
    summary = {}
    for r in results:
        summary[r['status']] = summary.get(r['status'], 0) + 1
    for r in results:
        if r['status'] in ('missed', 'false-alarm', 'error', 'analysis-error', 'fired-elsewhere', 'skipped', 'fail-closed') or '-v' in argv:
            print(r['id'], r['status'], json.dumps(r.get('results', r.get('why')))[:400])
    print(f'selftest: {len(results)} variants in {time.time() - t0:.1f}s: {summary}')
    (VERIF / 'evidence').mkdir(exist_ok=True)
    if os.environ.get('PBV_REPO', '/repo') == '/repo':
        (VERIF / 'selftest_report.json').write_text(json.dumps(dict(summary=summary, results=results), indent=1))
    bad = [r for r in results if r['status'] in ('false-alarm', 'error')]
    return 1 if bad else 0
