"""Keyed tables (memo dictionaries at module level, or created empty in a constructor): is the stored VALUE a function of the KEY it is stored under?

A store `TABLE[key] = value` / `TABLE.setdefault(key, value)` inside a function that computes results makes later results depend on earlier calls exactly when a later lookup with an equal key
may expect another value: the value depends on something the key ignores, or on something the key mentions only through its identity (`id(x)`) or through a many-to-one function (`round`).
If the value is computed from the key components alone (plus constants and module-level functions), the table is a memo of a pure function and the results are history-free.

Syntactic, function-local, flow-insensitive def-use over names:
  verdict(...) -> ('ok', why) | ('violation', why) | ('unresolved', why) | None (the statement is not a keyed store into that table)
"""
import ast

LOSSY = {'round', 'around', 'round_', 'rint', 'floor', 'ceil', 'trunc', 'int', 'fix', 'floor_divide', 'digitize', 'hash', 'searchsorted', 'sign', 'abs', 'absolute'}
IDENTITY = {'id'}
# the key component determines the operand completely
INJECTIVE = {'tuple', 'list', 'tolist', 'tobytes', 'bytes', 'float', 'complex', 'item', 'str', 'repr', 'items', 'sorted', 'frozenset', 'asarray', 'array', 'ravel', 'flatten', 'copy', 'dict', 'keys', 'values',
             'zip', 'enumerate', 'map'}
ORDER = {'direct': 0, 'shape': 1, 'derived': 2, 'lossy': 3, 'identity': 4}
# library functions whose result depends on their array operands only through the shapes
SHAPE_ONLY = {'einsum_path', 'broadcast_shapes', 'shape', 'ndim'}


def _call_name(c):
    f = c.func
    return f.attr if isinstance(f, ast.Attribute) else (f.id if isinstance(f, ast.Name) else None)


def _defs(fn_node):
    """name -> right-hand sides it is bound to anywhere in the function (parameters excluded)"""
    defs = {}

    def bind(target, value):
        for n in ast.walk(target):
            if isinstance(n, ast.Name) and isinstance(n.ctx, ast.Store):
                defs.setdefault(n.id, []).append(value)
    for st in ast.walk(fn_node):
        if isinstance(st, ast.Assign):
            for t in st.targets:
                bind(t, st.value)
        elif isinstance(st, ast.AugAssign):
            bind(st.target, st.value)
        elif isinstance(st, ast.AnnAssign) and st.value is not None:
            bind(st.target, st.value)
        elif isinstance(st, (ast.For, ast.AsyncFor)):
            bind(st.target, st.iter)
        elif isinstance(st, ast.comprehension):
            bind(st.target, st.iter)
        elif isinstance(st, ast.NamedExpr):
            bind(st.target, st.value)
        elif isinstance(st, (ast.With, ast.AsyncWith)):
            for it in st.items:
                if it.optional_vars is not None:
                    bind(it.optional_vars, it.context_expr)
    return defs


def _params(fn_node):
    a = fn_node.args
    names = [x.arg for x in a.posonlyargs + a.args + a.kwonlyargs]
    if a.vararg:
        names.append(a.vararg.arg)
    if a.kwarg:
        names.append(a.kwarg.arg)
    return names


def _leaves(expr, fn_node, defs, params, stop=(), self_name=None, methods=None, out_full=None):
    out_full = set() if out_full is None else out_full
    """leaves an expression depends on: {('param', p) | ('self', attr) | ('self-method', m): worst-to-best kind of the path}; sub-expressions whose dump is in `stop` are not entered"""
    out = {}
    seen = set()
    full = set()          # leaves whose CONTENT is used somewhere (not only their shape)
    shape_only = [0]

    def note(leaf, kind):
        if leaf not in out or ORDER[kind] < ORDER[out[leaf]]:
            out[leaf] = kind
        if not shape_only[0]:
            full.add(leaf)

    def worse(a, b):
        return a if ORDER[a] >= ORDER[b] else b

    def go(n, kind):
        if n is None:
            return
        if stop and isinstance(n, ast.expr) and ast.dump(n) in stop:
            return
        if isinstance(n, ast.Name):
            if n.id == self_name:
                note(('self', '*'), kind)
            elif n.id in defs:
                for i, v in enumerate(defs[n.id]):
                    if (n.id, i, kind) not in seen:
                        seen.add((n.id, i, kind))
                        v0 = v
                        while isinstance(v0, ast.Subscript):
                            v0 = v0.value
                        is_extent = (isinstance(v0, ast.Attribute) and v0.attr == 'shape') or (isinstance(v0, ast.Call) and _call_name(v0) == 'shape')
                        # int(s) of an extent `s` (an entry of a shape) loses nothing
                        go(v, 'direct' if (is_extent and kind == 'lossy') else kind)
                if n.id in params:
                    note(('param', n.id), kind)
            elif n.id in params:
                note(('param', n.id), kind)
            return
        if isinstance(n, ast.Attribute):
            if isinstance(n.value, ast.Name) and n.value.id == self_name and self_name is not None:
                note(('self', n.attr), kind)
                return
            # x.shape / x.dtype / x.T ...: something derived from x (x.T, x.real keep everything only together with more - not assumed)
            if n.attr in ('shape', 'ndim', 'dtype', 'size'):
                shape_only[0] += 1
                go(n.value, worse(kind, 'shape'))
                shape_only[0] -= 1
            else:
                go(n.value, worse(kind, 'derived'))
            return
        if isinstance(n, ast.Call):
            name = _call_name(n)
            if isinstance(n.func, ast.Attribute) and isinstance(n.func.value, ast.Name) and n.func.value.id == self_name and self_name is not None:
                for leaf in _method_reads(n.func.attr, methods or {}):
                    note(leaf, kind)
                k2 = worse(kind, 'derived')
            elif name in IDENTITY:
                k2 = worse(kind, 'identity')
            elif name in LOSSY:
                k2 = worse(kind, 'lossy')
            elif name in INJECTIVE:
                k2 = kind
            elif name in ('shape', 'ndim'):
                k2 = worse(kind, 'shape')
            else:
                k2 = worse(kind, 'derived')
            if isinstance(n.func, ast.Attribute) and not (isinstance(n.func.value, ast.Name) and (n.func.value.id == self_name or (n.func.value.id not in defs and n.func.value.id not in params))):
                go(n.func.value, k2)          # the receiver of a method call (not a module: np.round)
            if name in SHAPE_ONLY:
                shape_only[0] += 1
            for a in n.args:
                go(a.value if isinstance(a, ast.Starred) else a, k2)
            for kw in n.keywords:
                go(kw.value, k2)
            if name in SHAPE_ONLY:
                shape_only[0] -= 1
            return
        if isinstance(n, (ast.Tuple, ast.List, ast.Set)):
            for e in n.elts:
                go(e.value if isinstance(e, ast.Starred) else e, kind)
            return
        if isinstance(n, ast.Subscript):
            go(n.value, worse(kind, 'derived'))          # a part of x
            go(n.slice, worse(kind, 'derived'))
            return
        if isinstance(n, ast.BinOp) and isinstance(n.op, (ast.FloorDiv, ast.Mod)):
            go(n.left, worse(kind, 'lossy'))
            go(n.right, worse(kind, 'lossy'))
            return
        if isinstance(n, (ast.GeneratorExp, ast.ListComp, ast.SetComp)):
            go(n.elt, kind)          # the items are reached through the targets (bound to their iterables in `defs`)
            for g_ in n.generators:
                for c_ in g_.ifs:
                    go(c_, worse(kind, 'derived'))
            return
        for c in ast.iter_child_nodes(n):
            if isinstance(c, (ast.expr, ast.comprehension, ast.keyword, ast.Starred)):
                go(c, worse(kind, 'derived') if not isinstance(n, (ast.IfExp, ast.Starred, ast.keyword)) else kind)
    go(expr, 'direct')
    out_full.clear()
    out_full.update(full)
    return out


def _method_reads(name, methods, depth=0, seen=None):
    """what a method of the same class reads of the object: ('self', attr) leaves; a method that is not found, or nests deeper than 3 calls, is ('self-method', name)"""
    seen = set() if seen is None else seen
    m = methods.get(name)
    if m is None or depth > 3:
        return {('self-method', name)}
    if name in seen:
        return set()
    seen.add(name)
    static = any((isinstance(d, ast.Name) and d.id == 'staticmethod') or (isinstance(d, ast.Attribute) and d.attr == 'staticmethod') for d in m.decorator_list)
    if static or not m.args.args:
        return set()
    me = m.args.args[0].arg
    out = set()
    called = {id(c.func) for c in ast.walk(m) if isinstance(c, ast.Call)}
    for x in ast.walk(m):
        if isinstance(x, ast.Attribute) and isinstance(x.value, ast.Name) and x.value.id == me:
            if isinstance(x.ctx, ast.Store):
                out.add(('self-method', name + ' (it stores to the object)'))
            elif id(x) in called or x.attr in methods:
                out |= _method_reads(x.attr, methods, depth + 1, seen)
            else:
                out.add(('self', x.attr))
        elif isinstance(x, ast.Name) and x.id == me and not any(isinstance(p_, ast.Attribute) and p_.value is x for p_ in ast.walk(m)):
            out.add(('self', '*'))
    return out


def keyed_stores(fn_node, is_table):
    """(statement, key expression, value expression) of the stores TABLE[key] = value / TABLE[key], _ = value / TABLE.setdefault(key, value) in the function; is_table(expr) tells the table"""
    out = []
    for st in ast.walk(fn_node):
        if isinstance(st, (ast.Assign, ast.AnnAssign)):
            targets = st.targets if isinstance(st, ast.Assign) else [st.target]
            for t in targets:
                for x in ([t] if not isinstance(t, (ast.Tuple, ast.List)) else list(t.elts)):
                    if isinstance(x, ast.Subscript) and is_table(x.value) and st.value is not None:
                        out.append((st, x.slice, st.value))
        elif isinstance(st, ast.Call) and isinstance(st.func, ast.Attribute) and st.func.attr == 'setdefault' and is_table(st.func.value) and len(st.args) == 2:
            out.append((st, st.args[0], st.args[1]))
    return out


def verdict(fn_node, key, value, self_name=None, instance_config=False, methods=None):
    """is `value` a function of `key`?  instance_config: the table belongs to the object, so the object's own attributes are constants of the table (a module-level table is shared by
    all objects: an attribute the key ignores distinguishes them)"""
    defs = _defs(fn_node)
    params = set(_params(fn_node))
    comps = [key]
    k = key
    if isinstance(k, ast.Name) and len(defs.get(k.id, [])) == 1 and k.id not in params:
        comps.append(defs[k.id][0])
        k = defs[k.id][0]
    if isinstance(k, ast.Tuple):
        comps.extend(k.elts)
        for e in k.elts:
            if isinstance(e, ast.Name) and len(defs.get(e.id, [])) == 1 and e.id not in params:
                comps.append(defs[e.id][0])
    # what a component determines completely is as good as the component: tuple(E.tolist()), E.tobytes(), float(E)
    for c in list(comps):
        while isinstance(c, ast.Call) and _call_name(c) in INJECTIVE and not c.keywords:
            if isinstance(c.func, ast.Attribute) and not c.args:
                c = c.func.value
            elif isinstance(c.func, ast.Name) and len(c.args) == 1:
                c = c.args[0]
            else:
                break
            comps.append(c)
    stop = {ast.dump(c) for c in comps}
    kl = _leaves(key, fn_node, defs, params, self_name=self_name, methods=methods)
    content = set()
    vl = _leaves(value, fn_node, defs, params, stop=stop, self_name=self_name, methods=methods, out_full=content)
    if any(kind == 'identity' for kind in kl.values()):
        ids = sorted(l[1] for l, kind in kl.items() if kind == 'identity')
        return ('violation', f'the key is built from the identity of {ids} (`id(..)`): the same object with other content, or another object at the same address, finds the entry computed before')
    unknown = []
    for leaf, _ in sorted(vl.items()):
        if leaf[0] == 'self-method':
            unknown.append(f'the method self.{leaf[1]}(..) (what it reads of the object is not followed)')
            continue
        if leaf[0] == 'self' and instance_config:
            continue
        name = ('self.' + leaf[1]) if leaf[0] == 'self' else leaf[1]
        if leaf not in kl and not (leaf[0] == 'self' and ('self', '*') in kl):
            return ('violation', f'the stored value depends on `{name}`, which the key does not contain: a later call that differs only in `{name}` finds the entry computed for the earlier one')
        kind = kl.get(leaf, 'derived')
        if kind == 'lossy':
            return ('violation', f'the stored value is computed from `{name}` itself, the key only from a rounded / truncated form of it: different values of `{name}` share one entry, and '
                                 f'which of them the entry was computed for depends on the order of the calls')
        if kind == 'shape' and leaf not in content:
            continue          # the value uses only the shape of the operand (np.einsum_path, .shape), and the key holds that shape
        if kind != 'direct':
            unknown.append(f'`{name}` enters the key only through something derived from it (a shape, a part, a function that is not followed)')
    if unknown:
        return ('unresolved', 'whether the stored value is a function of the key is not decided: ' + '; '.join(unknown[:3]))
    return ('ok', 'the stored value is computed from the components of the key alone')


def table_effect_verdict(fn, node, table_name):
    """an in-place effect (AST node `node`) of function `fn` (model.Func) on the module-level object `table_name`: if it is a keyed store into the table, the verdict of that store; else None
    (any other effect on a module-level object - a slot overwritten, an attribute of a cached object set, a cached array written - is hidden state as such)"""
    if node is None:
        return None
    # the statement may belong to a private helper that the evaluator entered from `fn` (the effect is recorded in the caller's context): judge it in the function that contains it
    fnode, in_class = fn.node, fn.cls is not None
    if not any(y is node for y in ast.walk(fnode)):
        fnode = None
        for mod in {fn.mod}:
            stack = [(mod.tree, False)]
            while stack:
                cur, incls = stack.pop()
                for ch in ast.iter_child_nodes(cur):
                    if isinstance(ch, (ast.FunctionDef, ast.AsyncFunctionDef)) and any(y is node for y in ast.walk(ch)):
                        fnode, in_class = ch, incls          # innermost wins: keep descending
                        stack.append((ch, False))
                    elif isinstance(ch, ast.ClassDef):
                        stack.append((ch, True))
                    elif not isinstance(ch, (ast.FunctionDef, ast.AsyncFunctionDef)):
                        stack.append((ch, incls))
        if fnode is None:
            return None
    class _F:
        pass
    static = any((isinstance(d, ast.Name) and d.id == 'staticmethod') for d in fnode.decorator_list)
    args = [a.arg for a in fnode.args.posonlyargs + fnode.args.args]
    self_name = args[0] if (in_class and not static and args) else None
    stores = keyed_stores(fnode, lambda x: isinstance(x, ast.Name) and x.id == table_name)
    fn = type('F', (), {'node': fnode, 'cls': fn.cls if fnode is fn.node else None})()
    hit = [s_ for s_ in stores if s_[0] is node or any(y is node for y in ast.walk(s_[0])) or any(y is s_[0] for y in ast.walk(node))]
    if not hit:
        return None
    worst = None
    rank = {'ok': 0, 'unresolved': 1, 'violation': 2}
    methods = {m.name: m.node for m in fn.cls.methods.values()} if fn.cls is not None else None
    for st, key, value in hit:
        v = verdict(fn.node, key, value, self_name=self_name, methods=methods)
        if worst is None or rank[v[0]] > rank[worst[0]]:
            worst = v
    return worst
