"""Check runner: obligations, verdicts, known findings, evidence and replay files."""
import json
import re
import os
import pathlib
import sys
import time
import traceback

from .model import Program, AnalysisError
from .terms import Graphs
from .absint import Evaluator

VERIF = pathlib.Path(__file__).resolve().parent.parent
GAUSSIAN_OVERRIDE = {
    # `gaussian: Any` in GCACGMM: one of the three Gaussian classes (field comment in the source says so)
    ('pb_bss.distribution.gcacgmm::GCACGMM', 'gaussian'): [
        'pb_bss.distribution.gaussian::Gaussian',
        'pb_bss.distribution.gaussian::DiagonalGaussian',
        'pb_bss.distribution.gaussian::SphericalGaussian'],
    ('pb_bss.distribution.gmm::GMM', 'gaussian'): [
        'pb_bss.distribution.gaussian::Gaussian',
        'pb_bss.distribution.gaussian::DiagonalGaussian',
        'pb_bss.distribution.gaussian::SphericalGaussian'],
}


class Analysis:
    """everything derived from the current source tree, built once per process"""
    _inst = {}

    def __init__(self, root=None, overlay=None):
        self.t0 = time.time()
        self.prog = Program(root, overlay)
        self.graphs = Graphs(self.prog)
        self.graphs.build_all()
        self.ev = Evaluator(self.prog, self.graphs)
        self.ev.class_override.update(GAUSSIAN_OVERRIDE)
        self.cache = {}

    @classmethod
    def get(cls, root=None):
        key = str(root or os.environ.get('PBV_REPO', '/repo'))
        if key not in cls._inst:
            cls._inst[key] = Analysis(root)
        return cls._inst[key]

    def fresh_evaluator(self):
        ev = Evaluator(self.prog, self.graphs)
        ev.class_override.update(GAUSSIAN_OVERRIDE)
        return ev

    def graph(self, qual):
        return self.graphs.get(self.prog.func(qual))


# obligations that are undecided on the reference tree itself (hand-confirmed), keyed (property, rule, instance)
UNRESOLVED_ON_REFERENCE = set()


def load_known():
    p = VERIF / 'known_findings.json'
    if not p.exists():
        return {'known': [], 'fixed': []}
    return json.loads(p.read_text())


class Run:
    def __init__(self, pid, tier='quick', analysis=None):
        self.pid, self.tier = pid, tier
        self.t0 = time.time()
        self.A = analysis
        self.items = []          # dict(rule, instance, status, loc, detail)
        self.counts = {}
        self.notes = []
        self.assumptions = []
        self.trusted = []
        self.explanation = ''
        self.rule_text = ''
        self.known = load_known()
        self.extra = {}

    # ---- recording
    def _add(self, status, rule, instance, loc, detail, construct=None, path=None):
        self.items.append(dict(rule=rule, instance=instance, status=status, loc=loc, detail=detail,
                               construct=construct or f'{rule}::{instance}', path=path))

    def ok(self, rule, instance, loc='', detail=''):
        self._add('ok', rule, instance, loc, detail)

    def unresolved(self, rule, instance, loc='', detail=''):
        self._add('unresolved', rule, instance, loc, detail)

    def violation(self, rule, instance, loc, detail, construct=None, path=None):
        c = construct or f'{rule}::{instance}'
        for k in self.known.get('known', []):
            if k.get('property') == self.pid and k.get('construct') == c:
                self._add('known', rule, instance, loc, detail, c, path)
                return
        # a report needs a construct the model follows: where the function it points at contains constructs that are not followed (and that its reference version did
        # not contain), the deviation may be an artefact of the model - the obligation is undecided, the check ends inconclusive
        why = self._not_followed(loc, c)
        if why and not self._demotes(why, rule, c):
            why = ''
        if why:
            self._add('unresolved', rule, instance, loc, f'not decided, the function uses constructs the model does not follow ({why}); would otherwise read: {detail}', c, path)
            return
        self._add('violation', rule, instance, loc, detail, c, path)

    # a value accumulated / assembled over blocks of an axis is not followed as a VALUE (the term graph carries one iteration): that leaves the rules about formulas undecided
    # (contractions, linearised densities, order of E-step operations, axes of reductions, sanitiser forms, signs, typestate, rank dispatch) - not the rules that look at the
    # block loop itself or at what is stored where (coverage, mappings, layouts, effects)
    BLOCKWISE_KINDS = ('result accumulated over blocks of an axis', 'array assembled from blocks of an axis')
    BLOCKWISE_DEMOTES = ('R-EIN', 'R-LIN', 'ORDER', 'R-AXIS', 'R-SAN', 'R-SIGN', 'R-NORM', 'R-DEP')

    def _demotes(self, why, rule, construct):
        kinds = [k.split(':')[0].strip() for k in why.split(', ')]
        from .opaque import MEMO_TABLE_READ, MEMO_HELPER
        memo = (MEMO_TABLE_READ, MEMO_HELPER)
        if all(k in self.BLOCKWISE_KINDS or k in memo for k in kinds):
            # a value that comes out of a memo (a module-level table, a new lru_cache helper) is not followed as a value: the formula rules of the function are undecided;
            # the state rules judge the memo itself (pbv/cachekey.py) and are not demoted by it
            if any(k in memo for k in kinds) and rule not in ('R-STATE', 'R-MUT'):
                return True
            return any(k in self.BLOCKWISE_KINDS for k in kinds) and (rule in self.BLOCKWISE_DEMOTES or 'rank-dispatch' in str(construct))
        return True

    def _not_followed(self, loc, construct):
        try:
            from .opaque import new_opaque_constructs
            from .terms import known_funcs
            m = re.match(r'(.+?\.py):(\d+)', str(loc or ''))
            places = []
            if m:
                places.append((m.group(1), int(m.group(2))))
            # the function a construct key names (`R-LOOP::pkg.mod::Class.method::...`)
            for part in str(construct or '').split('::'):
                pass
            mq = re.search(r'(pb_bss[\w.]*)::([\w.]+)', str(construct or ''))
            if mq:
                fn = None
                try:
                    fn = self.A.prog.func(f'{mq.group(1)}::{mq.group(2)}')
                except Exception:
                    fn = None
                if fn is not None:
                    places.append((fn.mod.relpath, fn.node.lineno))
            found = {}
            for rel, line in places:
                for k, v in new_opaque_constructs(self.A.prog, rel, line, known_funcs(), graphs=self.A.graphs).items():
                    found[k] = max(found.get(k, 0), v)
            return ', '.join(f'{k}: {v}' for k, v in sorted(found.items()))
        except AnalysisError:
            raise
        except Exception:
            return ''

    def check(self, cond, rule, instance, loc, detail_ok='', detail_bad='', construct=None, path=None):
        if cond:
            self.ok(rule, instance, loc, detail_ok)
        else:
            self.violation(rule, instance, loc, detail_bad or detail_ok, construct, path)
        return cond

    def floor(self, name, measured, minimum):
        """`minimum` is the count confirmed by hand on the reference tree.  The check fails closed when recognition collapses (fewer than
        two thirds of the confirmed instances, at least one), not when a clean-up legitimately removes a single instance."""
        self.counts[name] = measured
        self.counts[name + ' [confirmed on the reference tree]'] = minimum
        confirmed = minimum
        minimum = max(1, (2 * minimum) // 3)
        if measured < minimum:
            raise AnalysisError(f'{name}: {measured} resolved instances, {confirmed} were confirmed by hand on the reference tree (floor {minimum}) '
                                f'(an anchored construct vanished or is no longer recognised)')

    def count(self, name, n):
        self.counts[name] = n

    def undecided(self):
        return [i for i in self.items if i['status'] == 'unresolved' and (self.pid, i['rule'], i['instance']) not in UNRESOLVED_ON_REFERENCE]

    # ---- finishing
    def finish(self):
        viol = [i for i in self.items if i['status'] == 'violation']
        known = [i for i in self.items if i['status'] == 'known']
        unres = [i for i in self.items if i['status'] == 'unresolved']
        oks = [i for i in self.items if i['status'] == 'ok']
        wall = time.time() - self.t0
        A = self.A
        print(f'== {self.pid} [{self.tier}] analysed {len(A.prog.mods)} modules, {len(A.graphs._g)} functions, '
              f'{len(self.items)} obligations ({len(oks)} discharged, {len(unres)} unresolved, {len(known)} known, {len(viol)} violated)')
        for k, v in sorted(self.counts.items()):
            print(f'   count {k} = {v}')
        by_rule = {}
        for i in self.items:
            by_rule.setdefault(i['rule'], [0, 0, 0])
            by_rule[i['rule']][0 if i['status'] == 'ok' else 1 if i['status'] == 'unresolved' else 2] += 1
        for r, (a, b, c) in sorted(by_rule.items()):
            print(f'   rule {r}: ok={a} unresolved={b} other={c}')
        for i in known:
            print(f'KNOWN-FINDING: property={self.pid} {i["construct"]} at {i["loc"]}: {i["detail"]}')
        replay_paths = []
        if viol:
            rd = VERIF / 'replay'
            if os.environ.get('PBV_REPO', '/repo') != '/repo':
                rd = pathlib.Path(os.environ.get('PBV_EVIDENCE_DIR', '/tmp/pbv-evidence-scratch')) / 'replay'
            rd.mkdir(exist_ok=True, parents=True)
            for n, i in enumerate(viol):
                rp = rd / f'{self.pid}-{n}.json'
                rp.write_text(json.dumps(dict(property=self.pid, tier=self.tier, rule=i['rule'], instance=i['instance'],
                                              construct=i['construct'], loc=i['loc'], detail=i['detail'], path=i['path']), indent=1))
                replay_paths.append(str(rp))
                print(f'  violated: {i["rule"]} {i["instance"]} at {i["loc"]}: {i["detail"]}')
                if i['path']:
                    print(f'     path: {" -> ".join(i["path"])}')
                print(f'VIOLATION property={self.pid} replay={rp}')
        distinct = len({(i['rule'], i['instance']) for i in oks})
        samples = []
        seen_rules = {}
        for i in self.items:
            if seen_rules.get(i['rule'], 0) < 3:
                seen_rules[i['rule']] = seen_rules.get(i['rule'], 0) + 1
                samples.append({k: i[k] for k in ('rule', 'instance', 'status', 'loc', 'detail')})
        ev = dict(
            property_id=self.pid, tier=self.tier, seed=int(os.environ.get('VERIF_SEED', '0') or 0), level='other',
            coverage=dict(
                explanation=self.explanation,
                rule=self.rule_text or 'one obligation per rule instance enumerated from the current source; an instance is '
                                       'non-trivial when the abstract interpreter resolved the construct (not counted: unresolved)',
                obligations=len(self.items), discharged=len(oks) + len(known),
                evaluations=len(self.items), distinct_nontrivial=distinct,
                unresolved=len(unres), known_findings=len(known),
                samples=samples[:40],
                unresolved_samples=[{k: i[k] for k in ('rule', 'instance', 'loc', 'detail')} for i in unres[:10]],
                counts=self.counts,
                analysed=dict(modules=len(A.prog.mods), functions=len(A.graphs._g), source_digest=A.prog.digest()[:16],
                              not_analysed=A.prog.not_analysed),
                trusted_base=self.trusted,
                checker_cmd=f'bin/vcheck {self.pid} --tier {self.tier}',
                exhaustive=False,
                **self.extra,
            ),
            assumptions=self.assumptions, wall_s=round(wall, 3), violations=len(viol))
        evdir = VERIF / 'evidence'
        if os.environ.get('PBV_REPO', '/repo') != '/repo':
            # analysing a scratch copy (self-test / triage): never touch the committed evidence
            evdir = pathlib.Path(os.environ.get('PBV_EVIDENCE_DIR', '/tmp/pbv-evidence-scratch'))
        evdir.mkdir(exist_ok=True, parents=True)
        (evdir / f'{self.pid}.json').write_text(json.dumps(ev, indent=1, default=str))
        # an obligation the analysis could not decide is not a pass: beyond the obligations that are undecided on the reference tree (frozen per property, each
        # with its reason) the check ends inconclusive (exit 2, no VIOLATION line) - "cannot decide" must never look like "holds"
        extra_unres = self.undecided()
        if extra_unres and not viol:
            for i in extra_unres[:5]:
                print(f'ANALYSIS-ERROR property={self.pid}: undecided obligation {i["rule"]} {i["instance"]} at {i["loc"]}: {i["detail"]}')
            print(f'== {self.pid}: INCONCLUSIVE, {len(extra_unres)} obligation(s) could not be decided ({wall:.2f}s)')
            return 2
        print(f'== {self.pid}: {"VIOLATED" if viol else "holds on everything analysed"} ({wall:.2f}s)')
        return 1 if viol else 0


def thorough_extras(run, mod):
    """thorough tier: property-specific deep pass (if the module has one), whole-package cross-reference lints
    (observations only) and the checker self-test on this property's mutant / neutral variants (non-fatal self-assessment)"""
    if hasattr(mod, 'thorough'):
        mod.thorough(run)
    from . import lints, selftest
    try:
        run.extra['observations'] = lints.run_all(run.A)
    except Exception as e:      # observations never decide anything
        run.extra['observations'] = {'error': repr(e)}
    try:
        corpus = [v for v in selftest.load_corpus() if run.pid in (v.get('properties') or [v.get('property')])]
        from concurrent.futures import ProcessPoolExecutor
        import os as _os
        with ProcessPoolExecutor(max_workers=int(_os.environ.get('PBV_JOBS', '16'))) as ex:
            res = list(ex.map(selftest.run_variant_for, [(v, run.pid) for v in corpus]))
        summary = {}
        for r in res:
            summary[r['status']] = summary.get(r['status'], 0) + 1
        run.extra['selftest'] = dict(variants=len(res), summary=summary,
                                     not_killed=[r['id'] for r in res if r['status'] in ('missed', 'fired-elsewhere')],
                                     false_alarms=[r['id'] for r in res if r['status'] == 'false-alarm'])
        print(f'   selftest ({run.pid}): {len(res)} variants {summary}')
    except Exception as e:
        run.extra['selftest'] = {'error': repr(e)}


def loc(fn, node=None):
    try:
        return fn.loc(node)
    except Exception:
        return ''


def main(argv=None):
    import importlib
    argv = list(sys.argv[1:] if argv is None else argv)
    tier = os.environ.get('VERIF_TIER', 'quick')
    if '--tier' in argv:
        i = argv.index('--tier')
        tier = argv[i + 1]
        del argv[i:i + 2]
    if not argv:
        print('usage: vcheck <ID>|all|replay <path>|selftest [--tier quick|thorough]')
        return 2
    cmd = argv[0]
    try:
        if cmd == 'replay':
            rp = json.loads(pathlib.Path(argv[1]).read_text())
            pid = rp['property']
            mod = importlib.import_module(f'pbv.props.{pid.lower()}')
            A = Analysis.get()
            run = Run(pid, rp.get('tier', 'quick'), A)
            mod.check(run)
            still = [i for i in run.items if i['status'] == 'violation' and i['construct'] == rp['construct']]
            print(f'replay {rp["construct"]}: {"still violated" if still else "no longer violated"}')
            for i in still:
                print(f'  {i["loc"]}: {i["detail"]}')
            return 1 if still else 0
        if cmd == 'selftest':
            from . import selftest
            return selftest.main(argv[1:], tier)
        ids = [cmd]
        if cmd == 'all':
            from .props import ALL
            ids = list(ALL)
        rc = 0
        A = Analysis.get()
        for pid in ids:
            mod = importlib.import_module(f'pbv.props.{pid.lower()}')
            run = Run(pid, tier, A)
            try:
                mod.check(run)
                if tier == 'thorough':
                    thorough_extras(run, mod)
                r = run.finish()
            except AnalysisError as e:
                print(f'ANALYSIS-ERROR property={pid}: {e}')
                r = 2
                if any(i['status'] == 'violation' for i in run.items):
                    # violations found before the anchor was lost are still reported (exit 1 takes precedence)
                    run.notes.append(f'analysis stopped early: {e}')
                    r = run.finish()
            rc = max(rc, r) if 1 not in (rc, r) else 1
        return rc
    except AnalysisError as e:
        print(f'ANALYSIS-ERROR: {e}')
        return 2
    except Exception:
        traceback.print_exc()
        print('ANALYSIS-ERROR: internal error of the checker (traceback above)')
        return 2
