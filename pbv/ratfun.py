"""Rational normal form of arithmetic terms over named atoms.

A closed formula (a normalising constant, a moment-matching estimate) can be written in many equivalent ways: factored or expanded,
`a / b * c` or `a * c / b`, `x ** 3` or `x * x ** 2`.  Instead of matching one spelling, a rule classifies the leaves it knows as named
atoms, turns the term into a quotient of two polynomials with rational coefficients over these atoms and compares P1 * Q2 == P2 * Q1 with the
quotient it expects.  Pure syntax-directed rewriting on the term graph; nothing is evaluated numerically.
"""
from fractions import Fraction

from .terms import T
from .walk import strip_views, const_val, NOVAL
from .lin import peel


class NotRational(Exception):
    pass


class Poly:
    """polynomial: {monomial: coefficient}, monomial = tuple(sorted((atom, power)))"""
    __slots__ = ('m',)

    def __init__(self, m=None):
        self.m = {k: v for k, v in (m or {}).items() if v != 0}

    @staticmethod
    def const(c):
        return Poly({(): Fraction(c)})

    @staticmethod
    def atom(a):
        return Poly({((a, 1),): Fraction(1)})

    def __add__(self, o):
        r = dict(self.m)
        for k, v in o.m.items():
            r[k] = r.get(k, 0) + v
        return Poly(r)

    def __neg__(self):
        return Poly({k: -v for k, v in self.m.items()})

    def __sub__(self, o):
        return self + (-o)

    def __mul__(self, o):
        r = {}
        for k1, v1 in self.m.items():
            for k2, v2 in o.m.items():
                d = dict(k1)
                for a, p in k2:
                    d[a] = d.get(a, 0) + p
                k = tuple(sorted((a, p) for a, p in d.items() if p))
                r[k] = r.get(k, 0) + v1 * v2
        return Poly(r)

    def __eq__(self, o):
        return self.m == o.m

    def is_zero(self):
        return not self.m

    def __repr__(self):
        if not self.m:
            return '0'
        out = []
        for k, v in sorted(self.m.items(), key=lambda kv: str(kv[0])):
            mon = '*'.join(f'{a}^{p}' if p != 1 else str(a) for a, p in k)
            out.append(f'{v}' + (f'*{mon}' if mon else ''))
        return ' + '.join(out)


class RF:
    """P / Q"""
    __slots__ = ('p', 'q')

    def __init__(self, p, q=None):
        self.p, self.q = p, q if q is not None else Poly.const(1)

    def __add__(self, o):
        return RF(self.p * o.q + o.p * self.q, self.q * o.q)

    def __sub__(self, o):
        return RF(self.p * o.q - o.p * self.q, self.q * o.q)

    def __neg__(self):
        return RF(-self.p, self.q)

    def __mul__(self, o):
        return RF(self.p * o.p, self.q * o.q)

    def __truediv__(self, o):
        if o.p.is_zero():
            raise NotRational('division by zero')
        return RF(self.p * o.q, self.q * o.p)

    def __pow__(self, n):
        if n < 0:
            return RF(Poly.const(1)) / (self ** (-n))
        r = RF(Poly.const(1))
        for _ in range(n):
            r = r * self
        return r

    def same(self, o):
        return self.p * o.q == o.p * self.q

    def __repr__(self):
        return f'({self.p}) / ({self.q})'


def A(name):
    return RF(Poly.atom(name))


def C(c):
    return RF(Poly.const(c))


def rational(t, classify, depth=0):
    """term -> RF over the atoms `classify(term)` names (a hashable name or None).  Leaves that are neither numbers nor classified raise NotRational:
    the caller reports 'not recognised', never a violation."""
    if depth > 60:
        raise NotRational('too deep')
    t0 = peel(t) if isinstance(t, T) else t
    if not isinstance(t0, T):
        raise NotRational(repr(t0))
    name = classify(t0)
    if name is not None:
        return A(name)
    v = const_val(t0)
    if v is not NOVAL and isinstance(v, (int, float)) and not isinstance(v, bool):
        return C(Fraction(v).limit_denominator(10 ** 12) if isinstance(v, float) else v)
    if t0.op in ('binop', 'iop'):
        opn = t0.args[0]
        if opn == 'Pow':
            e = const_val(peel(t0.args[2]))
            if e is not NOVAL and isinstance(e, int) and not isinstance(e, bool) and abs(e) <= 8:
                return rational(t0.args[1], classify, depth + 1) ** e
            raise NotRational('non-integer power')
        a, b = rational(t0.args[1], classify, depth + 1), rational(t0.args[2], classify, depth + 1)
        if opn == 'Add':
            return a + b
        if opn == 'Sub':
            return a - b
        if opn == 'Mult':
            return a * b
        if opn == 'Div':
            return a / b
        raise NotRational(opn)
    if t0.op == 'unop' and t0.args[0] in ('USub', 'UAdd'):
        r = rational(t0.args[1], classify, depth + 1)
        return -r if t0.args[0] == 'USub' else r
    raise NotRational(f'{t0.op}: {t0!r:.60}')
