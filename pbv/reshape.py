"""R-RESHAPE: a reshape never moves data, so the sequence of atomic axes must be the same before and after
(axes may only be merged / split in place).  `reshape(x (F, K, T), (K, F*T))` silently pairs class k with rows of
other (frequency, class) pairs; it needs a transpose first."""
from .absint import TOP
from .walk import ctx_tree, callee_name


def atomic_target(shape_av):
    """ordered atomic label sets of a reshape target given as tuple of dim / dim-product / constant values; None if unknown"""
    items = shape_av.tup
    if items is None:
        return None
    out = []
    for x in items:
        m = x.meta
        if x.is_const and isinstance(x.cval, int):
            if x.cval == 1:
                continue
            return None
        if m is not None and isinstance(m, tuple) and m and m[0] == 'dim':
            factors = m[2] if len(m) > 2 else (m[1],)
            for f in factors:
                if not f:
                    return None
                out.append(frozenset(f))
        else:
            return None
    return out


def check_reshapes(run, A, entry_quals, rule='R-RESHAPE', label=''):
    """all np.reshape / .reshape calls reached from the entries whose source shape and target are resolved"""
    ev = A.ev
    n = 0
    seen = set()
    for q in entry_quals:
        fn = A.prog.func(q)
        ctx = ev.entry(fn)
        for c in ctx_tree(ctx):
            for cf in c.callfacts:
                name = callee_name(cf)
                if name not in ('numpy.reshape', 'ndarray.reshape') or len(cf.posargs) < 2:
                    continue
                key = (c.fn.qual, cf.term.id)
                if key in seen:
                    continue
                x, shp = cf.posargs[0], cf.posargs[1]
                if x.shape is None or x.shape.ell:
                    continue
                tgt = atomic_target(shp)
                if tgt is None:
                    continue
                src = [d for d in x.shape.dims if '1' not in d]
                seen.add(key)
                n += 1
                inst = f'{c.fn.qual.split("::")[1]}: reshape {x.shape} -> ({", ".join("*".join(sorted(t)) for t in tgt)})'
                where = c.fn.loc(cf.term.node)
                if len(src) != len(tgt):
                    run.unresolved(rule, inst, where, 'different number of atomic axes')
                    continue
                bad = None
                for i, (a, b) in enumerate(zip(src, tgt)):
                    if a and b and not (a & b):
                        # a labelled axis appears at a different atomic position
                        moved = any((b & s2) for s2 in src)
                        if moved or any((a & t2) for t2 in tgt):
                            bad = (i, a, b)
                            break
                run.check(bad is None, rule, inst, where, 'axes merged / split in place',
                          f'the reshape regroups the axes out of order (atomic axis {bad[0] if bad else ""}: source {sorted(bad[1]) if bad else ""} vs target {sorted(bad[2]) if bad else ""}): '
                          f'reshape does not move data, a transpose is missing - rows of different (frequency, class) pairs are mixed',
                          construct=f'{rule}::{c.fn.qual}::axis-order')
    return n
