"""Program model of /repo/pb_bss: modules, classes, functions, import resolution.

Everything is derived from the *current* source on every run (ast only, nothing
of pb_bss is imported or executed).
"""
import ast
import hashlib
import os
import pathlib
import re

PKG = 'pb_bss'


def repo_root():
    return pathlib.Path(os.environ.get('PBV_REPO', '/repo'))


class AnalysisError(Exception):
    """An anchored construct vanished / a source file does not parse / a floor
    on resolved instances is not met.  Mapped to exit code 2."""


class Lib:
    """A name that resolves into a third-party / stdlib library."""
    __slots__ = ('dotted',)

    def __init__(self, dotted):
        self.dotted = dotted

    def __repr__(self):
        return f'Lib({self.dotted})'

    def __eq__(self, o):
        return isinstance(o, Lib) and o.dotted == self.dotted

    def __hash__(self):
        return hash(('Lib', self.dotted))


class Func:
    def __init__(self, mod, cls, node, outer=None):
        self.mod, self.cls, self.node, self.outer = mod, cls, node, outer
        self.name = node.name
        prefix = (cls.name + '.') if cls else ''
        if outer is not None:
            prefix = outer.qual.split('::', 1)[1] + '.<locals>.'
        self.qual = f'{mod.name}::{prefix}{node.name}'
        a = node.args
        self.posonly = [x.arg for x in a.posonlyargs]
        self.args = [x.arg for x in a.args]
        self.kwonly = [x.arg for x in a.kwonlyargs]
        self.vararg = a.vararg.arg if a.vararg else None
        self.kwarg = a.kwarg.arg if a.kwarg else None
        self.params = self.posonly + self.args + self.kwonly
        self.annotations = {x.arg: x.annotation for x in a.posonlyargs + a.args + a.kwonlyargs if x.annotation is not None}
        pos = self.posonly + self.args
        self.defaults = {}
        for name, d in zip(pos[len(pos) - len(a.defaults):], a.defaults):
            self.defaults[name] = d
        for name, d in zip(self.kwonly, a.kw_defaults):
            if d is not None:
                self.defaults[name] = d
        self.decorators = set()
        for d in node.decorator_list:
            t = d.func if isinstance(d, ast.Call) else d
            self.decorators.add(ast.unparse(t).split('.')[-1])
        self.doc = ast.get_docstring(node) or ''

    @property
    def is_static(self):
        return 'staticmethod' in self.decorators

    @property
    def is_classmethod(self):
        return 'classmethod' in self.decorators

    @property
    def is_property(self):
        return bool({'property', 'cached_property'} & self.decorators)

    @property
    def path(self):
        return self.mod.relpath

    @property
    def lineno(self):
        return self.node.lineno

    def loc(self, node=None):
        n = node if node is not None and hasattr(node, 'lineno') else self.node
        return f'{self.mod.relpath}:{n.lineno}'

    def __repr__(self):
        return self.qual


class Cls:
    def __init__(self, mod, node):
        self.mod, self.node, self.name = mod, node, node.name
        self.qual = f'{mod.name}::{node.name}'
        self.methods = {}
        self.fields = {}       # name -> dict(annotation=str, comment=str|None, default=ast|None, init=bool)
        self.class_attrs = {}  # plain class-level assignments
        self.base_exprs = list(node.bases)
        self.decorators = set()
        for d in node.decorator_list:
            t = d.func if isinstance(d, ast.Call) else d
            self.decorators.add(ast.unparse(t).split('.')[-1])

    @property
    def is_dataclass(self):
        return 'dataclass' in self.decorators

    def __repr__(self):
        return self.qual


class Mod:
    def __init__(self, name, path, root, overlay=None):
        self.name, self.path = name, path
        self.relpath = str(path.relative_to(root))
        self.src = overlay[self.relpath] if (overlay and self.relpath in overlay) else path.read_text()
        self.lines = self.src.splitlines()
        self.sha = hashlib.sha256(self.src.encode()).hexdigest()
        try:
            import warnings
            with warnings.catch_warnings():
                warnings.simplefilter('ignore')
                self.tree = ast.parse(self.src)
        except SyntaxError as e:
            raise AnalysisError(f'{self.relpath} does not parse: {e}')
        self.is_pkg = path.name == '__init__.py'
        self.funcs, self.classes = {}, {}
        self.imports = {}       # local -> ('mod', dotted) | ('sym', base, name)
        self.star = []          # bases of `from x import *`
        self.all = None
        self.globals_assigned = {}  # module-level plain assignments name -> value node

    def __repr__(self):
        return f'Mod({self.name})'

    def line_comment(self, lineno):
        if 1 <= lineno <= len(self.lines):
            ln = self.lines[lineno - 1]
            if '#' in ln:
                return ln.split('#', 1)[1].strip()
        return None


class Program:
    def __init__(self, root=None, overlay=None):
        self.root = pathlib.Path(root) if root else repo_root()
        self.overlay = overlay or {}
        self.mods = {}
        pk = self.root / PKG
        if not pk.is_dir():
            raise AnalysisError(f'{pk} not found')
        self.not_analysed = sorted(str(p.relative_to(self.root)) for p in pk.rglob('*.pyx'))
        for p in sorted(pk.rglob('*.py')):
            rel = p.relative_to(self.root).with_suffix('')
            name = '.'.join(rel.parts)
            if name.endswith('.__init__'):
                name = name[:-9]
            self.mods[name] = Mod(name, p, self.root, self.overlay)
        for m in self.mods.values():
            self._index(m)
        self._nested = {}

    # ------------------------------------------------------------ indexing
    def _index(self, m):
        for n in m.tree.body:
            if isinstance(n, (ast.FunctionDef, ast.AsyncFunctionDef)):
                m.funcs[n.name] = Func(m, None, n)
            elif isinstance(n, ast.ClassDef):
                c = Cls(m, n)
                m.classes[n.name] = c
                for b in n.body:
                    if isinstance(b, (ast.FunctionDef, ast.AsyncFunctionDef)):
                        c.methods[b.name] = Func(m, c, b)
                    elif isinstance(b, ast.AnnAssign) and isinstance(b.target, ast.Name):
                        init = True
                        if isinstance(b.value, ast.Call) and ast.unparse(b.value.func).split('.')[-1] == 'field':
                            for k in b.value.keywords:
                                if k.arg == 'init' and isinstance(k.value, ast.Constant):
                                    init = bool(k.value.value)
                        c.fields[b.target.id] = dict(
                            annotation=ast.unparse(b.annotation),
                            comment=m.line_comment(b.lineno),
                            default=b.value, init=init, lineno=b.lineno)
                    elif isinstance(b, ast.Assign):
                        for t in b.targets:
                            if isinstance(t, ast.Name):
                                c.class_attrs[t.id] = b.value
            elif isinstance(n, ast.Assign):
                for t in n.targets:
                    if isinstance(t, ast.Name):
                        m.globals_assigned[t.id] = n.value
                        if t.id == '__all__':
                            try:
                                m.all = list(ast.literal_eval(n.value))
                            except Exception:
                                pass
            elif isinstance(n, ast.AnnAssign) and isinstance(n.target, ast.Name) and n.value is not None:
                m.globals_assigned[n.target.id] = n.value
        # imports anywhere at module level (incl. try/except blocks); function-local
        # imports are handled by the term builder through import_binding().
        for n in self._module_level_nodes(m.tree):
            self._record_import(m, n, m.imports, m.star)

    def _module_level_nodes(self, tree):
        stack = list(tree.body)
        while stack:
            n = stack.pop(0)
            if isinstance(n, (ast.FunctionDef, ast.AsyncFunctionDef, ast.ClassDef)):
                continue
            yield n
            if isinstance(n, (ast.Try, ast.If, ast.With)):
                for fld in ('body', 'orelse', 'finalbody'):
                    stack.extend(getattr(n, fld, []) or [])
                for h in getattr(n, 'handlers', []) or []:
                    stack.extend(h.body)

    def abs_module(self, m, level, module):
        if not level:
            return module or ''
        parts = m.name.split('.')
        if not m.is_pkg:
            parts = parts[:-1]
        parts = parts[:len(parts) - (level - 1)]
        return '.'.join(parts + ([module] if module else []))

    def _record_import(self, m, n, table, star):
        if isinstance(n, ast.Import):
            for a in n.names:
                if a.asname:
                    table.setdefault(a.asname, ('mod', a.name))
                else:
                    table.setdefault(a.name.split('.')[0], ('mod', a.name.split('.')[0]))
        elif isinstance(n, ast.ImportFrom):
            base = self.abs_module(m, n.level, n.module)
            for a in n.names:
                if a.name == '*':
                    star.append(base)
                else:
                    table.setdefault(a.asname or a.name, ('sym', base, a.name))

    def import_binding(self, m, node):
        """bindings {local: resolved} introduced by a function-local import statement"""
        table, star = {}, []
        self._record_import(m, node, table, star)
        out = {}
        for local, imp in table.items():
            out[local] = self._resolve_import(imp, set())
        return out

    # ------------------------------------------------------------ resolution
    def _resolve_import(self, imp, seen):
        if imp[0] == 'mod':
            return self.mods.get(imp[1]) or Lib(imp[1])
        _, base, sym = imp
        if base in self.mods:
            r = self.lookup(self.mods[base], sym, seen)
            if r is not None:
                return r
            sub = self.mods.get(base + '.' + sym)
            if sub:
                return sub
            return None
        if base.split('.')[0] == PKG:
            # e.g. the Cython extension modules, which are not part of the analysed program
            rel = base.replace('.', '/') + '.pyx'
            if rel in self.not_analysed:
                return Lib(base + '.' + sym)
            return None
        return Lib(base + '.' + sym)

    def lookup(self, m, name, seen=None):
        """Resolve a module-level name to Func | Cls | Lib | Mod | ('global', Mod, name) | None"""
        seen = seen if seen is not None else set()
        if (m.name, name) in seen:
            return None
        seen.add((m.name, name))
        if name in m.funcs:
            return m.funcs[name]
        if name in m.classes:
            return m.classes[name]
        imp = m.imports.get(name)
        if imp:
            return self._resolve_import(imp, seen)
        if name in m.globals_assigned:
            return ('global', m, name)
        for base in m.star:
            bm = self.mods.get(base)
            if bm is not None:
                if (bm.all is None and not name.startswith('_')) or (bm.all is not None and name in bm.all):
                    r = self.lookup(bm, name, seen)
                    if r is not None:
                        return r
        return None

    def bases(self, cls):
        out = []
        for b in cls.base_exprs:
            r = self.resolve_expr_static(cls.mod, b)
            if isinstance(r, Cls):
                out.append(r)
        return out

    def mro(self, cls, seen=None):
        seen = seen if seen is not None else []
        if cls in seen:
            return seen
        seen.append(cls)
        for b in self.bases(cls):
            self.mro(b, seen)
        return seen

    def method(self, cls, name):
        for c in self.mro(cls):
            if name in c.methods:
                return c.methods[name]
        return None

    def all_fields(self, cls):
        out = {}
        for c in reversed(self.mro(cls)):
            out.update(c.fields)
        return out

    def subclasses(self, cls):
        return [c for c in self.all_classes() if c is not cls and cls in self.mro(c)]

    def resolve_expr_static(self, m, e):
        """Resolve Name / dotted Attribute expression at module level."""
        if isinstance(e, ast.Name):
            return self.lookup(m, e.id)
        if isinstance(e, ast.Attribute):
            b = self.resolve_expr_static(m, e.value)
            return self.getattr_static(b, e.attr)
        if isinstance(e, ast.Constant) and isinstance(e.value, str):
            # string annotation
            return self.lookup(m, e.value.split('.')[-1])
        return None

    def getattr_static(self, b, attr):
        if isinstance(b, Lib):
            return Lib(b.dotted + '.' + attr)
        if isinstance(b, Mod):
            r = self.lookup(b, attr)
            if r is None:
                sub = self.mods.get(b.name + '.' + attr)
                return sub
            return r
        if isinstance(b, Cls):
            f = self.method(b, attr)
            return f
        return None

    # ------------------------------------------------------------ enumeration
    def all_classes(self):
        for m in self.mods.values():
            yield from m.classes.values()

    def all_funcs(self):
        for m in self.mods.values():
            yield from m.funcs.values()
            for c in m.classes.values():
                yield from c.methods.values()

    def find_class(self, name):
        return [c for c in self.all_classes() if c.name == name]

    def cls(self, qual):
        """'pb_bss.distribution.cacgmm::CACGMM' -> Cls (AnalysisError if missing)"""
        modn, cn = qual.split('::')
        m = self.mods.get(modn)
        if m is None or cn not in m.classes:
            raise AnalysisError(f'anchored class {qual} not found')
        return m.classes[cn]

    def func(self, qual):
        """'mod::f' or 'mod::Cls.m' -> Func (AnalysisError if missing)"""
        modn, q = qual.split('::')
        m = self.mods.get(modn)
        if m is None:
            raise AnalysisError(f'anchored module {modn} not found')
        if '.' in q:
            cn, fn = q.split('.', 1)
            c = m.classes.get(cn)
            f = self.method(c, fn) if c else None
        else:
            f = m.funcs.get(q)
        if f is None:
            raise AnalysisError(f'anchored function {qual} not found')
        return f

    def try_func(self, qual):
        try:
            return self.func(qual)
        except AnalysisError:
            return None

    def new_helper_names(self):
        """simple names of repo functions that the reference tree does not have (they are inlined by the term builder)"""
        if getattr(self, '_new_helpers', None) is None:
            from .terms import known_funcs
            known = known_funcs()
            self._new_helpers = frozenset(f.name for f in self.all_funcs() if f.qual not in known)
        return self._new_helpers

    def nested_func(self, outer, node):
        key = (outer.qual, node.lineno, node.name)
        if key not in self._nested:
            self._nested[key] = Func(outer.mod, None, node, outer=outer)
        return self._nested[key]

    def digest(self):
        h = hashlib.sha256()
        for name in sorted(self.mods):
            h.update(name.encode())
            h.update(self.mods[name].sha.encode())
        return h.hexdigest()

    def file_digests(self):
        return {m.relpath: m.sha[:16] for m in self.mods.values()}


_SHAPE_RE = re.compile(r'\(([^()]*)\)')


def parse_shape_text(text):
    """'(..., K, N)' -> ('...', 'K', 'N'); returns first parenthesised shape or None."""
    if not text:
        return None
    for m in _SHAPE_RE.finditer(text):
        parts = [p.strip() for p in m.group(1).split(',')]
        if parts and parts[-1] == '':
            parts = parts[:-1]
        if not parts:
            return ()
        ok = all(p == '...' or re.fullmatch(r'[A-Za-z_][A-Za-z_0-9]*|\d+|\*[A-Za-z_]+', p) for p in parts)
        if ok:
            return tuple(parts)
    return None
