"""R-API: library contract typing.  Third-party libraries (numpy / scipy / sklearn) are imported here -- and only
here -- to resolve attribute names and signatures the way a type checker reads stubs.  pb_bss itself is never imported."""
import importlib
import inspect

from .model import Lib
from .terms import T, walk_terms
from .walk import call_parts

_cache = {}
CHECKED_TOPS = ('numpy', 'scipy', 'sklearn')


def resolve(dotted):
    """(exists: True/False/None, object) ; None when the top-level library cannot be imported here"""
    if dotted in _cache:
        return _cache[dotted]
    parts = dotted.split('.')
    if parts[0] not in CHECKED_TOPS:
        _cache[dotted] = (None, None)
        return _cache[dotted]
    obj = None
    res = (None, None)
    try:
        obj = importlib.import_module(parts[0])
    except Exception:
        _cache[dotted] = (None, None)
        return _cache[dotted]
    ok = True
    for i, p in enumerate(parts[1:], 1):
        try:
            obj = getattr(obj, p)
        except AttributeError:
            try:
                obj = importlib.import_module('.'.join(parts[:i + 1]))
            except Exception:
                ok = False
                break
    res = (ok, obj if ok else None)
    _cache[dotted] = res
    return res


def lib_refs(graph):
    """all (dotted, term) library references of a function graph"""
    out, seen = [], set()
    roots = [graph.ret] + [e.term for e in graph.events if e.term is not None]
    for r in roots:
        for t in walk_terms(r, seen):
            if t.op == 'ref' and isinstance(t.args[0], Lib) and t.fn is graph.fn:
                out.append((t.args[0].dotted, t))
    return out


def check_attrs(run, A, fn_quals, rule='R-API'):
    n = 0
    for q in fn_quals:
        fn = A.prog.func(q)
        g = A.graphs.get(fn)
        for dotted, t in lib_refs(g):
            ex, obj = resolve(dotted)
            if ex is None:
                continue
            n += 1
            if not ex:
                run.violation(rule, f'{q.split("::")[1]}: {dotted}', fn.loc(t.node), f'`{dotted}` does not exist in the installed library (removed / renamed API): the call raises AttributeError',
                              construct=f'{rule}::{q}::missing::{dotted}')
    return n


def check_keywords(run, A, fn_quals, rule='R-API'):
    """keyword arguments of library calls exist in the callee's signature (where inspect can tell)"""
    n = 0
    for q in fn_quals:
        fn = A.prog.func(q)
        g = A.graphs.get(fn)
        for e in g.events:
            if e.kind != 'call':
                continue
            name, pos, kw = call_parts(e.term)
            if not name or name.split('.')[0] not in CHECKED_TOPS or not kw:
                continue
            ex, obj = resolve(name)
            if not ex or obj is None:
                continue
            try:
                sig = inspect.signature(obj)
            except (TypeError, ValueError):
                continue
            params = sig.parameters
            if any(p.kind == inspect.Parameter.VAR_KEYWORD for p in params.values()):
                continue
            for k in kw:
                n += 1
                if k not in params:
                    run.violation(rule, f'{q.split("::")[1]}: {name}({k}=...)', fn.loc(e.term.node), f'`{name}` has no parameter `{k}` in the installed library (TypeError at run time)',
                                  construct=f'{rule}::{q}::keyword::{name}::{k}')
    return n
