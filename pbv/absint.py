"""Abstract interpretation over the gated-SSA term graphs (terms.py).

One evaluator computes, for every term in a *context* (a function together with
abstract arguments), an abstract value ``AV`` that is a product of small domains:

  const  finite set of python constants (branch pruning, einsum subscripts, options)
  kind   coarse python kind (none / array / tuple / str / obj / callable ...)
  obj    field-sensitive abstract instance of a repo class
  tup    component-wise value of tuples of known length
  fns    set of callables the value may denote (call resolution)
  deps   set of origins the value may depend on             (R-DEP, R-ROLE)
  alias  set of memory roots the value may share storage with (R-MUT)
  norm   unit-norm typestate RAW / UNIT@axis                 (R-NORM)
  sign   POS / NONNEG / NONZERO                              (R-SIGN)
  shape  named-axis shape with optional leading '...'        (R-AXIS, R-ELL)

Calls to repo functions are analysed context-sensitively: the callee's graph is
evaluated with the caller's abstract arguments, memoised on (callee, abstract
argument tuple), bounded in depth.  Loops (``mu`` nodes) are iterated to a
fixpoint (<= 4 rounds).  Library functions are table driven (nptable.py);
anything not in the table yields the unknown value (never an alarm).
"""
import itertools

from .model import Func, Cls, Mod, Lib, parse_shape_text
from .terms import T, FuncGraph, Graphs, show, RAISE, UNDEF, FALL

_cid = itertools.count(1)

TOP = None
MAX_CONST = 16
MAX_DEPTH = 9


class Shape:
    """dims counted from the right; ell=True means arbitrary leading axes may precede.
    each dim is a frozenset of labels (names given to that axis by any source) -- '1' marks a
    singleton, '?' unknown."""
    __slots__ = ('ell', 'dims')

    def __init__(self, ell, dims):
        self.ell, self.dims = bool(ell), tuple(frozenset(d) if not isinstance(d, frozenset) else d for d in dims)

    def key(self):
        return (self.ell, tuple(tuple(sorted(d)) for d in self.dims))

    def __eq__(self, o):
        return isinstance(o, Shape) and self.key() == o.key()

    def __hash__(self):
        return hash(self.key())

    def __repr__(self):
        return '(' + ', '.join((['...'] if self.ell else []) + ['|'.join(sorted(d)) or '?' for d in self.dims]) + ')'

    @property
    def rank(self):
        return None if self.ell else len(self.dims)

    def dim(self, axis):
        """axis negative (from the right) or, for exact shapes, non-negative"""
        if axis is None:
            return None
        if axis < 0:
            if -axis <= len(self.dims):
                return self.dims[axis]
            return None
        if not self.ell and axis < len(self.dims):
            return self.dims[axis]
        return None

    def neg_axis(self, axis):
        if axis is None:
            return None
        if axis < 0:
            return axis
        if not self.ell:
            return axis - len(self.dims)
        return None

    @staticmethod
    def from_text(parts):
        if parts is None:
            return None
        ell = False
        dims = []
        for i, p in enumerate(parts):
            if p == '...' or p.startswith('*'):
                if i != 0:
                    return None
                ell = True
            else:
                dims.append(frozenset([p]))
        return Shape(ell, dims)

    def join(self, o):
        if o is None:
            return None
        if self == o:
            return self
        n = min(len(self.dims), len(o.dims))
        if len(self.dims) != len(o.dims) and not (self.ell or o.ell):
            ell = True
        else:
            ell = self.ell or o.ell or len(self.dims) != len(o.dims)
        dims = []
        for i in range(1, n + 1):
            a, b = self.dims[-i], o.dims[-i]
            dims.append(a | b if ('1' in a) == ('1' in b) else frozenset((a | b) - {'1'}))
        return Shape(ell, tuple(reversed(dims)))


MEMOISING_DECORATORS = frozenset(('lru_cache', 'cache', 'cached_property', 'memoize', 'memoized'))


class Obj:
    """abstract instance of repo classes with per-field abstract values"""
    __slots__ = ('classes', 'fields', 'mutable', 'oid', 'origin', 'variants')

    def __init__(self, classes, fields=None, mutable=False, origin=None, variants=None):
        self.classes = frozenset(classes)
        self.fields = dict(fields or {})
        self.mutable = mutable
        self.oid = next(_cid)
        self.origin = origin
        self.variants = variants or {}     # class -> Obj, for joins of instances of different classes

    def key(self):
        return ('obj', tuple(sorted(c.qual for c in self.classes)),
                tuple(sorted((k, v.key()) for k, v in self.fields.items())),
                self.oid if self.mutable else None,
                tuple(sorted((c.qual, o.key()) for c, o in self.variants.items())))

    def variant(self, cls):
        return self.variants.get(cls, self)

    def __repr__(self):
        return f'Obj({"|".join(sorted(c.name for c in self.classes))})'


class AV:
    __slots__ = ('const', 'kind', 'obj', 'tup', 'fns', 'deps', 'alias', 'norm', 'sign', 'shape', 'term', 'dtype',
                 'vid', 'ncore', 'meta', '_key')

    def __init__(self, const=TOP, kind=TOP, obj=None, tup=None, fns=frozenset(), deps=frozenset(), alias=frozenset(),
                 norm=None, sign=None, shape=None, term=None, dtype=None, vid=None, ncore=None, meta=None):
        self.const, self.kind, self.obj, self.tup, self.fns = const, kind, obj, tup, frozenset(fns)
        self.deps, self.alias = frozenset(deps), frozenset(alias)
        self.norm, self.sign, self.shape, self.term, self.dtype = norm, sign, shape, term, dtype
        self.vid, self.ncore, self.meta = vid, ncore, meta
        self._key = None

    def key(self):
        if self._key is None:
            self._key = (
                None if self.const is TOP else tuple(sorted(map(_ckey, self.const))),
                None if self.kind is TOP else tuple(sorted(self.kind)),
                self.obj.key() if self.obj is not None else None,
                tuple(x.key() for x in self.tup) if self.tup is not None else None,
                tuple(sorted(_fkey(f) for f in self.fns)),
                tuple(sorted(map(repr, self.deps))), tuple(sorted(map(repr, self.alias))),
                self.norm, self.sign, self.shape.key() if self.shape is not None else None, self.dtype,
                self.vid, self.ncore, _mkey(self.meta))
        return self._key

    def replace(self, **kw):
        d = {s: getattr(self, s) for s in AV.__slots__ if s != '_key'}
        d.update(kw)
        return AV(**d)

    @property
    def is_const(self):
        return self.const is not TOP and len(self.const) == 1

    @property
    def cval(self):
        return next(iter(self.const))

    def consts(self):
        return None if self.const is TOP else set(self.const)

    def __repr__(self):
        bits = []
        if self.const is not TOP:
            bits.append('c=' + repr(sorted(self.const, key=repr)))
        if self.kind is not TOP:
            bits.append('k=' + '|'.join(sorted(self.kind)))
        if self.obj is not None:
            bits.append(repr(self.obj))
        if self.tup is not None:
            bits.append(f'tup{len(self.tup)}')
        if self.fns:
            bits.append('fns=' + ','.join(sorted(_fkey(f) for f in self.fns)))
        if self.norm:
            bits.append('norm=' + str(self.norm))
        if self.sign:
            bits.append('sign=' + self.sign)
        if self.shape is not None:
            bits.append('shape=' + repr(self.shape))
        if self.deps:
            bits.append('deps=' + repr(sorted(map(str, self.deps))))
        if self.alias:
            bits.append('alias=' + repr(sorted(map(str, self.alias))))
        return 'AV(' + ' '.join(bits) + ')'


def _mkey(m):
    if m is None:
        return None
    if isinstance(m, AV):
        return m.key()
    if isinstance(m, tuple):
        return tuple(_mkey(x) for x in m)
    if isinstance(m, frozenset):
        return tuple(sorted(map(repr, m)))
    return repr(m)


def _ckey(c):
    return (type(c).__name__, repr(c))


def _fkey(f):
    if isinstance(f, tuple):
        return '/'.join(_fkey(x) if not isinstance(x, AV) else '<self>' for x in f)
    if isinstance(f, (Func, Cls)):
        return f.qual
    if isinstance(f, Lib):
        return f.dotted
    return repr(f)


BOT = AV(const=frozenset(), kind=frozenset())
UNKNOWN = AV()


def is_bot(v):
    return v.const is not TOP and len(v.const) == 0 and v.kind is not TOP and len(v.kind) == 0 and v.obj is None and not v.fns and v.tup is None


def cav(value, term=None):
    k = 'none' if value is None else 'bool' if isinstance(value, bool) else 'str' if isinstance(value, str) else \
        'scalar' if isinstance(value, (int, float, complex)) else 'tuple' if isinstance(value, tuple) else 'other'
    sign = None
    if isinstance(value, (int, float)) and not isinstance(value, bool):
        sign = 'POS' if value > 0 else 'NONNEG' if value == 0 else 'NONZERO'
    try:
        hash(value)
        c = frozenset([value])
    except TypeError:
        c = TOP
    return AV(const=c, kind=frozenset([k]), sign=sign, term=term)


def join_sign(a, b):
    if a == b:
        return a
    order = {('POS', 'NONNEG'): 'NONNEG', ('POS', 'NONZERO'): 'NONZERO'}
    return order.get((a, b)) or order.get((b, a))


def join(a, b):
    if a is None:
        return b
    if b is None:
        return a
    if a is b:
        return a
    if is_bot(a):
        return b
    if is_bot(b):
        return a
    if a.const is TOP or b.const is TOP:
        c = TOP
    else:
        c = a.const | b.const
        if len(c) > MAX_CONST:
            c = TOP
    kind = TOP if (a.kind is TOP or b.kind is TOP) else a.kind | b.kind
    if a.obj is not None and b.obj is not None:
        if a.obj is b.obj:
            obj = a.obj
        else:
            fields = {}
            for k in set(a.obj.fields) | set(b.obj.fields):
                if k in a.obj.fields and k in b.obj.fields:
                    fields[k] = join(a.obj.fields[k], b.obj.fields[k])
            variants = {}
            if a.obj.classes != b.obj.classes:
                for o in (a.obj, b.obj):
                    for kc in o.classes:
                        ov = o.variant(kc)
                        if kc in variants and variants[kc] is not ov:
                            ov = join(AV(obj=variants[kc]), AV(obj=ov)).obj if variants[kc].classes == ov.classes else ov
                        variants[kc] = ov
            obj = Obj(a.obj.classes | b.obj.classes, fields, origin=a.obj.origin, variants=variants)
    else:
        obj = a.obj or b.obj
    tup = None
    if a.tup is not None and b.tup is not None and len(a.tup) == len(b.tup):
        tup = tuple(join(x, y) for x, y in zip(a.tup, b.tup))
    # a value that is an array on one path and None on the other keeps the array's typestate
    a_none = a.kind is not TOP and a.kind <= {'none'}
    b_none = b.kind is not TOP and b.kind <= {'none'}
    if a_none and not b_none:
        norm, sign, shape, dtype = b.norm, b.sign, b.shape, b.dtype
    elif b_none and not a_none:
        norm, sign, shape, dtype = a.norm, a.sign, a.shape, a.dtype
    else:
        norm = a.norm if a.norm == b.norm else ('LOST' if 'LOST' in (a.norm, b.norm) else ('RAW' if (a.norm or b.norm) else None))
        sign = join_sign(a.sign, b.sign)
        shape = a.shape.join(b.shape) if (a.shape is not None and b.shape is not None) else None
        dtype = a.dtype if a.dtype == b.dtype else None
    return AV(const=c, kind=kind, obj=obj, tup=tup, fns=a.fns | b.fns, deps=a.deps | b.deps, alias=a.alias | b.alias,
              norm=norm, sign=sign, shape=shape, term=a.term if a.term is b.term else None, dtype=dtype,
              vid=a.vid if a.vid == b.vid else None, ncore=a.ncore if a.ncore == b.ncore else None,
              meta=a.meta if _mkey(a.meta) == _mkey(b.meta) else None)


def join_all(vs):
    out = None
    for v in vs:
        out = join(out, v)
    return out if out is not None else BOT


class _PseudoFn:
    """stand-in for module-level code"""
    def __init__(self, mod):
        self.mod, self.cls, self.outer, self.qual = mod, None, None, mod.name + '::<module>'
        self.params, self.vararg, self.kwarg = [], None, None
        self.node = mod.tree
        self.path = mod.relpath

    def loc(self, node=None):
        return f'{self.mod.relpath}:{getattr(node, "lineno", 0)}'


class Ctx:
    def __init__(self, ev, fn, graph, bind, parent=None, closure=None, call_term=None):
        self.ev, self.fn, self.graph, self.bind = ev, fn, graph, bind
        self.parent, self.closure, self.call_term = parent, closure, call_term
        self.depth = 0 if parent is None else parent.depth + 1
        self.id = next(_cid)
        self.memo = {}
        self.result = None
        self.done = False
        self.callfacts = []     # (event, callees, argmaps, result)
        self.children = []
        self.effects = []       # in-place effects observed while running events
        self.setattrs = []
        self.feasible_events = []
        self.running = False

    def chain(self):
        out, c = [], self
        while c is not None:
            out.append(c.fn.qual)
            c = c.parent
        return list(reversed(out))

    def __repr__(self):
        return f'Ctx({self.fn.qual}#{self.id})'


class CallFact:
    __slots__ = ('event', 'term', 'callee', 'args', 'result', 'ctx', 'child', 'posargs', 'kwargs')

    def __init__(self, event, term, callee, args, result, ctx, child=None, posargs=(), kwargs=()):
        self.event, self.term, self.callee, self.args, self.result, self.ctx, self.child = event, term, callee, args, result, ctx, child
        self.posargs, self.kwargs = posargs, kwargs

    @property
    def name(self):
        return _fkey(self.callee)

    def __repr__(self):
        return f'CallFact({self.name} @ {self.ctx.fn.loc(self.term.node)})'


class Evaluator:
    def __init__(self, prog, graphs=None, table=None):
        from . import nptable
        self.prog = prog
        self.graphs = graphs or Graphs(prog)
        self.table = table or nptable.TABLE
        self.builtin_table = nptable.BUILTINS
        self.method_table = nptable.METHODS
        self.ctx_memo = {}
        self.temp_memos = []
        self.mu_approx = {}
        self.stats = dict(calls_total=0, calls_repo_resolved=0, calls_lib=0, calls_unresolved=0, unresolved_sites=set())
        self.class_override = {}    # (Cls qual, field) -> [Cls quals]
        self._closure_terms = {}
        self._annot_cache = {}
        self._static_cache = {}
        self._doc_cache = {}
        self._kwdicts = {}

    # ------------------------------------------------------------------ contexts / entries
    def param_av(self, fn, name, **kw):
        d = dict(deps=frozenset([('param', name)]), alias=frozenset([('param', fn.qual, name)]), vid=('p', fn.qual, name))
        d.update(kw)
        return AV(**d)

    def model_obj(self, cls, prefix='self', mutable=False, depth=0):
        """abstract instance built from dataclass field annotations / comments"""
        fields = {}
        for name, info in self.prog.all_fields(cls).items():
            path = f'{prefix}.{name}'
            ann = info['annotation']
            over = self.class_override.get((cls.qual, name))
            sub = None
            if over:
                subs = [self.prog.cls(q) for q in over]
                v = join_all([AV(kind=frozenset(['obj']), obj=self.model_obj(s, path, mutable, depth + 1), deps=frozenset([('field', path)])) for s in subs])
                fields[name] = v
                continue
            r = self.prog.lookup(cls.mod, ann.split('.')[-1]) if ann else None
            if isinstance(r, Cls) and depth < 4:
                fields[name] = AV(kind=frozenset(['obj']), obj=self.model_obj(r, path, mutable, depth + 1), deps=frozenset([('field', path)]))
            else:
                shape = Shape.from_text(parse_shape_text(info.get('comment') or ''))
                kind = TOP
                if ann in ('np.array', 'np.ndarray'):
                    kind = frozenset(['array'])
                fields[name] = AV(kind=kind, deps=frozenset([('field', path)]), alias=frozenset([('field', path)]), shape=shape)
        return Obj([cls], fields, mutable=mutable, origin=prefix)

    def init_obj(self, cls):
        """instance of a plain class as its __init__ leaves it, constructor arguments unknown"""
        init = self.prog.method(cls, '__init__')
        if init is None or init.name != '__init__' or self.prog.method(cls, '__init__').cls is None:
            return self.plain_obj(cls)
        pos = []
        kw = {}
        for p in (init.posonly + init.args)[1:]:
            pos.append(AV(deps=frozenset([('field', 'self.' + p)])))
        for p in init.kwonly:
            kw[p] = AV(deps=frozenset([('field', 'self.' + p)]))
        r, child, _ = self.construct(cls, pos, kw, [], None, None)
        o = r.obj
        o.mutable = True
        o.origin = 'self'
        return o

    def doc_shape(self, fn, p):
        """documented shape of parameter p: 'p: Shape (..., N, D)' / ':param p: ... with shape (..., a, b)'"""
        import re
        key = (fn.qual, p)
        if key in self._doc_cache:
            return self._doc_cache[key]
        doc = fn.doc or ''
        res = None
        m = re.search(r'^[ \t]*(?::param\s+)?' + re.escape(p) + r'\s*:(.*?)(?=^[ \t]*(?::param|:return|:type|:raises|Returns|Raises|[A-Za-z_][A-Za-z_0-9]*\s*:)|\Z)', doc, re.S | re.M)
        if m:
            block = m.group(1)
            shapes = []
            for sm in re.finditer(r'[Ss]hape[s]?:?\s*(\([^()]*\))', block):
                sp = parse_shape_text(sm.group(1))
                if sp is not None:
                    shapes.append(sp)
            if not shapes:
                sm = re.match(r'\s*(\([^()]*\))\s*$', block.strip().split('\n')[0]) if block.strip() else None
                if sm:
                    sp = parse_shape_text(sm.group(1))
                    if sp is not None:
                        shapes.append(sp)
            ambiguous = re.search(r'\)\s*(?:or|/)\s*\(', block) is not None
            if shapes and all(s_ == shapes[0] for s_ in shapes) and not ambiguous:
                res = Shape.from_text(shapes[0])
        self._doc_cache[key] = res
        return res

    def annotated(self, fn, p, v):
        """use a parameter annotation naming a repo class: the value is an instance of it or of a subclass"""
        ann = fn.annotations.get(p)
        if ann is None or v.obj is not None:
            return v
        import ast as _ast
        txt = _ast.unparse(ann)
        if txt.startswith('Optional[') and txt.endswith(']'):
            txt = txt[len('Optional['):-1]
        prim = {'int': 'scalar', 'float': 'scalar', 'bool': 'bool', 'str': 'str', 'tuple': 'tuple', 'complex': 'scalar'}.get(txt)
        if prim is not None:
            if v.kind is TOP and v.const is TOP:
                ks = {prim} | ({'none'} if p in fn.defaults else set())
                return v.replace(kind=frozenset(ks), alias=frozenset())
            return v
        r = self.prog.resolve_expr_static(fn.mod, ann)
        if not isinstance(r, Cls):
            return v
        classes = [r] + self.prog.subclasses(r)
        key = ('annot', r.qual)
        objs = self._annot_cache.get(key)
        if objs is None:
            objs = self._annot_cache[key] = [self.model_obj(c, p) if c.is_dataclass else self.init_obj(c) for c in classes]
        o = Obj(classes, {}, origin=p)
        out = None
        for ob in objs:
            out = join(out, AV(kind=frozenset(['obj']), obj=ob))
        kind = frozenset(['obj', 'none']) if p in fn.defaults else frozenset(['obj'])
        return AV(kind=kind, obj=out.obj, deps=v.deps, alias=v.alias)

    def plain_obj(self, cls, prefix='self'):
        return Obj([cls], {}, mutable=True, origin=prefix)

    def entry(self, fn, overrides=None, self_obj=None):
        """analyse `fn` as a public entry point; params get their own origins unless overridden"""
        bind = {}
        g = self.graphs.get(fn)
        for p in fn.params:
            if g.self_name == p:
                if fn.is_classmethod:
                    bind[p] = AV(kind=frozenset(['cls']), fns=frozenset([fn.cls]))
                else:
                    if self_obj is not None:
                        o = self_obj
                    elif fn.cls.is_dataclass:
                        o = self.model_obj(fn.cls, mutable=True)
                    else:
                        o = self.init_obj(fn.cls)
                    bind[p] = AV(kind=frozenset(['obj']), obj=o, deps=frozenset([('param', p)]))
            else:
                v = self.annotated(fn, p, self.param_av(fn, p))
                if v.shape is None and v.obj is None:
                    ds = self.doc_shape(fn, p)
                    if ds is not None:
                        v = v.replace(shape=ds)
                bind[p] = v
        if fn.vararg:
            bind['*' + fn.vararg] = self.param_av(fn, '*' + fn.vararg, kind=frozenset(['tuple']))
        if fn.kwarg:
            bind['**' + fn.kwarg] = self.param_av(fn, '**' + fn.kwarg, kind=frozenset(['dict']))
        for k, v in (overrides or {}).items():
            bind[k] = v
        return self.run(fn, bind, None, None, None)

    def run(self, fn, bind, parent, closure, call_term):
        key = (fn.qual, tuple(sorted((k, v.key()) for k, v in bind.items())), id(closure[1]) if closure else None)
        ctx = self.ctx_memo.get(key)
        if ctx is not None:
            if parent is not None and ctx not in parent.children:
                parent.children.append(ctx)
            return ctx
        free = set(closure[0]) if closure else None
        if fn.outer is not None:
            g = FuncGraph(self.prog, fn, closure_env={k: T('free', (k,), fn.node, fn) for k in (free or ()) if isinstance(k, str)})
        else:
            g = self.graphs.get(fn)
        ctx = Ctx(self, fn, g, bind, parent, closure, call_term)
        self.ctx_memo[key] = ctx
        if parent is not None:
            parent.children.append(ctx)
        if ctx.depth > MAX_DEPTH:
            ctx.result = UNKNOWN
            ctx.done = True
            return ctx
        ctx.running = True
        # run events in order (this triggers the evaluation of callees and records facts)
        for e in g.events:
            if not self.feasible(e, ctx):
                continue
            ctx.feasible_events.append(e)
            self.run_event(e, ctx)
        ctx.result = self.eval(g.ret, ctx)
        ctx.running = False
        ctx.done = True
        return ctx

    def feasible(self, e, ctx):
        for cond, pol in e.guards:
            c = self.truth(self.eval(cond, ctx))
            if c is not None and c != pol:
                return False
        return True

    def run_event(self, e, ctx):
        if e.kind in ('call', 'return', 'assert', 'yield'):
            if e.term is not None:
                self.eval(e.term, ctx)
        elif e.kind in ('inplace', 'store'):
            v = self.eval(e.term, ctx)
            tgt = e.data.get('target')
            tv = self.eval(tgt, ctx) if isinstance(tgt, T) else UNKNOWN
            ctx.effects.append((e, tv, v))
        elif e.kind == 'setattr':
            v = self.eval(e.term, ctx)
            b = self.eval(e.data['base'], ctx)
            ctx.setattrs.append((e, b, v))
            if b.obj is not None and b.obj.mutable:
                old = b.obj.fields.get(e.data['attr'])
                weak = any(True for _ in e.guards) or bool(e.loops)
                b.obj.fields[e.data['attr']] = join(old, v) if (weak and old is not None) else v
        elif e.kind == 'raise':
            if e.term is not None:
                self.eval(e.term, ctx)

    # ------------------------------------------------------------------ memo
    def _memo_get(self, ctx, tid):
        k = (ctx.id, tid)
        for m in reversed(self.temp_memos):
            if k in m:
                return m[k]
        return ctx.memo.get(tid)

    def _memo_put(self, ctx, tid, v):
        if self.temp_memos:
            self.temp_memos[-1][(ctx.id, tid)] = v
        else:
            ctx.memo[tid] = v

    # ------------------------------------------------------------------ evaluation
    def truth(self, v):
        """definite truth value of an abstract value or None"""
        if v.const is not TOP and len(v.const) >= 1:
            ts = {bool(c) for c in v.const}
            if len(ts) == 1:
                return ts.pop()
            return None
        if v.obj is not None and v.kind is not TOP and v.kind <= {'obj'}:
            return True
        if v.fns and v.kind is not TOP and v.kind <= {'func', 'cls'}:
            return True
        return None

    def eval(self, t, ctx):
        if not isinstance(t, T):
            return cav(t)
        got = self._memo_get(ctx, t.id)
        if got is not None:
            return got
        m = getattr(self, 'ev_' + t.op, None)
        if m is None:
            v = UNKNOWN
        else:
            v = m(t, ctx)
        if t.op not in ('gamma', 'mu', 'param', 'free', 'const', 'enter'):
            if v.term is None or v.vid is None:
                v = v.replace(term=v.term if v.term is not None else t, vid=v.vid if v.vid is not None else (ctx.id, t.id))
        sd = ctx.graph.shape_decl.get(t.id) if hasattr(ctx.graph, 'shape_decl') else None
        if sd is not None and v.shape is None and not is_bot(v):
            v = v.replace(shape=sd)
        self._memo_put(ctx, t.id, v)
        return v

    def ev_const(self, t, ctx):
        return cav(t.args[0], t)

    def ev_param(self, t, ctx):
        v = ctx.bind.get(t.args[0])
        return v if v is not None else UNKNOWN

    def ev_free(self, t, ctx):
        if ctx.closure is not None:
            env, octx = ctx.closure
            tt = env.get(t.args[0])
            if tt is not None:
                return self.eval(tt, octx)
        return UNKNOWN

    def ev_ref(self, t, ctx):
        o = t.args[0]
        if isinstance(o, Func):
            if t.extra and t.extra[0] == 'via-class' and not o.is_static:
                if o.is_classmethod:
                    return AV(kind=frozenset(['func']), fns=[('bound', o, AV(kind=frozenset(['cls']), fns=[t.extra[1]]))])
                return AV(kind=frozenset(['func']), fns=[('unbound', o)])
            return AV(kind=frozenset(['func']), fns=[o])
        if isinstance(o, Cls):
            return AV(kind=frozenset(['cls']), fns=[o])
        if isinstance(o, Lib):
            c = LIB_CONSTS.get(o.dotted, TOP)
            if c is not TOP:
                return cav(c, t).replace(fns=frozenset([o]))
            return AV(kind=frozenset(['lib']), fns=[o])
        if isinstance(o, Mod):
            return AV(kind=frozenset(['module']), fns=[o])
        if isinstance(o, tuple) and o[0] == 'builtin':
            if o[1] == 'Ellipsis':
                return cav(Ellipsis, t)
            return AV(kind=frozenset(['func']), fns=[o])
        if isinstance(o, tuple) and o[0] == 'global':
            _, mod, name = o
            node = mod.globals_assigned.get(name)
            try:
                import ast as _ast
                return cav(_ast.literal_eval(node), t).replace(deps=frozenset([('global', mod.name, name)]), alias=frozenset([('global', mod.name, name)]))
            except Exception:
                v = self.eval_static_expr(mod, node)
                return v.replace(deps=v.deps | frozenset([('global', mod.name, name)]), alias=v.alias | frozenset([('global', mod.name, name)]), term=None, vid=None)
        return UNKNOWN

    def ev_unknown(self, t, ctx):
        if t.args == ('keyerror',):
            return BOT          # the missing entry of a literal dispatch table: a KeyError, the path does not continue
        return UNKNOWN

    def ev_nondet(self, t, ctx):
        return UNKNOWN

    ev_caught = ev_nondet

    def ev_exc(self, t, ctx):
        return AV(kind=frozenset(['exc']))

    def ev_undef(self, t, ctx):
        return BOT

    def ev_raise(self, t, ctx):
        return BOT

    def ev_fall(self, t, ctx):
        return cav(None)

    def ev_enter(self, t, ctx):
        return self.eval(t.args[0], ctx)

    def ev_closure(self, t, ctx):
        self._closure_terms[(t.id, ctx.id)] = (t, ctx)
        return AV(kind=frozenset(['func']), fns=[('closure', t.args[0], t.id, ctx.id)], term=t)

    def ev_refine(self, t, ctx):
        old, how, ty = t.args
        v = self.eval(old, ctx)
        if how == 'isnone':
            return cav(None).replace(deps=v.deps)
        if how == 'notnone':
            if v.const is not TOP and None in v.const:
                c = v.const - {None}
                return v.replace(const=c if c else TOP, kind=(v.kind - {'none'}) if v.kind is not TOP else TOP)
            if v.kind is not TOP and 'none' in v.kind:
                return v.replace(kind=v.kind - {'none'})
            return v
        tv = self.eval(ty, ctx)
        types = []
        if tv.tup is not None:
            for e in tv.tup:
                types.extend(e.fns)
        else:
            types.extend(tv.fns)
        if how == 'isinstance':
            classes = [c for c in types if isinstance(c, Cls)]
            if classes and len(classes) == len(types):
                if v.obj is not None:
                    keep = [c for c in v.obj.classes if any(k in self.prog.mro(c) for k in classes)]
                    if keep:
                        if set(keep) == set(v.obj.classes):
                            return v.replace(kind=frozenset(['obj']))
                        return v.replace(kind=frozenset(['obj']), obj=Obj(keep, v.obj.fields, v.obj.mutable, v.obj.origin))
                origin = next((d[1] for d in v.deps if d[0] == 'param'), 'value')
                objs = [AV(kind=frozenset(['obj']), obj=self.model_obj(c, origin), deps=v.deps, alias=v.alias) for c in classes]
                r = join_all(objs)
                return r.replace(vid=v.vid, term=v.term)
            if types and all(isinstance(c, Lib) and c.dotted == 'numpy.ndarray' for c in types):
                return v.replace(kind=frozenset(['array']), const=TOP, obj=None)
            kmap = {'int': 'scalar', 'float': 'scalar', 'str': 'str', 'tuple': 'tuple', 'list': 'list', 'dict': 'dict'}
            ks = [kmap.get(c[1]) for c in types if isinstance(c, tuple) and c[0] == 'builtin']
            if ks and len(ks) == len(types) and all(ks):
                if v.const is not TOP and v.const:
                    py = {'int': int, 'float': float, 'str': str, 'tuple': tuple, 'list': list, 'dict': dict}
                    tys = tuple(py[c[1]] for c in types)
                    c2 = frozenset(c for c in v.const if isinstance(c, tys) and not (isinstance(c, bool) and int in tys and bool not in tys))
                    if c2:
                        return v.replace(const=c2, kind=frozenset(ks))
                return v.replace(kind=frozenset(ks), obj=None)
            return v
        if how == 'notinstance':
            kmap = {'int': 'scalar', 'float': 'scalar', 'str': 'str', 'tuple': 'tuple', 'list': 'list', 'dict': 'dict'}
            if v.const is not TOP and v.const and types and all(isinstance(c, tuple) and c[0] == 'builtin' and c[1] in kmap for c in types):
                py = {'int': int, 'float': float, 'str': str, 'tuple': tuple, 'list': list, 'dict': dict}
                tys = tuple(py[c[1]] for c in types)
                c2 = frozenset(c for c in v.const if not isinstance(c, tys))
                if c2:
                    return v.replace(const=c2)
            return v
        return v

    def ev_gamma(self, t, ctx):
        c, a, b = t.args
        cv = self.truth(self.eval(c, ctx))
        if cv is True:
            return self.eval(a, ctx)
        if cv is False:
            return self.eval(b, ctx)
        va, vb = self.eval(a, ctx), self.eval(b, ctx)
        r = join(va, vb)
        # refine: `x if x is not None else default` patterns are handled by join's none rule
        return r

    def ev_mu(self, t, ctx):
        key = (ctx.id, t.id)
        if key in self.mu_approx:
            return self.mu_approx[key]
        init = self.eval(t.args[0], ctx)
        if t.next is None:
            return init
        approx = init
        final = None
        for rnd in range(4):
            self.mu_approx[key] = approx
            self.temp_memos.append({})
            try:
                nxt = self.eval(t.next, ctx)
            finally:
                tm = self.temp_memos.pop()
            new = join(approx, nxt)
            if nxt.meta == ('covered-store',):
                # a buffer whose every block is overwritten in the loop (coverage folded): after the loop it holds what the iterations stored, not what it held before
                new = nxt
            if new.key() == approx.key():
                final = new
                # values computed in the stable round are valid: keep them
                for (cid, tid), v in tm.items():
                    if self.temp_memos:
                        self.temp_memos[-1].setdefault((cid, tid), v)
                    else:
                        c2 = self._ctx_by_id.get(cid) if hasattr(self, '_ctx_by_id') else None
                        if cid == ctx.id:
                            ctx.memo.setdefault(tid, v)
                break
            approx = new
        else:
            final = widen(approx)
        del self.mu_approx[key]
        return final

    def ev_elem(self, t, ctx):
        it = self.eval(t.args[0], ctx)
        return self.elem_of(it)

    def elem_of(self, it):
        if it.tup is not None and it.tup:
            return join_all(it.tup).replace(const=TOP if any(x.const is TOP for x in it.tup) else join_all(it.tup).const)
        if it.const is not TOP and all(isinstance(c, (tuple, str, range)) for c in it.const) and it.const:
            vals = [x for c in it.const for x in c]
            if 0 < len(vals) <= MAX_CONST:
                return join_all([cav(x) for x in vals]).replace(deps=it.deps)
        if it.meta is not None and isinstance(it.meta, tuple) and it.meta and it.meta[0] == 'range':
            return AV(kind=frozenset(['scalar']), sign='NONNEG', deps=it.deps)
        return AV(deps=it.deps, alias=it.alias, shape=drop_leading(it.shape))

    def ev_unpack(self, t, ctx):
        v, i, n, star = t.args[:4]
        val = self.eval(v, ctx)
        if val.tup is not None:
            k = len(val.tup)
            if star is None:
                if k == n:
                    return val.tup[i]
            else:
                if k >= n - 1:
                    if i < star:
                        return val.tup[i]
                    if i > star:
                        return val.tup[k - (n - i)]
                    sub = val.tup[star:k - (n - 1 - star)]
                    return AV(kind=frozenset(['list']), tup=tuple(sub), deps=frozenset().union(*[x.deps for x in sub]) if sub else frozenset())
        if val.const is not TOP and val.const and all(isinstance(c, (tuple, str)) for c in val.const):
            outs = []
            for c in val.const:
                k = len(c)
                try:
                    if star is None:
                        if k != n:
                            continue
                        outs.append(cav(c[i]))
                    elif i < star:
                        outs.append(cav(c[i]))
                    elif i > star:
                        outs.append(cav(c[k - (n - i)]))
                    else:
                        outs.append(cav(tuple(c[star:k - (n - 1 - star)])))
                except Exception:
                    return AV(deps=val.deps)
            if outs:
                return join_all(outs).replace(deps=val.deps)
        # shape unpacking: `*independent, D, N = y.shape` -> dims named by the targets
        if val.meta is not None and isinstance(val.meta, tuple) and val.meta and val.meta[0] == 'shape_of':
            name = t.args[4] if len(t.args) > 4 else None
            if star is not None and i == star:
                return AV(kind=frozenset(['list']), meta=('dims', True, ()), term=t)
            return AV(kind=frozenset(['scalar']), sign='POS', meta=('dim', frozenset([name] if name else [])), term=t)
        return AV(deps=val.deps, alias=val.alias if (val.kind is TOP or 'array' in val.kind) else frozenset())

    def ev_star(self, t, ctx):
        v = self.eval(t.args[0], ctx)
        return v.replace(kind=frozenset(['star']))

    def seq(self, t, ctx, kind):
        elts = t.args[0]
        vals = []
        exact = True
        for e in elts:
            if isinstance(e, T) and e.op == 'star':
                inner = self.eval(e.args[0], ctx)
                if inner.tup is not None:
                    vals.extend(inner.tup)
                elif inner.const is not TOP and len(inner.const) == 1 and isinstance(next(iter(inner.const)), (tuple, str)):
                    vals.extend(cav(x) for x in next(iter(inner.const)))
                else:
                    exact = False
                    vals.append(inner.replace(kind=frozenset(['star'])))
            else:
                vals.append(self.eval(e, ctx))
        deps = frozenset().union(*[v.deps for v in vals]) if vals else frozenset()
        alias = frozenset().union(*[v.alias for v in vals]) if vals else frozenset()
        c = TOP
        if exact and all(v.is_const for v in vals):
            try:
                c = frozenset([tuple(v.cval for v in vals)])
                hash(next(iter(c)))
            except TypeError:
                c = TOP
        return AV(const=c if kind == 'tuple' or c is TOP else c, kind=frozenset([kind]), tup=tuple(vals) if exact else None, deps=deps, alias=alias,
                  meta=None if exact else ('seq_with_star', tuple(vals)))

    def ev_tuple(self, t, ctx):
        return self.seq(t, ctx, 'tuple')

    def ev_list(self, t, ctx):
        return self.seq(t, ctx, 'list')

    def ev_set(self, t, ctx):
        v = self.seq(t, ctx, 'set')
        return v.replace(tup=None)

    def ev_dict(self, t, ctx):
        ks, vs = t.args
        kv = [self.eval(k, ctx) for k in ks]
        vv = [self.eval(v, ctx) for v in vs]
        deps = frozenset().union(*[v.deps for v in vv]) if vv else frozenset()
        c = TOP
        if all(k.is_const for k in kv) and all(v.is_const for v in vv):
            try:
                c = frozenset([tuple(sorted(((k.cval, v.cval) for k, v in zip(kv, vv)), key=repr))])
            except Exception:
                c = TOP
        return AV(kind=frozenset(['dict']), deps=deps, const=TOP, alias=frozenset().union(*[v.alias for v in vv]) if vv else frozenset(),
                  tup=None, term=t)

    def ev_fstr(self, t, ctx):
        vs = [self.eval(x, ctx) for x in t.args[0]]
        return AV(kind=frozenset(['str']), deps=frozenset().union(*[v.deps for v in vs]) if vs else frozenset())

    def ev_slice(self, t, ctx):
        vs = [self.eval(x, ctx) for x in t.args]
        c = TOP
        if all(v.is_const for v in vs):
            c = frozenset([('slice',) + tuple(v.cval for v in vs)])
        return AV(const=c, kind=frozenset(['slice']), deps=frozenset().union(*[v.deps for v in vs]))

    def ev_comp(self, t, ctx):
        kind, vals, iters, conds = t.args
        for it in iters:
            self.eval(it, ctx)
        vs = [self.eval(v, ctx) for v in vals]
        its = [self.eval(it, ctx) for it in iters]
        deps = frozenset().union(*[v.deps for v in vs + its]) if vs else frozenset()
        alias = frozenset().union(*[v.alias for v in vs]) if vs else frozenset()
        c = TOP
        # constant folding of simple comprehensions over constant iterables is done by the rules that need it
        return AV(kind=frozenset(['list' if kind in ('list', 'gen') else kind]), deps=deps, alias=alias, const=c)

    def ev_bool(self, t, ctx):
        opn, parts = t.args
        vals = [self.eval(p, ctx) for p in parts]
        ts = [self.truth(v) for v in vals]
        deps = frozenset().union(*[v.deps for v in vals])
        if opn == 'And':
            if any(x is False for x in ts):
                return cav(False).replace(deps=deps)
            if all(x is True for x in ts):
                return vals[-1].replace(deps=deps) if vals[-1].const is not TOP else cav(True).replace(deps=deps)
        else:
            if any(x is True for x in ts):
                for v, x in zip(vals, ts):
                    if x is True:
                        return v.replace(deps=deps)
                    if x is None:
                        break
                return AV(deps=deps, kind=TOP)
            if all(x is False for x in ts):
                return vals[-1].replace(deps=deps)
        return AV(deps=deps)

    def ev_unop(self, t, ctx):
        opn, x = t.args
        v = self.eval(x, ctx)
        if opn == 'Not':
            tv = self.truth(v)
            if tv is not None:
                return cav(not tv).replace(deps=v.deps)
            m = v.meta
            if m is not None and isinstance(m, tuple) and m and m[0] == 'cmp0':
                # not (x == 0), elementwise: keep which value is compared with zero (np.where(x != 0, x, eps))
                return AV(deps=v.deps, shape=v.shape, dtype='bool', meta=('not_cmp0', m[1]))
            return AV(kind=frozenset(['bool']), deps=v.deps)
        if v.const is not TOP and v.const:
            try:
                import operator
                f = {'USub': operator.neg, 'UAdd': operator.pos, 'Invert': operator.invert}[opn]
                return join_all([cav(f(c)) for c in v.const]).replace(deps=v.deps)
            except Exception:
                pass
        sign = None
        if opn == 'USub' and v.sign in ('NONZERO',):
            sign = 'NONZERO'
        if opn == 'UAdd':
            sign = v.sign
        return AV(kind=v.kind, deps=v.deps, shape=v.shape, sign=sign, dtype=v.dtype)

    def ev_cmp(self, t, ctx):
        opn, l, r = t.args
        a, b = self.eval(l, ctx), self.eval(r, ctx)
        deps = a.deps | b.deps
        res = self.compare(opn, a, b)
        if res is not None:
            return cav(res).replace(deps=deps)
        meta = None
        if opn == 'Eq' and b.is_const and b.cval == 0 and not isinstance(b.cval, bool) and a.vid is not None:
            meta = ('cmp0', a.vid)
        return AV(deps=deps, shape=broadcast_shape(a.shape, b.shape) if (a.shape is not None and b.shape is not None) else None, dtype='bool', meta=meta)

    def compare(self, opn, a, b):
        import operator
        if opn in ('Is', 'IsNot'):
            an = none_state(a)
            bn = none_state(b)
            if bn is True and an is not None:
                return an if opn == 'Is' else not an
            if an is True and bn is not None:
                return bn if opn == 'Is' else not bn
            if a.is_const and b.is_const and isinstance(a.cval, (bool, type(None))) and isinstance(b.cval, (bool, type(None))):
                r = a.cval is b.cval
                return r if opn == 'Is' else not r
            if b.is_const and isinstance(b.cval, bool) and a.const is not TOP and a.const:
                rs = {(c is b.cval) for c in a.const}
                if len(rs) == 1:
                    r = rs.pop()
                    return r if opn == 'Is' else not r
            if b.is_const and isinstance(b.cval, bool) and a.kind is not TOP and not (a.kind & {'bool'}) and a.const is TOP and a.kind <= {'str', 'array', 'obj', 'none', 'tuple', 'list', 'dict', 'scalar'}:
                return False if opn == 'Is' else True
            return None
        if a.const is TOP or b.const is TOP or not a.const or not b.const:
            if opn in ('In', 'NotIn') and a.const is not TOP and a.const and b.tup is not None and all(x.is_const for x in b.tup):
                items = [x.cval for x in b.tup]
                rs = {(c in items) for c in a.const}
                if len(rs) == 1:
                    r = rs.pop()
                    return r if opn == 'In' else not r
            return None
        ops = {'Eq': operator.eq, 'NotEq': operator.ne, 'Lt': operator.lt, 'LtE': operator.le, 'Gt': operator.gt, 'GtE': operator.ge,
               'In': lambda x, y: x in y, 'NotIn': lambda x, y: x not in y}
        f = ops.get(opn)
        if f is None:
            return None
        rs = set()
        for x in a.const:
            for y in b.const:
                try:
                    rs.add(bool(f(x, y)))
                except Exception:
                    return None
        if len(rs) == 1:
            return rs.pop()
        return None

    def ev_binop(self, t, ctx):
        from . import nptable
        opn, l, r = t.args
        a, b = self.eval(l, ctx), self.eval(r, ctx)
        return nptable.binop(self, t, opn, a, b, inplace=False, ctx=ctx)

    def ev_iop(self, t, ctx):
        from . import nptable
        opn, l, r = t.args
        a, b = self.eval(l, ctx), self.eval(r, ctx)
        return nptable.binop(self, t, opn, a, b, inplace=True, ctx=ctx)

    def ev_store(self, t, ctx):
        base, idx, val = t.args
        b = self.eval(base, ctx)
        v = self.eval(val, ctx)
        self.eval(idx, ctx)
        norm, meta = None, None
        tracked_ = b.norm is not None or v.norm is not None
        cov = getattr(t, 'extra', None)
        if isinstance(cov, tuple) and cov and cov[0] == 'covers' and isinstance(v.norm, tuple) and isinstance(v.norm[1], int) and v.norm[1] < 0 and cov[1] != v.norm[1] \
                and (cov[1] < 0 or v.norm[1] == -1):
            # the pieces of np.array_split(x, n, axis=a), each normalised in place along another axis: together they are x
            norm, meta = v.norm, ('covered-store',)
        elif isinstance(v.norm, tuple) and isinstance(v.norm[1], int) and v.norm[1] < 0:
            # blocks of an own buffer overwritten with unit-norm values, block by block along ANOTHER axis than the unit-norm one: the buffer is of unit norm afterwards when
            # the blocks cover the whole axis (folded like R-COVER); otherwise some entries keep what was there - the typestate is lost (undecided at a sink), not RAW
            items = list(idx.args[0]) if idx.op == 'tuple' else [idx]
            ok_shape = len(items) >= 2 and items[0].op == 'const' and items[0].args[0] is Ellipsis and all(x.op == 'slice' for x in items[1:]) and -v.norm[1] <= len(items) - 1
            if ok_shape:
                unit_item = items[len(items) + v.norm[1]]
                full = all(y.op == 'const' and y.args[0] is None for y in unit_item.args)
                blocks = [x for x in items[1:] if not all(y.op == 'const' and y.args[0] is None for y in x.args)]
                if full and len(blocks) == 1:
                    from .opt import block_partition_verdict
                    from .terms import walk_terms as _wt
                    loops = [y for z in blocks[0].args if isinstance(z, T) for y in _wt(z, into_mu=False) if y.op == 'elem' and y.args and isinstance(y.args[0], T)]
                    its = []
                    for y in loops:
                        if not any(y.args[0] is i_ for i_ in its):
                            its.append(y.args[0])
                    if len(its) == 1:
                        verdict = block_partition_verdict(its[0], blocks[0])
                        if verdict is not None and verdict[0] == 'full':
                            norm, meta = v.norm, ('covered-store',)
                elif full and not blocks and isinstance(b.norm, tuple) and b.norm == v.norm:
                    norm = v.norm
            if norm is None and isinstance(b.norm, tuple) and b.norm == v.norm:
                norm = v.norm
        deps = b.deps | v.deps
        if meta == ('covered-store',):
            deps = v.deps | frozenset(d for d in b.deps if d[0] != 'scale')          # nothing of the old content is left
        if norm is None and tracked_:
            norm = 'RAW' if (b.norm == 'RAW' and v.norm == 'RAW') else 'LOST'
            if norm == 'LOST':
                deps = deps | frozenset([('scale-lost', 'partly overwritten buffer')])
        return AV(kind=b.kind, deps=deps, alias=b.alias, shape=b.shape, tup=None, dtype=b.dtype, obj=b.obj, norm=norm, meta=meta)

    def ev_sub(self, t, ctx):
        from . import nptable
        base, idx = t.args
        b = self.eval(base, ctx)
        i = self.eval(idx, ctx)
        return nptable.subscript(self, t, b, i, ctx)

    def ev_attr(self, t, ctx):
        from . import nptable
        base, name = t.args
        b = self.eval(base, ctx)
        return self.getattr(b, name, t, ctx)

    def getattr(self, b, name, t, ctx):
        from . import nptable
        outs = []
        if b.obj is not None:
            o = b.obj
            if name in o.fields and not o.variants:
                outs.append(o.fields[name])
            else:
                found = False
                for c in sorted(o.classes, key=lambda c: c.qual):
                    ov = o.variant(c)
                    bv = b if ov is o else AV(kind=frozenset(['obj']), obj=ov, deps=b.deps, alias=b.alias)
                    if name in ov.fields:
                        found = True
                        outs.append(ov.fields[name])
                        continue
                    f = self.prog.method(c, name)
                    if f is not None:
                        found = True
                        if f.is_property:
                            r = self.call_repo(f, [bv], {}, ctx, t)
                            outs.append(r)
                        elif f.is_static:
                            outs.append(AV(kind=frozenset(['func']), fns=[f]))
                        elif f.is_classmethod:
                            outs.append(AV(kind=frozenset(['func']), fns=[('bound', f, AV(kind=frozenset(['cls']), fns=[c]))]))
                        else:
                            outs.append(AV(kind=frozenset(['func']), fns=[('bound', f, bv)]))
                    elif name in self.prog.all_fields(c):
                        found = True
                        outs.append(AV(deps=frozenset([('field', f'{o.origin}.{name}')]), alias=frozenset([('field', f'{o.origin}.{name}')])))
                    elif name in ('__class__',):
                        found = True
                        outs.append(AV(kind=frozenset(['cls']), fns=[c]))
                if not found:
                    outs.append(AV(deps=frozenset([('field', f'{o.origin}.{name}')]) | b.deps, alias=frozenset([('field', f'{o.origin}.{name}')])))
            if b.kind is not TOP and b.kind <= {'obj', 'none'}:
                return join_all(outs)
        if b.fns:
            for f in b.fns:
                if isinstance(f, Cls):
                    m = self.prog.method(f, name)
                    if m is not None:
                        if m.is_classmethod:
                            outs.append(AV(kind=frozenset(['func']), fns=[('bound', m, AV(kind=frozenset(['cls']), fns=[f]))]))
                        elif m.is_static:
                            outs.append(AV(kind=frozenset(['func']), fns=[m]))
                        else:
                            outs.append(AV(kind=frozenset(['func']), fns=[('unbound', m)]))
                    elif name == '__name__':
                        outs.append(cav(f.name))
                    elif name in f.class_attrs:
                        outs.append(AV(deps=frozenset([('classattr', f.qual, name)])))
                elif isinstance(f, (Lib, Mod)):
                    r = self.prog.getattr_static(f, name)
                    if r is not None:
                        outs.append(self.ev_ref(T('ref', (r,), t.node if t is not None else None), ctx))
            if outs and b.kind is not TOP and b.kind <= {'cls', 'lib', 'module', 'func'}:
                return join_all(outs)
        if b.const is not TOP and b.const and all(isinstance(c, str) for c in b.const):
            return AV(kind=frozenset(['func']), fns=[('strmethod', name, b)])
        # array-like / unknown receiver
        r = nptable.array_attr(self, b, name, t, ctx)
        outs.append(r)
        return join_all(outs)

    # ------------------------------------------------------------------ calls
    def ev_call(self, t, ctx):
        from . import nptable
        f, args, kws = t.args
        fv = self.eval(f, ctx)
        pos = []
        star_unknown = False
        for a in args:
            if isinstance(a, T) and a.op == 'star':
                inner = self.eval(a.args[0], ctx)
                if inner.tup is not None:
                    pos.extend(inner.tup)
                elif inner.is_const and isinstance(inner.cval, (tuple, str)):
                    pos.extend(cav(x) for x in inner.cval)
                else:
                    star_unknown = True
                    pos.append(inner.replace(kind=frozenset(['star'])))
            else:
                pos.append(self.eval(a, ctx))
        kw = {}
        dstar = []
        for k, v in kws:
            if k is None:
                dstar.append(self.eval(v, ctx))
            else:
                kw[k] = self.eval(v, ctx)
        self.stats['calls_total'] += 1
        outs = []
        facts_event = getattr(t, '_event', None)
        callees = sorted(fv.fns, key=_fkey)
        if not callees:
            self.stats['calls_unresolved'] += 1
            self.stats['unresolved_sites'].add((ctx.fn.qual, getattr(t.node, 'lineno', 0), show(f, 3)))
            r = unknown_result(pos, kw, dstar)
            ctx.callfacts.append(CallFact(None, t, ('unresolved', show(f, 3)), {}, r, ctx, posargs=pos, kwargs=kw))
            return r
        resolved_repo = False
        for c in callees:
            r, child, argmap = self.call_one(c, pos, kw, dstar, star_unknown, ctx, t)
            if isinstance(c, (Func, Cls)) or (isinstance(c, tuple) and c[0] in ('bound', 'unbound', 'closure')):
                resolved_repo = True
            ctx.callfacts.append(CallFact(None, t, c, argmap, r, ctx, child, posargs=pos, kwargs=kw))
            outs.append(r)
        if resolved_repo:
            self.stats['calls_repo_resolved'] += 1
        else:
            self.stats['calls_lib'] += 1
        return join_all(outs)

    def call_one(self, c, pos, kw, dstar, star_unknown, ctx, t):
        from . import nptable
        if isinstance(c, Func):
            r, child, am = self.call_repo_full(c, pos, kw, dstar, ctx, t)
            return r, child, am
        if isinstance(c, Cls):
            return self.construct(c, pos, kw, dstar, ctx, t)
        if isinstance(c, Lib):
            self.overwrite_effects(c.dotted, pos, kw, ctx, t)
            return nptable.call_lib(self, c.dotted, pos, kw, ctx, t), None, {}
        if isinstance(c, tuple):
            if c[0] == 'bound':
                return self.call_repo_full(c[1], [c[2]] + list(pos), kw, dstar, ctx, t)
            if c[0] == 'unbound':
                return self.call_repo_full(c[1], list(pos), kw, dstar, ctx, t)
            if c[0] == 'closure':
                fn = c[1]
                reg = self._closure_terms.get((c[2], c[3]))
                closure = (reg[0].extra, reg[1]) if reg is not None else None
                return self.call_repo_full(fn, list(pos), kw, dstar, ctx, t, closure=closure)
            if c[0] == 'builtin':
                return nptable.call_builtin(self, c[1], pos, kw, ctx, t), None, {}
            if c[0] == 'strmethod':
                return nptable.call_strmethod(self, c[1], c[2], pos, kw, ctx, t), None, {}
            if c[0] == 'ndmethod':
                return nptable.call_ndmethod(self, c[1], c[2], pos, kw, ctx, t), None, {}
            if c[0] == 'libmethod':
                return nptable.call_lib(self, c[1], [c[2]] + list(pos), kw, ctx, t), None, {}
        return unknown_result(pos, kw, dstar), None, {}

    OVERWRITE_KW = {'overwrite_a': 0, 'overwrite_b': 1, 'overwrite_x': 0, 'overwrite_input': 0, 'overwrite_ab': 0, 'overwrite_data': 0}

    def overwrite_effects(self, name, pos, kw, ctx, t):
        """scipy / numpy `overwrite_*=True` options let the library destroy the argument: an in-place effect on it (also
        reported when the value is not a literal True: it may be)"""
        for k, idx in self.OVERWRITE_KW.items():
            v = kw.get(k)
            if v is None or self.truth(v) is False:
                continue
            if idx < len(pos):
                ctx.effects.append((('lib', f'{name}({k}=True)', t), pos[idx], UNKNOWN))

    def bind_args(self, fn, pos, kw, dstar, ctx):
        """map call arguments to parameters; unknown/default handled; returns dict or None"""
        bind = {}
        params = fn.posonly + fn.args
        pos = list(pos)
        i = 0
        extra = []
        for v in pos:
            if v.kind is not TOP and v.kind == frozenset(['star']):
                # unknown number of positional arguments: give up precise binding for the rest
                for p in params[i:]:
                    bind.setdefault(p, v.replace(kind=TOP, const=TOP, tup=None))
                i = len(params)
                continue
            if i < len(params):
                bind[params[i]] = v
                i += 1
            else:
                extra.append(v)
        if fn.vararg:
            bind['*' + fn.vararg] = AV(kind=frozenset(['tuple']), tup=tuple(extra), deps=frozenset().union(*[v.deps for v in extra]) if extra else frozenset())
        kwrest = {}
        for k, v in kw.items():
            if k in fn.params:
                bind[k] = v
            else:
                kwrest[k] = v
        if fn.kwarg:
            d = AV(kind=frozenset(['dict']), deps=frozenset().union(*[v.deps for v in kwrest.values()]) if kwrest else frozenset())
            d = d.replace(tup=None)
            d_obj = dict(kwrest)
            d._key = None
            bind['**' + fn.kwarg] = d
            self._kwdicts = getattr(self, '_kwdicts', {})
            self._kwdicts[id(d)] = d_obj
        for ds in dstar:
            # **kwargs forwarded: unknown keys may bind any remaining parameter
            known = getattr(self, '_kwdicts', {}).get(id(ds))
            if known is not None:
                for k, v in known.items():
                    if k in fn.params:
                        bind.setdefault(k, v)
            else:
                for p in fn.params:
                    if p not in bind and p in fn.defaults:
                        dv = self.default_av(fn, p, ctx)
                        bind[p] = join(dv, AV(deps=ds.deps))
        for p in fn.params:
            if p not in bind:
                if p in fn.defaults:
                    bind[p] = self.default_av(fn, p, ctx)
                else:
                    bind[p] = UNKNOWN
            elif p in fn.annotations and bind[p].obj is None and bind[p].kind is TOP and bind[p].const is TOP:
                bind[p] = self.annotated(fn, p, bind[p])
        return bind

    def default_av(self, fn, p, ctx):
        node = fn.defaults[p]
        import ast as _ast
        try:
            return cav(_ast.literal_eval(node))
        except Exception:
            pass
        # evaluate simple module-level expressions (np.inf, EPS, ...)
        return self.eval_static_expr(fn.mod, node, fn)

    def eval_static_expr(self, mod, node, fn=None):
        key = (mod.name, id(node))
        if key in self._static_cache:
            return self._static_cache[key]
        self._static_cache[key] = UNKNOWN
        try:
            pf = fn if fn is not None else _PseudoFn(mod)
            g = FuncGraph.__new__(FuncGraph)
            g.prog, g.fn = self.prog, pf
            g.events, g.loops, g.params, g.unknown_stmts = [], [], {}, []
            g._guards, g._loops, g._seq, g.closure_env, g.self_name, g.shape_decl = [], [], 0, {}, None, {}
            g.cur_fn, g._inline_stack, g.inlined, g._inline_exits = pf, [], [], []
            term = g.expr(node, {})
            dummy = Ctx(self, pf, g, {}, None)
            v = self.eval(term, dummy)
        except Exception:
            v = UNKNOWN
        self._static_cache[key] = v
        return v

    def call_repo(self, fn, pos, kw, ctx, t):
        return self.call_repo_full(fn, pos, kw, [], ctx, t)[0]

    def call_repo_full(self, fn, pos, kw, dstar, ctx, t, closure=None):
        bind = self.bind_args(fn, pos, kw, dstar, ctx)
        if ctx is not None and ctx.depth >= MAX_DEPTH:
            return unknown_result(pos, kw, dstar), None, bind
        # recursion guard
        c = ctx
        while c is not None:
            if c.fn is fn and c.running and c.depth + 1 >= 3:
                return unknown_result(pos, kw, dstar), None, bind
            c = c.parent
        child = self.run(fn, bind, ctx, closure, t)
        if not child.done:
            return unknown_result(pos, kw, dstar), child, bind
        if fn.decorators & MEMOISING_DECORATORS and 'cached_property' not in fn.decorators:
            # one result object is handed to every call with equal arguments: it is storage shared between calls, like a module-level object
            tag = frozenset([('global', fn.mod.name, f'<results memoised by {fn.qual.split("::")[-1]}>')])

            def shared(v):
                if not isinstance(v, AV):
                    return v
                return v.replace(alias=v.alias | tag, tup=tuple(shared(x) for x in v.tup) if v.tup is not None else None)
            return shared(child.result), child, bind
        return child.result, child, bind

    def construct(self, cls, pos, kw, dstar, ctx, t):
        init = self.prog.method(cls, '__init__')
        if cls.is_dataclass or any(c.is_dataclass for c in self.prog.mro(cls)):
            fields = {}
            allf = self.prog.all_fields(cls)
            names = [n for n, info in allf.items() if info.get('init', True)]
            for n, v in zip(names, pos):
                fields[n] = v
            for k, v in kw.items():
                fields[k] = v
            for n, info in allf.items():
                if n not in fields and info.get('init', True):
                    if info.get('default') is not None:
                        fields[n] = UNKNOWN
                    else:
                        fields[n] = UNKNOWN
            o = Obj([cls], fields, mutable=True, origin=f'new {cls.name}')
            self_av = AV(kind=frozenset(['obj']), obj=o, deps=frozenset().union(*[v.deps for v in fields.values()]) if fields else frozenset())
            post = self.prog.method(cls, '__post_init__')
            child = None
            if post is not None:
                _, child, _ = self.call_repo_full(post, [self_av], {}, [], ctx, t)
            o.mutable = False
            deps = frozenset().union(*[v.deps for v in o.fields.values()]) if o.fields else frozenset()
            return AV(kind=frozenset(['obj']), obj=o, deps=deps), child, fields
        o = Obj([cls], {}, mutable=True, origin=f'new {cls.name}')
        self_av = AV(kind=frozenset(['obj']), obj=o)
        child = None
        am = {}
        if init is not None:
            _, child, am = self.call_repo_full(init, [self_av] + list(pos), kw, dstar, ctx, t)
        o.mutable = False
        deps = frozenset().union(*[v.deps for v in o.fields.values()]) if o.fields else frozenset()
        return AV(kind=frozenset(['obj']), obj=o, deps=deps), child, am


LIB_CONSTS = {
    'numpy.inf': float('inf'), 'numpy.pi': 3.141592653589793, 'numpy.newaxis': None, 'math.pi': 3.141592653589793,
    'numpy.nan': None,
}
LIB_CONSTS.pop('numpy.nan')


def none_state(v):
    """True: definitely None; False: definitely not None; None: unknown"""
    if v.const is not TOP and v.const:
        if all(c is None for c in v.const):
            return True
        if all(c is not None for c in v.const):
            return False
        return None
    if v.kind is not TOP and v.kind:
        if v.kind <= {'none'}:
            return True
        if 'none' not in v.kind:
            return False
    return None


def widen(v):
    return AV(kind=v.kind, obj=v.obj, fns=v.fns, deps=v.deps, alias=v.alias, tup=None)


def unknown_result(pos, kw, dstar=()):
    vs = list(pos) + list(kw.values()) + list(dstar)
    deps = frozenset().union(*[v.deps for v in vs]) if vs else frozenset()
    alias = frozenset(('maybe',) + tuple(a) if a and a[0] != 'maybe' else a for v in vs for a in v.alias)
    return AV(deps=deps, alias=alias)


def is_shape_value(v):
    t = v.term
    return isinstance(t, T) and t.op == 'attr' and t.args[1] == 'shape'


def drop_leading(shape):
    if shape is None:
        return None
    if shape.ell:
        return shape
    if len(shape.dims) >= 1:
        return Shape(False, shape.dims[1:])
    return None


def broadcast_shape(a, b):
    if a is None or b is None:
        return None
    n = max(len(a.dims), len(b.dims))
    dims = []
    for i in range(1, n + 1):
        da = a.dims[-i] if i <= len(a.dims) else None
        db = b.dims[-i] if i <= len(b.dims) else None
        if da is None:
            dims.append(db if not a.ell else frozenset(db - {'1'}))
        elif db is None:
            dims.append(da if not b.ell else frozenset(da - {'1'}))
        elif '1' in da and '1' not in db:
            dims.append(db)
        elif '1' in db and '1' not in da:
            dims.append(da)
        else:
            dims.append(da | db)
    return Shape(a.ell or b.ell, tuple(reversed(dims)))
