"""Constructs the term graphs do not follow faithfully.

A rule reports a *recognised construct that deviates*.  When the function a report points at (or a helper introduced later that it calls) contains constructs
that the model does not follow - state threaded through a dict that is written by key, functions selected at run time and passed around as values, keyword
dictionaries that are not literal at the call site ... - and the reference version of that function did not contain them, "deviates" may only mean "not
followed": the obligation is then UNDECIDED (the check ends inconclusive, exit 2), not violated.  The scan is purely syntactic (ast), the reference counts are
frozen in pbv/opaque_reference.json (tools/gen_known_funcs.py).
"""
import ast
import collections
import json
import pathlib

_REF = None


def reference_counts():
    global _REF
    if _REF is None:
        p = pathlib.Path(__file__).parent / 'opaque_reference.json'
        _REF = json.loads(p.read_text()) if p.exists() else {}
    return _REF


def _literal_dict_names(fn_node):
    """local names bound to a dict display / dict(...) call with constant string keys"""
    out = set()
    for st in ast.walk(fn_node):
        if isinstance(st, ast.Assign) and len(st.targets) == 1 and isinstance(st.targets[0], ast.Name):
            v = st.value
            if isinstance(v, ast.Dict) and all(isinstance(k, ast.Constant) and isinstance(k.value, str) for k in v.keys):
                out.add(st.targets[0].id)
            elif isinstance(v, ast.Call) and isinstance(v.func, ast.Name) and v.func.id == 'dict' and not v.args and all(k.arg is not None for k in v.keywords):
                out.add(st.targets[0].id)
    return out


def opaque_constructs(fn_node):
    """Counter of construct kinds (see module docstring) in one function, nested functions included"""
    c = collections.Counter()
    dict_names = _literal_dict_names(fn_node)
    nested = {}
    for n in ast.walk(fn_node):
        if isinstance(n, (ast.FunctionDef, ast.AsyncFunctionDef)) and n is not fn_node:
            nested.setdefault(n.name, []).append(n)
    for name, defs in nested.items():
        if len(defs) > 1:
            c['function defined on alternative paths'] += 1
    called_directly = set()
    for n in ast.walk(fn_node):
        if isinstance(n, ast.Call) and isinstance(n.func, ast.Name):
            called_directly.add(id(n.func))
    for n in ast.walk(fn_node):
        if isinstance(n, ast.Name) and isinstance(n.ctx, ast.Load) and n.id in nested and id(n) not in called_directly:
            c['local function used as a value'] += 1
        elif isinstance(n, ast.Subscript) and isinstance(n.ctx, (ast.Store, ast.Del)) and isinstance(n.value, ast.Name) and \
                isinstance(n.slice, ast.Constant) and isinstance(n.slice.value, str):
            c['state kept in a dict that is written by key'] += 1
        elif isinstance(n, ast.Call):
            if isinstance(n.func, ast.Subscript):
                c['call of a function selected from a table'] += 1
            if isinstance(n.func, ast.Call) and not (isinstance(n.func.func, ast.Attribute) and n.func.func.attr in ('get',)):
                c['call of a function returned by a call'] += 1
            for k in n.keywords:
                if k.arg is None and not (isinstance(k.value, ast.Name) and k.value.id in dict_names) and not isinstance(k.value, ast.Dict):
                    c['keyword arguments that are not literal at the call'] += 1
            for a in n.args:
                if isinstance(a, ast.Starred) and not isinstance(a.value, (ast.Tuple, ast.List, ast.Name, ast.Attribute, ast.Subscript)):
                    c['positional arguments computed at the call'] += 1
            if isinstance(n.func, ast.Name) and n.func.id in ('map', 'filter', 'getattr', 'setattr', 'eval', 'exec', 'globals', 'locals', 'vars') and \
                    not (n.func.id == 'getattr' and len(n.args) >= 2 and isinstance(n.args[1], ast.Constant)):
                c[f'{n.func.id}()'] += 1
        elif isinstance(n, ast.ClassDef):
            c['local class'] += 1
        elif isinstance(n, ast.Assign) and isinstance(n.value, ast.GeneratorExp) and any(isinstance(t, (ast.Tuple, ast.List)) for t in n.targets) and not (
                len(n.value.generators) == 1 and not n.value.generators[0].ifs and isinstance(n.value.generators[0].iter, (ast.Tuple, ast.List))):          # (over a display: written out by the builder)
            c['results unpacked from a generator'] += 1
    return c


def outer_functions(mod_tree):
    """[(first line, last line, qualname-in-module, node)] of module-level functions and methods"""
    out = []
    for n in mod_tree.body:
        if isinstance(n, (ast.FunctionDef, ast.AsyncFunctionDef)):
            out.append((n.lineno, n.end_lineno, n.name, n))
        elif isinstance(n, ast.ClassDef):
            for m in n.body:
                if isinstance(m, (ast.FunctionDef, ast.AsyncFunctionDef)):
                    out.append((m.lineno, m.end_lineno, f'{n.name}.{m.name}', m))
    return out


def new_opaque_constructs(prog, relpath, line, known_funcs, depth=0, seen=None):
    """constructs (kind -> count) that the function containing relpath:line has beyond its reference version; helpers that the reference tree does not have
    and that the function refers to are included"""
    seen = seen if seen is not None else set()
    mod = next((m for m in prog.mods.values() if m.relpath == relpath), None)
    if mod is None:
        return {}
    hit = [(a, b, q, n) for a, b, q, n in outer_functions(mod.tree) if a <= line <= b]
    if not hit:
        return {}
    _a, _b, q, node = hit[0]
    return _new_for(prog, mod, q, node, known_funcs, seen)


def _new_for(prog, mod, q, node, known_funcs, seen):
    key = f'{mod.name}::{q}'
    if key in seen:
        return {}
    seen.add(key)
    cur = opaque_constructs(node)
    ref = reference_counts().get(key, {}) if key in known_funcs else {}
    out = {k: v - ref.get(k, 0) for k, v in cur.items() if v - ref.get(k, 0) > 0}
    # helpers introduced later, referred to by name from this function
    funcs = {qq: (mm, nn) for mm in prog.mods.values() for _x, _y, qq, nn in outer_functions(mm.tree)}
    for n in ast.walk(node):
        name = n.id if isinstance(n, ast.Name) else n.attr if isinstance(n, ast.Attribute) else None
        if name is None:
            continue
        for qq, (mm, nn) in funcs.items():
            if qq.split('.')[-1] == name and f'{mm.name}::{qq}' not in known_funcs and nn is not node:
                for k, v in _new_for(prog, mm, qq, nn, known_funcs, seen).items():
                    out[k] = out.get(k, 0) + v
    return out
