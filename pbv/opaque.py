"""Constructs the term graphs do not follow faithfully.

A rule reports a *recognised construct that deviates*.  When the function a report points at (or a helper introduced later that it calls) contains constructs
that the model does not follow - state threaded through a dict that is written by key, functions selected at run time and passed around as values, keyword
dictionaries that are not literal at the call site ... - and the reference version of that function did not contain them, "deviates" may only mean "not
followed": the obligation is then UNDECIDED (the check ends inconclusive, exit 2), not violated.  The scan is purely syntactic (ast), the reference counts are
frozen in pbv/opaque_reference.json (tools/gen_known_funcs.py).
"""
import ast
import collections
import json
import pathlib

_REF = None


def reference_counts():
    global _REF
    if _REF is None:
        p = pathlib.Path(__file__).parent / 'opaque_reference.json'
        _REF = json.loads(p.read_text()) if p.exists() else {}
    return _REF


def _literal_dict_names(fn_node):
    """local names bound to a dict display / dict(...) call with constant string keys"""
    out = set()
    for st in ast.walk(fn_node):
        if isinstance(st, ast.Assign) and len(st.targets) == 1 and isinstance(st.targets[0], ast.Name):
            v = st.value
            if isinstance(v, ast.Dict) and all(isinstance(k, ast.Constant) and isinstance(k.value, str) for k in v.keys):
                out.add(st.targets[0].id)
            elif isinstance(v, ast.Call) and isinstance(v.func, ast.Name) and v.func.id == 'dict' and not v.args and all(k.arg is not None for k in v.keywords):
                out.add(st.targets[0].id)
    return out


def builder_not_followed(graph):
    """kinds -> count of the give-ups the term-graph builder recorded for one function (terms.FuncGraph.not_followed)"""
    c = collections.Counter()
    for kind, _line in getattr(graph, 'not_followed', None) or []:
        c[kind] += 1
    return c


def module_tables(mod_tree):
    """names bound at module level to an empty dict / list (memo tables, registries)"""
    out = set()
    for st in mod_tree.body:
        if isinstance(st, (ast.Assign, ast.AnnAssign)) and st.value is not None:
            v = st.value
            empty = (isinstance(v, (ast.Dict, ast.List)) and not (getattr(v, 'keys', None) or getattr(v, 'elts', None))) or \
                    (isinstance(v, ast.Call) and isinstance(v.func, ast.Name) and v.func.id in ('dict', 'list', 'OrderedDict', 'defaultdict'))
            if empty:
                for t in (st.targets if isinstance(st, ast.Assign) else [st.target]):
                    if isinstance(t, ast.Name):
                        out.add(t.id)
    return out


MEMO_TABLE_READ = 'value taken out of a module-level table'
MEMO_HELPER = 'result of a memoising helper introduced later'


def opaque_constructs(fn_node, tables=()):
    """Counter of construct kinds (see module docstring) in one function, nested functions included"""
    c = collections.Counter()
    nested = {}
    for n in ast.walk(fn_node):
        if isinstance(n, (ast.FunctionDef, ast.AsyncFunctionDef)) and n is not fn_node:
            nested.setdefault(n.name, []).append(n)
    # local functions that write into arrays / containers of the enclosing function ...
    mutating = set()
    for name, defs in nested.items():
        for d in defs:
            local = {a.arg for a in d.args.args + d.args.posonlyargs + d.args.kwonlyargs} | ({d.args.vararg.arg} if d.args.vararg else set()) | \
                    {x.id for x in ast.walk(d) if isinstance(x, ast.Name) and isinstance(x.ctx, ast.Store)}
            for x in ast.walk(d):
                tgt = None
                if isinstance(x, ast.Subscript) and isinstance(x.ctx, ast.Store):
                    tgt = x.value
                elif isinstance(x, ast.AugAssign):
                    tgt = x.target.value if isinstance(x.target, ast.Subscript) else x.target
                while isinstance(tgt, (ast.Subscript, ast.Attribute)):
                    tgt = tgt.value
                if isinstance(tgt, ast.Name) and tgt.id not in local:
                    mutating.add(name)
    # ... and are called from inside a comprehension / generator: the updates happen once per element, which the graph of a comprehension does not carry
    for n in ast.walk(fn_node):
        if isinstance(n, (ast.ListComp, ast.SetComp, ast.DictComp, ast.GeneratorExp)):
            for x in ast.walk(n):
                if isinstance(x, ast.Call) and isinstance(x.func, ast.Name) and x.func.id in mutating:
                    c['local function that updates captured arrays, called per element of a comprehension'] += 1
    for n in ast.walk(fn_node):
        if tables and isinstance(n, ast.Subscript) and isinstance(n.ctx, ast.Load) and isinstance(n.value, ast.Name) and n.value.id in tables:
            c[MEMO_TABLE_READ] += 1          # what the table holds at that key was computed by an earlier call: not followed as a value
        elif tables and isinstance(n, ast.Call) and isinstance(n.func, ast.Attribute) and n.func.attr in ('get', 'setdefault', 'pop') and isinstance(n.func.value, ast.Name) \
                and n.func.value.id in tables:
            c[MEMO_TABLE_READ] += 1
    for n in ast.walk(fn_node):
        if isinstance(n, ast.Call):
            if isinstance(n.func, ast.Name) and n.func.id in ('getattr', 'setattr', 'eval', 'exec', 'globals', 'locals', 'vars') and \
                    not (n.func.id == 'getattr' and len(n.args) >= 2 and isinstance(n.args[1], ast.Constant)):
                c[f'{n.func.id}()'] += 1
        elif isinstance(n, ast.ClassDef):
            c['local class'] += 1
        elif isinstance(n, ast.Assign) and isinstance(n.value, ast.GeneratorExp) and any(isinstance(t, (ast.Tuple, ast.List)) for t in n.targets) and not (
                len(n.value.generators) == 1 and not n.value.generators[0].ifs and isinstance(n.value.generators[0].iter, (ast.Tuple, ast.List))):          # (over a display: written out by the builder)
            c['results unpacked from a generator'] += 1
    return c


def outer_functions(mod_tree):
    """[(first line, last line, qualname-in-module, node)] of module-level functions and methods"""
    out = []
    for n in mod_tree.body:
        if isinstance(n, (ast.FunctionDef, ast.AsyncFunctionDef)):
            out.append((n.lineno, n.end_lineno, n.name, n))
        elif isinstance(n, ast.ClassDef):
            for m in n.body:
                if isinstance(m, (ast.FunctionDef, ast.AsyncFunctionDef)):
                    out.append((m.lineno, m.end_lineno, f'{n.name}.{m.name}', m))
    return out


def all_counts(node, graph, mod_tree=None):
    c = opaque_constructs(node, module_tables(mod_tree) if mod_tree is not None else ())
    c.update(builder_not_followed(graph))
    return c


def new_opaque_constructs(prog, relpath, line, known_funcs, depth=0, seen=None, graphs=None):
    """constructs (kind -> count) that the function containing relpath:line has beyond its reference version; helpers that the reference tree does not have
    and that the function refers to are included"""
    seen = seen if seen is not None else set()
    mod = next((m for m in prog.mods.values() if m.relpath == relpath), None)
    if mod is None:
        return {}
    hit = [(a, b, q, n) for a, b, q, n in outer_functions(mod.tree) if a <= line <= b]
    if not hit:
        return {}
    _a, _b, q, node = hit[0]
    return _new_for(prog, mod, q, node, known_funcs, seen, graphs)


def _new_for(prog, mod, q, node, known_funcs, seen, graphs=None, depth=0):
    key = f'{mod.name}::{q}'
    if key in seen:
        return {}
    seen.add(key)
    graph = None
    if graphs is not None:
        try:
            graph = graphs.get(prog.func(key))
        except Exception:
            graph = None
    cur = all_counts(node, graph, mod.tree)
    if key not in known_funcs and any(ast.unparse(d.func if isinstance(d, ast.Call) else d).split('.')[-1] in ('lru_cache', 'cache') for d in node.decorator_list):
        cur[MEMO_HELPER] += 1
    ref = reference_counts().get(key, {}) if key in known_funcs else {}
    out = {k: v - ref.get(k, 0) for k, v in cur.items() if v - ref.get(k, 0) > 0}
    # helpers introduced later, referred to by name from this function
    funcs = {qq: (mm, nn) for mm in prog.mods.values() for _x, _y, qq, nn in outer_functions(mm.tree)}
    for n in ast.walk(node):
        name = n.id if isinstance(n, ast.Name) else n.attr if isinstance(n, ast.Attribute) else None
        if name is None:
            continue
        for qq, (mm, nn) in funcs.items():
            if qq.split('.')[-1] == name and f'{mm.name}::{qq}' not in known_funcs and nn is not node:
                for k, v in _new_for(prog, mm, qq, nn, known_funcs, seen, graphs, depth).items():
                    out[k] = out.get(k, 0) + v
            elif qq.split('.')[-1] == name and mm is mod and nn is not node and depth < 1:
                # a function of the reference tree that this one calls and that NOW takes values out of a memo: what it returns is not followed either
                for k, v in _new_for(prog, mm, qq, nn, known_funcs, seen, graphs, depth + 1).items():
                    if k in (MEMO_TABLE_READ, MEMO_HELPER):
                        out[k] = out.get(k, 0) + v
    return out
