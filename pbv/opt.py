"""R-OPT: an optional parameter (default None) is tested with `is None`, never by truthiness.

`if not ref_channel:` / `axis = axis or -1` treat the legitimate explicit values 0, 0.0, '' and empty containers as "not
given" (and raise for arrays).  On the reference tree every truthiness test of a parameter is on a parameter whose default
is a bool; the rule instance count for None-defaulted parameters is zero, the self-test keeps positive examples."""
import ast

from .model import AnalysisError
from .terms import T, walk_terms
from .walk import cond_polarity, strip_views, norm_stmt, is_call_to, call_parts


def check_optional_truthiness(run, A, module_prefixes, rule='R-OPT'):
    n_tests = 0
    for fn in A.prog.all_funcs():
        if not any(fn.mod.name == p.rstrip('.') or fn.mod.name.startswith(p) for p in module_prefixes):
            continue
        opt = {p for p, d in fn.defaults.items() if isinstance(d, ast.Constant) and d.value is None}
        if not opt:
            continue
        g = A.graphs.get(fn)
        conds = {}
        for e in g.events:
            for c, pol in e.guards:
                conds[id(c)] = c
        roots = [g.ret] + [e.term for e in g.events if e.term is not None]
        seen = set()
        for r in roots:
            for t in walk_terms(r, seen):
                if t.op == 'gamma':
                    conds[id(t.args[0])] = t.args[0]
                elif t.op == 'bool':
                    # `p or default` / `p and f(p)`: every operand but the last is tested for truth
                    for x in t.args[1][:-1]:
                        conds[id(x)] = x
        bad = {}
        for c in conds.values():
            c0, _ = cond_polarity(c)
            parts = list(c0.args[1]) if c0.op == 'bool' else [c0]
            for x in parts:
                x0, _ = cond_polarity(x)
                x0 = strip_views(x0)
                n_tests += 1
                if x0.op == 'param' and x0.args[0] in opt and x0.fn is fn:
                    bad[x0.args[0]] = c
        for p, c in sorted(bad.items()):
            run.violation(rule, f'{fn.qual.split("::")[1]}: optional parameter `{p}` tested by truthiness', fn.loc(getattr(c, 'node', None)),
                          f'`{norm_stmt(c.node) if getattr(c, "node", None) is not None else p}`: `{p}` defaults to None, but an explicit falsy value (0, 0.0, empty) takes the '
                          f'"not given" path as well; test `{p} is None`', construct=f'{rule}::{fn.qual}::truthiness::{p}')
    run.count('branch conditions examined for truthiness tests of optional parameters', n_tests)
    return n_tests


# parameters of the reference tree that reach neither a result nor an effect, each with the reason (frozen; anything else is reported)
UNREACHED_OK = {
    ('pb_bss.distribution.cacgmm::CACGMM._log_likelihood', 'y'): 'only the shape of y is read (independent axes / number of observations)',
    ('pb_bss.distribution.cwmm::CWMMTrainer._fit', 'affiliation_eps'): 'only asserted to be 0 (the Watson mixture has no clipped E-step)',
    ('pb_bss.distribution.mixture_model_utils::apply_inline_permutation_alignment', 'weight_constant_axis'): 'only asserted (the aligner needs frequency-tied weights)',
    ('pb_bss.distribution.von_mises_fisher::VonMisesFisher.sample', 'size'): 'raises NotImplementedError',
    ('pb_bss.extraction.mask_module::phase_sensitive_mask', 'sensor_axis'): 'only asserted to be None',
    ('pb_bss.extraction.mask_module::ideal_complex_mask', 'sensor_axis'): 'only asserted to be None',
    ('pb_bss.permutation_alignment::_PermutationAlignment.calculate_mapping', 'mask'): 'abstract method (raises NotImplementedError)',
    ('pb_bss.utils::deprecated', 'instructions'): 'used in the nested decorator only for the warning text',
}


def check_params_reach(run, A, module_prefixes, rule='R-USE'):
    """every parameter of a function reaches a returned value or an effect (call argument, store, in-place update) or decides a
    branch that does - an option that is accepted and silently dropped changes behaviour without changing any shape"""
    n = 0
    for fn in A.prog.all_funcs():
        if not any(fn.mod.name == p.rstrip('.') or fn.mod.name.startswith(p) for p in module_prefixes):
            continue
        from .terms import known_funcs
        if fn.qual not in known_funcs():
            continue        # a helper introduced later: it is inlined at its call sites and judged there
        g = A.graphs.get(fn)
        rets = [x for x in _leaves(g.ret)]
        if rets and all(getattr(x, 'op', None) == 'raise' for x in rets) and not [e for e in g.events if e.kind in ('store', 'inplace', 'setattr')]:
            continue        # a function that only raises (not implemented)
        used, seen = set(), set()
        roots = [g.ret] + [e.term for e in g.events if e.term is not None and e.kind not in ('assert', 'raise')]
        for e in g.events:
            if e.kind not in ('assert', 'raise'):
                roots += [c for c, _ in e.guards]
        for r in roots:
            for t in walk_terms(r, seen):
                if t.op == 'param':
                    used.add(t.args[0])
        # names read inside nested functions / lambdas (closures capture the parameter)
        for sub in ast.walk(fn.node):
            if isinstance(sub, (ast.FunctionDef, ast.Lambda)) and sub is not fn.node:
                used |= {x.id for x in ast.walk(sub) if isinstance(x, ast.Name)}
        for p in fn.params:
            if p in ('self', 'cls') or p.startswith('_'):
                continue
            n += 1
            if p in used or (fn.qual, p) in UNREACHED_OK:
                continue
            run.violation(rule, f'{fn.qual.split("::")[1]}: parameter `{p}` reaches a result or an effect', fn.loc(),
                          f'`{p}` is accepted but no returned value, call argument, store or branch depends on it: the option is silently ignored',
                          construct=f'{rule}::{fn.qual}::unused::{p}')
    run.count('parameters examined for reaching a result or effect', n)
    return n


def _leaves(t):
    from .walk import unwrap_gamma
    return unwrap_gamma(t)


FORWARD_OK = {
    ('pb_bss.distribution.cacgmm::CACGMMTrainer.fit_predict', 'pb_bss.distribution.cacgmm::CACGMM.predict', 'source_activity_mask'):
        'reference behaviour: fit_predict evaluates the plain posterior of the fitted model (observation, not a finding of a claimed property)',
    ('pb_bss.distribution.cbmm::CBMMTrainer.fit_predict', 'pb_bss.distribution.cbmm::CBMM.predict', 'affiliation_eps'):
        'reference behaviour: the final posterior is not clipped (observation)',
}


def check_forwarding(run, A, module_prefixes, rule='R-FWD', only=None):
    """an option of a function is handed on to every callee that has an option of the same name: a call site that leaves it out
    silently runs the callee with its default (e.g. an E-step without the caller's affiliation_eps)"""
    from .walk import callee_func, call_parts
    n = 0
    reported = set()
    for fn in A.prog.all_funcs():
        if not any(fn.mod.name == p.rstrip('.') or fn.mod.name.startswith(p) for p in module_prefixes):
            continue
        if fn.vararg or not fn.params:
            continue
        try:
            ctx = A.ev.entry(fn)
        except Exception:
            continue
        for cf in ctx.callfacts:
            cal = callee_func(cf)
            if cal is None or cal is fn or cf.term is None or cf.term.op != 'call':
                continue
            if any(k is None for k, _ in cf.term.args[2]) or any(getattr(a, 'op', None) == 'star' for a in cf.term.args[1]):
                continue        # **kwargs / *args forwarding
            name, pos, kw = call_parts(cf.term)
            npos = len(pos) - (1 if name and name.startswith('method:') else 0)
            cpos = [p for p in (cal.posonly + cal.args) if p not in ('self', 'cls')][:npos]
            bound = set(kw) | set(cpos)
            for p in fn.params:
                if p in ('self', 'cls') or p not in cal.params or (only is not None and p not in only):
                    continue
                n += 1
                key = (fn.qual, cal.qual, p)
                if p in bound or key in FORWARD_OK or key in reported:
                    continue
                reported.add(key)
                run.violation(rule, f'{fn.qual.split("::")[1]} -> {cal.qual.split("::")[1]}: option `{p}` is handed on', fn.loc(cf.term.node),
                              f'`{norm_stmt(cf.term.node)[:90]}` leaves out `{p}` although the caller has an option of that name: the callee silently uses its default',
                              construct=f'{rule}::{fn.qual}::{cal.qual}::{p}')
    run.count('same-named options examined at call sites', n)
    return n


def check_stale_loop_variables(run, A, module_prefixes, rule='R-STALE'):
    """the value a `for` target holds after its loop (the LAST element) is not used: after a search loop the winner lives in the
    variable the loop updates, and `x[f, permutation]` for `x[f, best_permutation]` type-checks, runs and passes shape tests"""
    n = 0
    for fn in A.prog.all_funcs():
        if not any(fn.mod.name == p.rstrip('.') or fn.mod.name.startswith(p) for p in module_prefixes):
            continue
        g = A.graphs.get(fn)
        for L in g.loops:
            if L.kind != 'for':
                continue
            body = {id(e) for e in L.body_events}
            roots = [g.ret] + [e.term for e in g.events if e.term is not None and id(e) not in body]
            roots += [c for e in g.events if id(e) not in body for c, _ in e.guards]
            for nm in [x.id for x in ast.walk(L.node.target) if isinstance(x, ast.Name)]:
                mu = L.mus.get(nm)
                if mu is None:
                    continue
                n += 1
                hit = None
                for r in roots:
                    for t in walk_terms(r, into_mu=False):
                        if t is mu:
                            hit = r
                            break
                    if hit is not None:
                        break
                if hit is not None:
                    run.violation(rule, f'{fn.qual.split("::")[1]}: loop variable `{nm}` (line {L.node.lineno}) used after its loop', fn.loc(getattr(hit, 'node', None)),
                                  f'`{norm_stmt(hit.node) if getattr(hit, "node", None) is not None else nm}` reads `{nm}` after the loop that binds it has ended: it is the last element '
                                  f'iterated over, not a selected one', construct=f'{rule}::{fn.qual}::{nm}')
    run.count('for-loop targets examined for use after the loop', n)
    return n


ROLE_WORDS = ('noise', 'target')


def check_argument_names(run, A, module_prefixes, rule='R-ARGNAME'):
    """a variable that carries the name of parameter q of the callee is not handed over as a different parameter p of the same callee
    (`f(target_psd_matrix=noise_psd_matrix)`, or the two swapped positionally): 246 name-to-parameter bindings of the reference tree, none crossed"""
    from .model import Func, Lib, Mod
    methods = {}
    for f in A.prog.all_funcs():
        if f.cls is not None:
            methods.setdefault(f.name, []).append(f)
    n = 0
    for fn in A.prog.all_funcs():
        if not any(fn.mod.name == p.rstrip('.') or fn.mod.name.startswith(p) for p in module_prefixes):
            continue
        for c in ast.walk(fn.node):
            if not isinstance(c, ast.Call):
                continue
            cal, skip = None, 0
            if isinstance(c.func, ast.Name):
                r = A.prog.lookup(fn.mod, c.func.id)
                if isinstance(r, Func):
                    cal = r
            elif isinstance(c.func, ast.Attribute) and isinstance(c.func.value, ast.Name) and fn.cls is not None and (fn.posonly + fn.args)[:1] == [c.func.value.id] \
                    and not fn.is_static and A.prog.method(fn.cls, c.func.attr) is not None:
                # self.method(...): the method of the enclosing class (or a base class)
                cal = A.prog.method(fn.cls, c.func.attr)
                skip = 0 if cal.is_static else 1
            elif isinstance(c.func, ast.Attribute) and methods.get(c.func.attr):
                recv = c.func.value
                if isinstance(recv, ast.Name):
                    r = A.prog.lookup(fn.mod, recv.id)
                    if isinstance(r, (Lib, Mod)) and not any(isinstance(x, (ast.Name,)) and x.id == recv.id and isinstance(x.ctx, ast.Store) for x in ast.walk(fn.node)):
                        continue          # np.multiply(...): a library function, not the method of the same name
                if len({tuple(m.posonly + m.args + m.kwonly) for m in methods[c.func.attr]}) == 1:
                    cal = methods[c.func.attr][0]
                    skip = 0 if cal.is_static else 1
            if cal is None:
                continue
            params = (cal.posonly + cal.args)[skip:]
            allp = set(params) | set(cal.kwonly)
            bound = {}
            for i, a in enumerate(c.args):
                if isinstance(a, ast.Starred):
                    break
                if i < len(params) and isinstance(a, ast.Name):
                    bound[params[i]] = a.id
            if any(k.arg and k.arg not in allp for k in c.keywords):
                continue          # a keyword the candidate callee does not have: not this callee
            for k in c.keywords:
                if k.arg and isinstance(k.value, ast.Name):
                    bound[k.arg] = k.value.id
            # role words: a variable that carries a role word (noise / target) goes to the parameter of the callee that carries the same word, when there is one
            for p, v in sorted(bound.items()):
                for w in ROLE_WORDS:
                    if w in v.lower() and w not in p.lower() and any(w in q.lower() for q in allp) and not any(w2 in v.lower() and w2 in p.lower() for w2 in ROLE_WORDS):
                        run.violation(rule, f'{fn.qual.split("::")[1]} -> {cal.name}: `{v}` passed as `{p}`', fn.loc(c),
                                      f'`{norm_stmt(c)[:100]}`: the {w} quantity `{v}` is handed over as parameter `{p}` although {cal.name} has a {w} parameter '
                                      f'({sorted(q for q in allp if w in q.lower())}) (roles crossed?)', construct=f'{rule}::{fn.qual}::{cal.qual}::{p}<-{v}::role')
            for p, v in sorted(bound.items()):
                n += 1
                if v != p and v in allp:
                    run.violation(rule, f'{fn.qual.split("::")[1]} -> {cal.name}: `{v}` passed as `{p}`', fn.loc(c),
                                  f'`{norm_stmt(c)[:100]}`: the variable `{v}` is handed over as parameter `{p}` although {cal.name} has a parameter named `{v}` (arguments crossed?)',
                                  construct=f'{rule}::{fn.qual}::{cal.qual}::{p}<-{v}')
    run.count('variable-to-parameter bindings examined', n)
    return n


def check_axisless_squeeze(run, A, module_prefixes, rule='R-ELL'):
    """np.squeeze names the axis it removes: without an axis every singleton axis goes - also a batch / class / frequency axis that
    happens to have length one, after which `...` subscripts and einsum letters bind to the wrong axes (all squeezes of the
    reference tree name their axis)"""
    from .walk import is_call_to, call_arg
    n = 0
    for fn in A.prog.all_funcs():
        if not any(fn.mod.name == p.rstrip('.') or fn.mod.name.startswith(p) for p in module_prefixes):
            continue
        g = A.graphs.get(fn)
        for e in g.events:
            if e.kind != 'call' or not is_call_to(e.term, 'numpy.squeeze'):
                continue
            n += 1
            ax = call_arg(e.term, 1, 'axis')
            none = ax is None or (ax.op == 'const' and ax.args[0] is None)
            run.check(not none, rule, f'{fn.qual.split("::")[1]}: squeeze names its axis', fn.loc(e.term.node), '',
                      f'`{norm_stmt(e.term.node)[:90]}` removes every axis of length one: with a single constraint / source / bin the layout the following code relies on is gone',
                      construct=f'{rule}::{fn.qual}::axisless-squeeze')
    run.count('squeeze calls examined', n)
    return n


AXISLESS_REDUCERS = ('sum', 'mean', 'amax', 'amin', 'max', 'min', 'prod', 'norm', 'median', 'std', 'var', 'argmax', 'argmin', 'nansum', 'nanmax', 'nanmin', 'ptp', 'average')


def check_axisless_reductions(run, A, quals, rule='R-ELL', exceptions=None):
    """in a function that acts per leading index (`...`-polymorphic by contract) every reduction of a data array names its axis: a reduction
    over everything (np.max(np.abs(x)), x.sum()) makes the result at one leading index depend on the content of the others - e.g. a floor
    relative to the largest value of ALL bins.  Reductions of shape arithmetic / constants are not data."""
    from .walk import axis_uses, data_terms
    exceptions = exceptions or {}
    n = 0
    for q in quals:
        fn = A.prog.func(q)
        g = A.graphs.get(fn)
        for t, opnd, ax, cname, e in axis_uses(g):
            if cname.split('.')[-1].split(':')[-1] not in AXISLESS_REDUCERS:
                continue
            if opnd is None or not any(x.op in ('param', 'free') for x in data_terms(opnd)):
                continue
            # a reduction of the CURRENT element of a loop over the leading index (eigenvalues of the f-th matrix) is per index by construction
            from .walk import loop_role
            if any(x.op in ('sub', 'elem', 'unpack') and (loop_role(x) or (None,))[0] in ('slice', 'index') for x in walk_terms(opnd, into_mu=False)):
                continue
            # ... also when the loop counts by hand (a while loop with its own counter): the operand is indexed with a value the loop carries
            if getattr(e, 'loops', None) and any(x.op == 'sub' and any(y.op in ('mu', 'elem') for y in walk_terms(x.args[1], into_mu=False)) for x in walk_terms(opnd, into_mu=False)):
                continue
            n += 1
            none = ax is None or (ax.op == 'const' and ax.args[0] is None)
            if none and (q, cname) in exceptions:
                run.ok(rule, f'{fn.qual.split("::")[1]}: {cname} over everything [listed]', fn.loc(t.node), exceptions[(q, cname)])
                continue
            run.check(not none, rule, f'{fn.qual.split("::")[1]}: {cname.split(".")[-1].split(":")[-1]}() names its axis', fn.loc(t.node), '',
                      f'`{norm_stmt(t.node)[:90]}` reduces over all axes: the result at one leading index (frequency bin, stacked problem) depends on the others',
                      construct=f'{rule}::{fn.qual}::axisless-reduction::{cname}')
    run.count('data reductions examined (axis named)', n)
    return n


def check_layout_dependent_flatten(run, A, module_prefixes, rule='R-ELL'):
    """a flattening (ravel / flatten / reshape) does not use order='K' / 'A': with these the ORDER OF THE VALUES follows the memory layout
    of the argument, so a transposed view of the same array gives a different result - the per-index results that are reshaped back in C
    order land at other leading indices (the reference tree has no such flattening; copies may keep any layout)"""
    from .walk import call_parts, call_arg, const_val, NOVAL
    n = 0
    for fn in A.prog.all_funcs():
        if not any(fn.mod.name == p.rstrip('.') or fn.mod.name.startswith(p) for p in module_prefixes):
            continue
        g = A.graphs.get(fn)
        for e in g.events:
            if e.kind != 'call':
                continue
            name = call_parts(e.term)[0]
            if name not in ('numpy.ravel', 'numpy.reshape', 'method:ravel', 'method:flatten', 'method:reshape'):
                continue
            n += 1
            o = call_arg(e.term, None, 'order')
            if o is None and name in ('numpy.ravel', 'method:ravel', 'method:flatten'):
                o = call_arg(e.term, 1, 'order')
            v = const_val(o) if o is not None else 'C'
            run.check(v is NOVAL or v not in ('K', 'A', 'k', 'a'), rule, f'{fn.qual.split("::")[1]}: flattening does not follow the memory layout', fn.loc(e.term.node), '',
                      f'`{norm_stmt(e.term.node)[:90]}` orders the values by the memory layout of its argument (order={v!r}): a non-contiguous / transposed input is '
                      f'flattened in another order than the C-order reshape that puts the results back, so results move between leading indices',
                      construct=f'{rule}::{fn.qual}::layout-dependent-flatten')
    run.count('flattening calls examined', n)
    return n


NONE_ARRAY_ARG = ('transpose', 'swapaxes', 'moveaxis', 'reshape', 'mean', 'amax', 'amin', 'max', 'min', 'exp', 'log', 'sqrt', 'conj', 'real', 'linalg.norm', 'norm', 'squeeze',
                  'expand_dims', 'broadcast_to', 'asarray', 'array', 'copy', 'where', 'clip', 'minimum', 'multiply', 'divide', 'add', 'subtract', 'matmul', 'dot', 'trace', 'diff')


def check_none_use(run, A, module_prefixes, rule='R-NONE'):
    """inside the branch where `x is None` holds, x is not used as a value: indexing it, arithmetic with it or handing it to einsum raises a
    TypeError on exactly the inputs that take this branch (a flipped `is None` / `is not None` passes every test that never takes it)"""
    from .walk import is_call_to, call_parts
    n = 0
    for fn in A.prog.all_funcs():
        if not any(fn.mod.name == p.rstrip('.') or fn.mod.name.startswith(p) for p in module_prefixes):
            continue
        g = A.graphs.get(fn)
        seen = set()
        reported = set()

        def is_none_value(x):
            while isinstance(x, T) and x.op == 'refine' and x.args[1] != 'isnone':
                x = x.args[0]
            return isinstance(x, T) and x.op == 'refine' and x.args[1] == 'isnone'
        for r in [g.ret] + [e.term for e in g.events if e.term is not None]:
            for t in walk_terms(r, seen):
                bad = None
                if t.op in ('binop', 'iop') and (is_none_value(t.args[1]) or is_none_value(t.args[2])):
                    bad = t
                elif t.op == 'sub' and is_none_value(t.args[0]):
                    bad = t
                elif t.op == 'attr' and is_none_value(t.args[0]) and t.args[1] not in ('__class__',):
                    bad = t
                elif t.op == 'call' and is_call_to(t, 'numpy.einsum', 'numpy.sum', 'numpy.maximum', 'numpy.abs') and any(is_none_value(a) for a in call_parts(t)[1]):
                    bad = t
                elif t.op == 'call' and (call_parts(t)[0] or '').startswith('numpy.') and call_parts(t)[1] and is_none_value(call_parts(t)[1][0]) \
                        and (call_parts(t)[0] or '').split('.')[-1] in NONE_ARRAY_ARG:
                    bad = t          # the array argument of an array function: np.transpose(None) is a 0-d object array, not an error - and not the data either
                elif t.op == 'call' and is_call_to(t, 'method:apply_mapping', 'method:calculate_mapping') and any(is_none_value(a) for a in call_parts(t)[1][1:]):
                    bad = t
                if t.op in ('binop', 'iop', 'sub', 'attr'):
                    n += 1
                if bad is not None and getattr(bad.node, 'lineno', None) not in reported:
                    reported.add(getattr(bad.node, 'lineno', None))
                    run.violation(rule, f'{fn.qual.split("::")[1]}: a value known to be None is used', fn.loc(bad.node),
                                  f'`{norm_stmt(bad.node)[:90]}` operates on a name in the branch where it was just tested to be None', construct=f'{rule}::{fn.qual}::none-use')
    run.count('operations examined for use of a value known to be None', n)
    return n


SANITISERS = ('numpy.maximum', 'numpy.minimum', 'numpy.clip', 'numpy.nan_to_num', 'numpy.where')
EFFECT_METHODS = ('append', 'extend', 'insert', 'update', 'fill', 'sort', 'setdefault', 'add', 'pop', 'remove', 'warn')


def check_dropped_sanitisers(run, A, module_prefixes, rule='R-DROP'):
    """a floor / clamp / NaN replacement that is computed and whose value then reaches nothing - no returned value, no store, no in-place update, no argument of a call
    with effects, no test: the protection the statement expresses is not applied (typically the statement that wrote it back was lost).  Only these guarding calls are
    judged: an unused temporary of another kind is untidy, not unsafe."""
    n = 0
    for fn in A.prog.all_funcs():
        if not any(fn.mod.name == p.rstrip('.') or fn.mod.name.startswith(p) for p in module_prefixes):
            continue
        g = A.graphs.get(fn)
        cand = [e for e in g.events if e.kind == 'call' and is_call_to(e.term, *SANITISERS)]
        if not cand:
            continue
        roots = [g.ret]
        for e in g.events:
            roots += [c for c, _ in (e.guards or [])]
            if e.kind in ('store', 'inplace', 'setattr', 'assert', 'raise', 'return', 'global_store', 'break', 'continue'):
                roots.append(e.term)
            elif e.kind == 'call':
                nm = call_parts(e.term)[0]
                pure = nm is not None and (nm.startswith('numpy.') or nm.startswith('scipy.') or nm.startswith('builtin.') or nm.startswith('method:'))
                if not pure or (nm.startswith('method:') and nm.split(':')[1] in EFFECT_METHODS) or nm in ('builtin.print', 'builtin.setattr', 'builtin.next'):
                    roots.append(e.term)
        seen = set()
        for r in roots:
            if isinstance(r, T):
                for _t in walk_terms(r, seen):
                    pass
        # names read by nested functions / lambdas capture values the term graph of the outer function does not show
        captured = set()
        for sub in ast.walk(fn.node):
            if isinstance(sub, (ast.FunctionDef, ast.Lambda)) and sub is not fn.node:
                captured |= {x.id for x in ast.walk(sub) if isinstance(x, ast.Name)}
        for e in cand:
            node = e.term.node
            # judged: `name = np.maximum(...)` and a bare `np.maximum(...)` statement.  A guarding call nested in a larger expression is used by that expression
            # (the builder may have fused it with its neighbour - minimum(maximum(x, a), b) is clip - so the inner term alone says nothing)
            stmt = tgt = None
            for st in ast.walk(fn.node):
                if isinstance(st, ast.Assign) and st.value is node and len(st.targets) == 1 and isinstance(st.targets[0], ast.Name):
                    stmt, tgt = st, st.targets[0].id
                elif isinstance(st, ast.Expr) and st.value is node:
                    stmt = st
            if stmt is None:
                continue
            n += 1
            if e.term.id in seen:
                continue
            if tgt is not None:
                if tgt in captured:
                    continue
                # the name is read again (later in the text, or anywhere in a loop that contains the statement): its value was used, possibly fused with the reader by a canonical form
                loops_ = [lp for lp in ast.walk(fn.node) if isinstance(lp, (ast.For, ast.While)) and any(x is stmt for x in ast.walk(lp))]
                reads = [x for x in ast.walk(fn.node) if isinstance(x, ast.Name) and x.id == tgt and isinstance(x.ctx, ast.Load) and
                         (x.lineno > stmt.end_lineno or any(any(y is x for y in ast.walk(lp)) for lp in loops_)) and not any(y is x for y in ast.walk(stmt))]
                if reads:
                    continue
            run.violation(rule, f'{fn.qual.split("::")[1]}: the value of a floor / clamp reaches a result or an effect', fn.loc(node),
                          f'`{norm_stmt_of(node)}` is computed and then dropped: nothing returned, stored or tested depends on it, the protection is not applied',
                          construct=f'{rule}::{fn.qual}::dropped::{call_parts(e.term)[0]}')
    run.count('floors / clamps examined for reaching a result or effect', n)
    return n


def norm_stmt_of(node):
    try:
        return ' '.join(ast.unparse(node).split())[:90]
    except Exception:
        return '<expression>'


def derived_state_classes(A):
    """{class: set of fields its __post_init__ reads} for every dataclass that caches quantities computed from its fields at construction"""
    out = {}
    for cls in A.prog.all_classes():
        if not (cls.is_dataclass or any(c.is_dataclass for c in A.prog.mro(cls))):
            continue
        post = A.prog.method(cls, '__post_init__')
        if post is None:
            continue
        stored = {x.attr for x in ast.walk(post.node) if isinstance(x, ast.Attribute) and isinstance(x.ctx, ast.Store) and isinstance(x.value, ast.Name) and x.value.id == 'self'}
        read = {x.attr for x in ast.walk(post.node) if isinstance(x, ast.Attribute) and isinstance(x.ctx, ast.Load) and isinstance(x.value, ast.Name) and x.value.id == 'self'}
        src = {f for f in read if f in A.prog.all_fields(cls) and f not in stored}
        if stored and src:
            out[cls] = src
    return out


def check_frozen_models(run, A, module_prefixes, rule='R-FROZEN'):
    """A model object that caches quantities computed from its parameters when it is constructed (`__post_init__`: the Gaussians keep the Cholesky factor of
    the precision and its log-determinant) is a value: a parameter assigned to an existing instance leaves the cached quantities of the OLD parameter in place, and the
    density is then evaluated with them.  Every store `obj.field = v` outside the constructor where `obj` may be such an instance and `field` is read by its
    `__post_init__` is reported; the receiver is resolved by the abstract interpreter, an unresolved receiver counts when the field name belongs to such a class only."""
    derived = derived_state_classes(A)
    if not derived:
        raise AnalysisError('no model class with quantities cached at construction found (Gaussian.__post_init__ expected)')
    by_field = {}
    for cls, src in derived.items():
        for f in src:
            by_field.setdefault(f, set()).add(cls)
    # classes that have a field of that name and do NOT cache anything computed from it
    plain = {}
    for cls in A.prog.all_classes():
        for f in A.prog.all_fields(cls):
            if f in by_field and cls not in by_field[f]:
                plain.setdefault(f, set()).add(cls)
    n = 0
    for fn in A.prog.all_funcs():
        if not any(fn.mod.name == p.rstrip('.') or fn.mod.name.startswith(p) for p in module_prefixes):
            continue
        g = A.graphs.get(fn)
        ctx = None
        for e in g.events:
            if e.kind != 'setattr' or e.data['attr'] not in by_field:
                continue
            base = e.data['base']
            is_self = base.op == 'param' and base.args[0] == 'self'
            if is_self and fn.name in ('__init__', '__post_init__', '__new__'):
                continue
            n += 1
            attr = e.data['attr']
            classes = None
            if is_self and fn.cls is not None:
                classes = {fn.cls} | set(A.prog.subclasses(fn.cls))
            else:
                try:
                    if ctx is None:
                        ctx = A.ev.entry(fn)
                    v = A.ev.eval(base, ctx)
                    if v is not None and v.obj is not None and v.obj.classes:
                        classes = set(v.obj.classes)
                except Exception:
                    classes = None
            if classes is None:
                if plain.get(attr):
                    run.unresolved(rule, f'{fn.qual.split("::")[1]}: `{norm_stmt_of(e.term.node) if getattr(e.term, "node", None) is not None else attr}` does not leave cached quantities stale',
                                   fn.loc(getattr(e.term, 'node', None)), f'the receiver of the store to `.{attr}` is not resolved')
                    continue
                classes = by_field[attr]
            hit = sorted(c.name for c in classes if c in by_field[attr])
            if hit:
                run.violation(rule, f'{fn.qual.split("::")[1]}: parameters of a constructed model are not reassigned', fn.loc(getattr(e.term, 'node', None)),
                              f'`.{attr}` is assigned on an existing {" / ".join(hit)} instance: `__post_init__` computed '
                              f'cached quantities from the old `{attr}` (they are not recomputed), the density is evaluated with the old parameter',
                              construct=f'{rule}::{fn.qual}::{attr}')
    run.count('classes caching quantities computed from their fields at construction', len(derived))
    run.count('stores to such fields outside a constructor', n)
    return n


def check_derived_fields(run, A, module_prefixes, rule='R-DERIVED'):
    """The quantities a model caches at construction (`__post_init__`: Cholesky factor of the precision and its log-determinant for the Gaussians) are functions of the
    parameters.  A cached quantity that is ALSO a constructor argument (a dataclass field without `init=False`) and whose assignment in `__post_init__` is conditional (skipped
    when a value was passed in) can be set independently of the parameter it belongs to - by the constructor, `dataclasses.replace`, `from_dict(to_dict())`, `stack_parameters` -
    and the density is then evaluated with a factor that is not the one of the stored covariance.  Reported: such a field, with the guard.  An unconditional recomputation of an
    init field is silent (the passed value is overwritten), and so is a conditional store into an `init=False` field."""
    derived = derived_state_classes(A)
    if not derived:
        raise AnalysisError('no model class with quantities cached at construction found (Gaussian.__post_init__ expected)')
    n = 0
    for cls in sorted(derived, key=lambda c: c.qual):
        if not any(cls.mod.name == p.rstrip('.') or cls.mod.name.startswith(p) for p in module_prefixes):
            continue
        post = A.prog.method(cls, '__post_init__')
        g = A.graphs.get(post)
        fields = A.prog.all_fields(cls)
        stores = {}
        for e in g.events:
            if e.kind == 'setattr' and e.data['base'].op == 'param' and e.data['base'].args[0] == 'self':
                stores.setdefault(e.data['attr'], []).append(e)
        for attr, evs in sorted(stores.items()):
            if attr not in fields:
                continue
            n += 1
            initable = fields[attr].get('init', True)
            guarded = [e for e in evs if e.guards]
            ok = not (initable and guarded and len(guarded) == len(evs))
            run.check(ok, rule, f'{cls.name}.{attr}: a quantity cached at construction cannot be set apart from the parameters it is computed from', post.loc(getattr(evs[0].term, 'node', None)), '',
                      f'`{attr}` is assigned in `__post_init__` only under a condition AND is a constructor argument (no `field(init=False)`): a value passed in - by the caller, by '
                      f'`dataclasses.replace` (which copies every init field of the old object), by `from_dict` / `stack_parameters` - survives next to parameters it was not computed '
                      f'from, and the density is evaluated with it', construct=f'{rule}::{cls.qual}::{attr}')
    run.count('cached quantities that are dataclass fields', n)
    return n


def _dormant(A, fn, guards):
    """the guarded code runs only when a parameter is switched on that is off by default and that no call in the package switches on: [(param, default)] or None"""
    from .walk import const_val
    need = []
    for c, pol in guards or []:
        c = strip_views(c)
        if isinstance(c, T) and c.op == 'param' and pol is True:
            need.append(c.args[0])
    return _dormant_params(A, fn, need)


def _dormant_params(A, fn, need):
    from .walk import const_val
    out = []
    for p in need:
        names = [a.arg for a in fn.node.args.posonlyargs + fn.node.args.args]
        kwonly = [a.arg for a in fn.node.args.kwonlyargs]
        default = NotImplemented
        if p in names:
            i = names.index(p) - (len(names) - len(fn.node.args.defaults))
            if i >= 0:
                default = fn.node.args.defaults[i]
        elif p in kwonly:
            default = fn.node.args.kw_defaults[kwonly.index(p)]
        if not (isinstance(default, ast.Constant) and not default.value):
            continue
        passed = False
        for other in A.prog.all_funcs():
            for e in A.graphs.get(other).events:
                if e.kind != 'call':
                    continue
                nm, pos, kw = call_parts(e.term)
                if nm != fn.qual:
                    continue
                k = names.index(p) - (1 if fn.cls is not None and not fn.is_static else 0) if p in names else None
                if p in kw or any(x is None for x in kw) or (k is not None and len(pos) > k) or any(getattr(a, 'op', None) == 'star' for a in pos):
                    passed = True
        if not passed:
            out.append((p, default.value))
    return out or None


def _dormant_callers(A, fn, depth=0):
    """a private helper all of whose calls in the package sit in dormant code (`if use_scipy: ... helper(...)` with the switch a parameter that is never rebound)"""
    if not fn.name.startswith('_') or fn.name.startswith('__') or depth > 2:
        return None
    out = []
    n_sites = 0
    for other in A.prog.all_funcs():
        if other is fn:
            continue
        refs = [x for x in ast.walk(other.node) if (isinstance(x, ast.Name) and x.id == fn.name) or (isinstance(x, ast.Attribute) and x.attr == fn.name)]
        if not refs:
            continue
        calls = {id(x.func): x for x in ast.walk(other.node) if isinstance(x, ast.Call)}
        rebound = {x.id for x in ast.walk(other.node) if isinstance(x, ast.Name) and isinstance(x.ctx, (ast.Store, ast.Del))}
        for r in refs:
            if id(r) not in calls:
                return None                # handed on as a value: callers unknown
            n_sites += 1
            call = calls[id(r)]
            need = []

            def find(stmts, path):
                for st in stmts:
                    if any(y is call for y in ast.walk(st)):
                        if isinstance(st, ast.If) and isinstance(st.test, ast.Name) and st.test.id in other.params and st.test.id not in rebound and \
                                any(y is call for b in st.body for y in ast.walk(b)):
                            path.append(st.test.id)
                        for field in ('body', 'orelse', 'finalbody', 'handlers'):
                            sub = getattr(st, field, None)
                            if sub:
                                find([h for h in sub] if field != 'handlers' else [b for h in sub for b in h.body], path)
                        return
            find(other.node.body, need)
            d = _dormant_params(A, other, need) or _dormant_callers(A, other, depth + 1)
            if not d:
                return None
            out += [x for x in d if x not in out]
    return out if n_sites else None


def check_extent_loops(run, A, module_prefixes, rule='R-ITER'):
    """`for f in range(X.shape[0])` / `range(len(X))` whose body reads X but never uses `f`, and in which nothing is carried from one iteration to the next:
    every iteration computes the same thing (`X[-1]` for `X[f]`) - the results for all but one index are copies of one of them.  A loop of this kind that can only be
    entered through a parameter that is off by default and that no call of the package switches on is counted as dormant and not reported."""
    n = n_dormant = 0
    for fn in A.prog.all_funcs():
        if not any(fn.mod.name == p.rstrip('.') or fn.mod.name.startswith(p) for p in module_prefixes):
            continue
        g = A.graphs.get(fn)
        for L in g.loops:
            if L.kind != 'for' or not isinstance(L.node, ast.For) or not isinstance(L.node.target, ast.Name) or L.node.target.id.startswith('_'):
                continue
            it = L.node.iter
            if not (isinstance(it, ast.Call) and ((isinstance(it.func, ast.Name) and it.func.id == 'range' and len(it.args) == 1) or
                                                  (isinstance(it.func, ast.Attribute) and it.func.attr == 'ndindex'))):
                continue
            arrs = set()
            for x in ast.walk(it):
                if isinstance(x, ast.Attribute) and x.attr == 'shape' and isinstance(x.value, ast.Name):
                    arrs.add(x.value.id)
                elif isinstance(x, ast.Call) and isinstance(x.func, ast.Name) and x.func.id == 'len' and len(x.args) == 1 and isinstance(x.args[0], ast.Name):
                    arrs.add(x.args[0].id)
            if len(arrs) != 1:
                continue
            arr = next(iter(arrs))
            n += 1
            var = L.node.target.id
            body_names = [x for st in L.node.body for x in ast.walk(st) if isinstance(x, ast.Name)]
            if any(x.id == var for x in body_names) or not any(x.id == arr and isinstance(x.ctx, ast.Load) for x in body_names):
                continue
            # anything assigned in the body and read in the body before / without that assignment is carried around the loop
            def feeds(r, mu):
                # is the carried value READ by the computation?  `results.append(v)` only collects: the receiver of a list-growing method is not a read
                stack, seen_ = [r], set()
                while stack:
                    y = stack.pop()
                    if not isinstance(y, T) or y.id in seen_:
                        continue
                    seen_.add(y.id)
                    if y is mu:
                        return True
                    if y.op == 'mu':
                        continue
                    if y.op == 'call' and y.args[0].op == 'attr' and y.args[0].args[1] in ('append', 'extend', 'insert') and y.args[0].args[0] is mu:
                        stack.extend(y.args[1])
                        stack.extend(v_ for _, v_ in y.args[2])
                        continue
                    for a in y.args:
                        for z in (a if isinstance(a, tuple) else (a,)):
                            for w in (z if isinstance(z, tuple) else (z,)):
                                if isinstance(w, T):
                                    stack.append(w)
                return False
            carried = {nm for nm in L.mus if nm != var and any(
                feeds(r, L.mus[nm]) for e in L.body_events for r in [e.term] + [c for c, _ in (e.guards or [])] if isinstance(r, T))}
            if carried:
                continue
            guards = next((e.guards for e in L.body_events), None)
            dorm = _dormant(A, fn, guards) or _dormant_callers(A, fn)
            if dorm:
                n_dormant += 1
                run.ok(rule, f'{fn.qual.split("::")[1]}: loop over the extent of `{arr}` (line {L.node.lineno}) [dormant]', fn.loc(L.node),
                       f'the body never uses `{var}`, but the loop is entered only with {", ".join(f"{p}" for p, _ in dorm)} switched on: off by default and never passed inside the package')
                continue
            run.violation(rule, f'{fn.qual.split("::")[1]}: loop over the extent of `{arr}` uses its index', fn.loc(L.node),
                          f'`for {var} in {norm_stmt_of(it)}` reads `{arr}` in its body but never uses `{var}` and carries nothing from one iteration to the next: '
                          f'every iteration computes the same result, the entries for all other indices are copies of it', construct=f'{rule}::{fn.qual}::{arr}::{var}')
    run.count('loops over the extent of an array examined for using their index', n)
    run.count('such loops that ignore their index but are dormant (entered only through a switch that is off everywhere)', n_dormant)
    return n


FLOAT_PRODUCING = ('numpy.mean', 'numpy.average', 'numpy.divide', 'numpy.true_divide', 'numpy.sqrt', 'numpy.var', 'numpy.std', 'numpy.exp', 'numpy.log', 'numpy.log10',
                   'numpy.median', 'numpy.percentile', 'numpy.quantile', 'numpy.nanmean', 'numpy.reciprocal', 'numpy.arctan2', 'numpy.linalg.norm')
LIKE_MAKERS = ('numpy.empty_like', 'numpy.zeros_like', 'numpy.ones_like', 'numpy.full_like')


def check_result_buffers(run, A, module_prefixes, rule='R-DTYPE'):
    """a fractional result (mean, quotient, root, ...) written with `out=` / stored by index into a buffer made by `empty_like(data)` / `zeros_like(data)` WITHOUT a dtype takes the
    dtype of the data: for integer-typed input (binary int8 masks are what the aligners' own examples use) the values are truncated towards zero, silently.
    Judged: the buffer's prototype is not decided floating by the abstract interpreter (a parameter, a copy of one, a selection that includes one)."""
    from .walk import call_arg
    n = 0
    for fn in A.prog.all_funcs():
        if not any(fn.mod.name == p.rstrip('.') or fn.mod.name.startswith(p) for p in module_prefixes):
            continue
        g = A.graphs.get(fn)
        ctx = None

        def like_proto(buf):
            b = strip_views(buf)
            for _ in range(8):
                if isinstance(b, T) and b.op in ('mu', 'store', 'iop'):
                    b = strip_views(b.args[0] if b.op != 'iop' else b.args[1])
                else:
                    break
            if isinstance(b, T) and is_call_to(b, *LIKE_MAKERS) and call_arg(b, None, 'dtype') is None and (len(call_parts(b)[1]) < 2 or not is_call_to(b, 'numpy.empty_like', 'numpy.zeros_like', 'numpy.ones_like')):
                return b, call_arg(b, 0)
            return None, None
        cands = []
        for e in g.events:
            if e.kind in ('call', 'outcall') and is_call_to(e.term, *FLOAT_PRODUCING):
                out = call_arg(e.term, None, 'out')
                if out is not None:
                    cands.append((e.term, out, 'out='))
            elif e.kind in ('store', 'ownstore') and e.term.op == 'store' and is_call_to(strip_views(e.term.args[2]), *FLOAT_PRODUCING):
                cands.append((strip_views(e.term.args[2]), e.term.args[0], 'indexed store'))
        for call, buf, how in cands:
            maker, proto = like_proto(buf)
            if maker is None or proto is None:
                continue
            n += 1
            try:
                if ctx is None:
                    ctx = A.ev.entry(fn)
                v = A.ev.eval(proto, ctx)
                dt = getattr(v, 'dtype', None)
            except Exception:
                dt = None
            if dt in ('real', 'complex'):
                run.ok(rule, f'{fn.qual.split("::")[1]}: `{norm_stmt_of(call.node)}` into a buffer of floating type', fn.loc(call.node), f'prototype decided {dt}')
                continue
            run.violation(rule, f'{fn.qual.split("::")[1]}: a fractional result is stored in a floating-point buffer', fn.loc(call.node),
                          f'`{norm_stmt_of(call.node)}` ({how}) writes into `{norm_stmt_of(maker.node)}`, which takes the dtype of its prototype; the prototype is not decided floating '
                          f'(dtype: {dt or "that of the caller data"}): for an integer-typed input the result is truncated towards zero without a warning',
                          construct=f'{rule}::{fn.qual}::{call_parts(call)[0]}::{how}')
    run.count('fractional results written into *_like buffers', n)
    return n


def int_defaults(fn):
    """{parameter: value} for the parameters of fn whose default is an integer literal (2 ** 15 included)"""
    out = {}
    node = getattr(fn, 'node', None)
    if node is None:
        return out
    a = node.args
    pos = a.posonlyargs + a.args
    for arg, d in list(zip(pos[len(pos) - len(a.defaults):], a.defaults)) + [(k, d) for k, d in zip(a.kwonlyargs, a.kw_defaults) if d is not None]:
        try:
            v = eval(compile(ast.Expression(body=d), '<default>', 'eval'), {'__builtins__': {}}, {}) if isinstance(d, (ast.Constant, ast.BinOp, ast.UnaryOp)) else None
        except Exception:
            v = None
        if isinstance(v, int) and not isinstance(v, bool):
            out[arg.arg] = v
    return out


def block_partition_verdict(it, sl, defaults=None):
    """the loop `for b in <it>` and the slice term `sl` (bounds computed from b): do consecutive blocks starting at 0 reach the end of the axis for every extent?
    -> ('full', number of extents folded) | ('short', extent, end reached, extents for which the end IS reached) | None (no walk over consecutive blocks, or not foldable)"""
    from .inteval import int_eval, UNKNOWN
    from .walk import const_val, same_value

    def symbols(z, out, depth=0):
        if not isinstance(z, T) or depth > 25:
            return
        z0 = strip_views(z)
        if z0.op in ('unpack',) and isinstance(z0.args[0], T) and strip_views(z0.args[0]).op == 'attr' and strip_views(z0.args[0]).args[1] == 'shape':
            out.append(z0)
            return
        if z0.op == 'sub' and isinstance(z0.args[0], T) and strip_views(z0.args[0]).op == 'attr' and strip_views(z0.args[0]).args[1] == 'shape':
            out.append(z0)
            return
        if is_call_to(z0, 'builtin.len'):
            out.append(z0)
            return
        if z0.op == 'mu' or (z0.op == 'unpack' and isinstance(z0.args[0], T) and strip_views(z0.args[0]).op not in ('tuple', 'list', 'elem')):
            # an integer the function computes from its arrays and does not write out as an expression of one shape (`n, = np.broadcast_shapes(..)`, a product
            # of extents accumulated in a loop): ONE unknown - if it is the only one, the walk is folded against it
            out.append(z0)
            return
        if z0.op == 'param':
            if defaults and z0.args[0] in defaults:
                fixed.append(z0)          # a block size with an integer default: folded at that value
                return
            out.append(z0)
            return
        if z0.op == 'elem':
            return
        for a in z0.args:
            if isinstance(a, T):
                symbols(a, out, depth + 1)
            elif isinstance(a, tuple):
                for b in a:
                    if isinstance(b, T):
                        symbols(b, out, depth + 1)
                    elif isinstance(b, tuple):
                        for c in b:
                            if isinstance(c, T):
                                symbols(c, out, depth + 1)
    fixed = []
    syms = []
    symbols(it, syms)
    for z in sl.args:
        symbols(z, syms)
    uniq = []
    for s_ in syms:
        if not any(s_ is u or same_value(s_, u) for u in uniq):
            uniq.append(s_)
    if len(uniq) != 1:
        return None
    consts = sorted({c for z in list(sl.args) + [it] if isinstance(z, T) for y in walk_terms(z, into_mu=False) for c in [const_val(y)]
                     if isinstance(c, int) and not isinstance(c, bool) and c > 1} | {defaults[f_.args[0]] for f_ in fixed if defaults[f_.args[0]] > 1})
    extents = sorted({v for c in consts for v in (c - 1, c, c + 1, c + c // 2, 2 * c - 1, 2 * c, 2 * c + 1, 3 * c) if 0 < v <= 200000} | {1, 2, 3, 4, 5, 7})
    verdicts = {}
    for T_ in extents:
        env = {('term', u.id): T_ for u in syms}
        for f_ in fixed:
            env[('term', f_.id)] = defaults[f_.args[0]]
        its = int_eval(it, env)
        if its is UNKNOWN or not isinstance(its, tuple):
            return None
        spans = []
        for b in its:
            env2 = dict(env)
            env2[('elem', it.id)] = b
            lo, hi, st = (int_eval(x, env2) if isinstance(x, T) else UNKNOWN for x in sl.args)
            if lo is UNKNOWN or hi is UNKNOWN or st is UNKNOWN or st not in (None, 1) or not all(v is None or (isinstance(v, int) and not isinstance(v, bool)) for v in (lo, hi)):
                return None
            r_ = range(T_)[slice(lo, hi)]
            spans.append((r_.start, r_.stop) if len(r_) else None)
        spans = [s_ for s_ in spans if s_ is not None]
        if not spans:
            verdicts[T_] = ('none', 0)
            continue
        contiguous = spans[0][0] == 0 and all(a[1] == b[0] for a, b in zip(spans, spans[1:]))
        verdicts[T_] = ('partition', spans[-1][1]) if contiguous else ('other', None)
    if not verdicts:
        return None
    kinds = {v[0] for v in verdicts.values()}
    if 'other' in kinds or 'partition' not in kinds:
        return None          # not a walk over consecutive blocks from the start of the axis
    full = [T_ for T_, v in verdicts.items() if v[0] == 'partition' and v[1] == T_]
    short = [(T_, v[1]) for T_, v in verdicts.items() if (v[0] == 'partition' and v[1] < T_) or (v[0] == 'none' and T_ > 0)]
    if full and short:
        return ('short', short[0][0], short[0][1], full)
    if full:
        return ('full', len(verdicts))
    return None


def _looks_blockwise(it, sl):
    """the slice `lo:hi` of a loop that walks over blocks: lo is computed from the loop index, hi from lo plus a block size (lo + b, min(lo + b, n), (i + 1) * b), and the loop
    runs over a range (not over the entries of a plan or of an array)"""
    it0 = strip_views(it)
    if not (is_call_to(it0, 'builtin.range') or is_call_to(it0, 'builtin.zip', 'numpy.arange')):
        return False
    lo, hi, st = sl.args
    def has_elem(z):
        return isinstance(z, T) and any(y.op == 'elem' and y.args and y.args[0] is it for y in walk_terms(z, into_mu=False))
    if not (has_elem(lo) and has_elem(hi)):
        return False
    # the index is used in ARITHMETIC on the bounds, not to look bounds up in a table (plan[i][0]:plan[i + 1][1])
    for z in (lo, hi):
        if any(y.op == 'sub' and has_elem(y.args[1]) for y in walk_terms(z, into_mu=False)):
            return False
    return isinstance(hi, T) and (hi.op == 'binop' or is_call_to(strip_views(hi), 'builtin.min') or strip_views(hi).op in ('unpack', 'elem'))


def check_block_partitions(run, A, module_prefixes, rule='R-COVER'):
    """a loop that walks over an axis block by block - its index only forms the bounds lo:hi of slices, consecutive iterations continue where the last one stopped, the first one
    starts at 0 - visits every entry of the axis for EVERY extent: `range(n // block)` blocks, `range(block, n + 1, block)` block ends, `np.arange(0, n + 1, block)` edges leave the
    last partial block out whenever n is not a multiple of the block size.  Decided by folding the loop bounds and the slice bounds for extents around the literal block sizes
    that occur in them (pbv/inteval.py); a loop whose blocks reach the end of the axis for some extents and stop short for others is reported with the extent and what is left out."""
    n = 0
    for fn in A.prog.all_funcs():
        if not any(fn.mod.name == p.rstrip('.') or fn.mod.name.startswith(p) for p in module_prefixes):
            continue
        g = A.graphs.get(fn)
        for L in g.loops:
            if L.kind != 'for' or getattr(L, 'iter', None) is None:
                continue
            it = L.iter

            def of_loop(z):
                # the loop variable, or a component of it (`for start, stop in zip(edges[:-1], edges[1:])`)
                return any(y.op == 'elem' and y.args and y.args[0] is it for y in walk_terms(z, into_mu=False))
            slices = []
            for e_ in g.events:
                if e_.term is None:
                    continue
                for x in walk_terms(e_.term):
                    if x.op == 'slice' and any(isinstance(z, T) and of_loop(z) for z in x.args) and not any(x is y for y in slices):
                        slices.append(x)
            for sl in slices:
                v = block_partition_verdict(it, sl, int_defaults(fn))
                if v is None:
                    # a walk over blocks whose bounds cannot be folded (several unknown extents, a block size computed from the data): whether it reaches the end of the axis
                    # is not decided.  Recognised by its shape: the lower bound is the loop index or a multiple of it, the upper bound that plus something / a min() with it
                    if _looks_blockwise(it, sl):
                        n += 1
                        run.unresolved(rule, f'{fn.qual.split("::")[1]}: the blocks of the loop at line {L.node.lineno} cover the whole axis', fn.loc(getattr(sl, 'node', None) or L.node),
                                       f'`{norm_stmt(L.node.iter)[:70]}`: the block bounds are not closed integer expressions of one extent')
                    continue
                n += 1
                if v[0] == 'short':
                    _, T_, end, full = v
                    run.violation(rule, f'{fn.qual.split("::")[1]}: the blocks of the loop at line {L.node.lineno} cover the whole axis', fn.loc(getattr(sl, 'node', None) or L.node),
                                  f'`{norm_stmt(L.node.iter)[:70]}` with the slice `{norm_stmt(sl.node)[:50] if getattr(sl, "node", None) is not None else "lo:hi"}`: for an axis of length {T_} the '
                                  f'blocks end at {end} - entries {end}..{T_ - 1} are never visited (for lengths like {full[:3]} they reach the end): the last, partial block is left out',
                                  construct=f'{rule}::{fn.qual}::last-block')
                else:
                    run.ok(rule, f'{fn.qual.split("::")[1]}: the blocks of the loop at line {L.node.lineno} cover the whole axis', fn.loc(L.node), f'folded for {v[1]} extents')
    run.count('loops over consecutive blocks of an axis examined', n)
    return n


def check_casts_to_another_operands_dtype(run, A, module_prefixes, rule='R-DTYPE'):
    """np.asarray(p, dtype=q.dtype) / p.astype(q.dtype) with p and q two different data parameters: p is converted to whatever type the CALLER stored q in.  The library accepts
    hard (bool / integer) affiliation masks and integer label arrays; a fractional saliency / weight cast to such a type is truncated without a warning.  (A cast to the dtype of
    the SAME array, or to a fixed floating type, is not this.)"""
    n = 0
    for fn in A.prog.all_funcs():
        if not any(fn.mod.name == p.rstrip('.') or fn.mod.name.startswith(p) for p in module_prefixes):
            continue
        g = A.graphs.get(fn)
        for e in g.events:
            if e.kind != 'call' or e.term is None or e.term.fn is not fn:
                continue
            name, pos, kw = call_parts(e.term)
            src = dt = None
            if name in ('numpy.asarray', 'numpy.array', 'numpy.asanyarray', 'numpy.ascontiguousarray') and pos:
                src, dt = pos[0], kw.get('dtype', pos[1] if len(pos) > 1 else None)
            elif name == 'method:astype' and len(pos) >= 2:
                src, dt = pos[0], pos[1]
            if src is None or dt is None:
                continue
            d0 = strip_views(dt)
            if not (d0.op == 'attr' and d0.args[1] == 'dtype'):
                continue
            n += 1
            owner = strip_views(d0.args[0])
            s0 = strip_views(src)
            while isinstance(s0, T) and s0.op == 'refine':
                s0 = strip_views(s0.args[0])
            if owner.op == 'param' and s0.op == 'param' and owner.args[0] != s0.args[0] and owner.args[0] not in ('self', 'cls'):
                run.violation(rule, f'{fn.qual.split("::")[1]}: `{s0.args[0]}` is converted to the dtype of `{owner.args[0]}`', fn.loc(e.term.node),
                              f'`{norm_stmt(e.term.node)[:90]}`: `{s0.args[0]}` takes the type the caller happened to store `{owner.args[0]}` in - with a hard bool / integer mask as '
                              f'`{owner.args[0]}` a fractional `{s0.args[0]}` is truncated silently (0.25 -> True / 0)', construct=f'{rule}::{fn.qual}::cast-to-other-dtype::{s0.args[0]}')
    run.count('casts to the dtype of an array examined', n)
    return n


def check_partial_buffer_reads(run, A, module_prefixes, rule='R-BUF'):
    """a work buffer allocated with np.empty of which only a PART was written in this iteration (`buf[..., :k] = ...`, `np.multiply(a, b, out=buf[..., :k])`) is not then read as
    a whole: the rest holds what an earlier, longer block left there (or nothing at all).  Reading the written part again (`buf[..., :k]`) is fine; so is reading the whole buffer
    after the loop that fills it block by block."""
    n = 0
    for fn in A.prog.all_funcs():
        if not any(fn.mod.name == p.rstrip('.') or fn.mod.name.startswith(p) for p in module_prefixes):
            continue
        g = A.graphs.get(fn)
        seen = set()
        for e in g.events:
            if e.kind not in ('call', 'inplace', 'return', 'store') or e.term is None:
                continue
            for x in walk_terms(e.term, into_mu=False):
                operands = []
                if x.op == 'call':
                    operands = [a for a in x.args[1] if isinstance(a, T)] + [v for k, v in x.args[2] if isinstance(v, T) and k != 'out']
                elif x.op in ('binop', 'iop'):
                    operands = [a for a in x.args[1:] if isinstance(a, T)]
                for o in operands:
                    o0 = o
                    while isinstance(o0, T) and o0.op == 'refine':
                        o0 = o0.args[0]
                    if not (isinstance(o0, T) and o0.op == 'store') or o0.id in seen:
                        continue
                    idx = o0.args[1]
                    items = list(idx.args[0]) if idx.op == 'tuple' else [idx]
                    partial = [it for it in items if it.op == 'slice' and any(isinstance(b, T) and not (b.op == 'const' and b.args[0] is None) for b in it.args[:2])
                               and any(isinstance(b, T) and b.op != 'const' for b in it.args[:2])]
                    if not partial:
                        continue
                    root = o0.args[0]
                    for _ in range(12):
                        if isinstance(root, T) and root.op in ('store', 'mu', 'refine'):
                            root = root.args[0]
                        else:
                            break
                    if not (isinstance(root, T) and is_call_to(root, 'numpy.empty', 'numpy.empty_like')):
                        continue
                    # the store must have happened in a loop (the stale part comes from an earlier iteration) or the buffer was never written before (uninitialised part)
                    seen.add(o0.id)
                    n += 1
                    run.violation(rule, f'{fn.qual.split("::")[1]}: a partly written np.empty buffer is read as a whole', fn.loc(getattr(x, 'node', None)),
                                  f'`{norm_stmt(x.node)[:100]}` reads the whole buffer right after only `{norm_stmt(partial[0].node)[:40] if getattr(partial[0], "node", None) is not None else "a slice"}` '
                                  f'of it was written: the remaining entries are stale (left by an earlier, longer block) or uninitialised', construct=f'{rule}::{fn.qual}::partial-buffer-read')
    run.count('reads of partly written np.empty buffers', n)
    return n
