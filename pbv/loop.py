"""R-LOOP: recognition of the EM loop of a mixture trainer from its gated-SSA term graph.

The loop is found from the public `fit` through the call graph (fit itself or the method whose value fit returns),
not by variable names:
    model = None / given model
    for _ in range(iterations):
        if model is not None:  affiliation[, quadratic_form] = <E-step on model>  [; optional aligner]
        model = <M-step>(...)            # the call whose result is bound to the returned variable
    return model
"""
from .model import AnalysisError
from .terms import T, walk_terms
from .walk import call_parts, call_arg, strip_views, unwrap_gamma, const_val, NOVAL

D = 'pb_bss.distribution.'
TRAINERS = {
    'CACGMM': 'cacgmm', 'CWMM': 'cwmm', 'CBMM': 'cbmm', 'GMM': 'gmm', 'VMFMM': 'vmfmm', 'GCACGMM': 'gcacgmm', 'VMFCACGMM': 'vmfcacgmm',
}


class EMLoop:
    pass


def loop_function(A, trainer_cls):
    """the method that contains the EM loop: `fit`, or the method whose result `fit` returns"""
    fit = trainer_cls.methods.get('fit')
    if fit is None:
        raise AnalysisError(f'{trainer_cls.qual}.fit vanished')
    g = A.graphs.get(fit)
    seen = set()
    fn = fit
    while fn is not None and fn.qual not in seen:
        seen.add(fn.qual)
        g = A.graphs.get(fn)
        if g.loops and any(isinstance(a, T) and a.op == 'mu' for a in unwrap_gamma(g.ret)):
            return fn, g
        nxt = None
        for a in unwrap_gamma(g.ret):
            n, pos, kw = call_parts(strip_views(a))
            if n and n.startswith('method:') and pos and pos[0] is g.params.get(g.self_name):
                nxt = trainer_cls.methods.get(n[7:])
        fn = nxt
    raise AnalysisError(f'{trainer_cls.qual}: EM loop not found from fit')


def recognise(A, cname):
    prog = A.prog
    cls = prog.cls(f'{D}{TRAINERS[cname]}::{cname}Trainer')
    fn, g = loop_function(A, cls)
    L = EMLoop()
    L.cname, L.cls, L.fn, L.graph = cname, cls, fn, g
    L.problems = []
    mus = list({a.id: a for a in unwrap_gamma(g.ret) if isinstance(a, T) and a.op == 'mu'}.values())
    others = [a for a in unwrap_gamma(g.ret) if not (isinstance(a, T) and a.op in ('mu', 'raise'))]
    if others or len(mus) != 1:
        # returning something else than the loop-carried model on some path
        L.problems.append(('return', 'the function does not return exactly the loop-carried model variable'))
    if not mus:
        raise AnalysisError(f'{fn.qual}: returned value is not loop carried (EM loop anchor lost)')
    M = mus[0]
    L.model_mu = M
    L.loop = M.extra[0]
    L.model_name = M.extra[1]
    # iteration domain
    it = L.loop.iter
    L.range_ok = False
    if it is not None:
        n, pos, kw = call_parts(it)
        if n == 'builtin.range' and len(pos) == 1:
            a = strip_views(pos[0])
            L.range_ok = a.op == 'param' and a.args[0] == 'iterations'
    # M-step: unconditional call bound to the model variable
    nxt = M.next
    L.m_call = nxt if isinstance(nxt, T) and nxt.op == 'call' else None
    if L.m_call is None:
        L.problems.append(('m-step', f'the model variable is not rebound by one unconditional call per iteration (found {getattr(nxt, "op", None)})'))
        cands = [a for a in unwrap_gamma(nxt)] if isinstance(nxt, T) else []
        calls = [strip_views(a) for a in cands if isinstance(a, T) and strip_views(a).op == 'call']
        if calls:
            L.m_call = calls[0]
    if L.m_call is None:
        raise AnalysisError(f'{fn.qual}: M-step call not found')
    mname = call_parts(L.m_call)[0]
    L.m_name = mname
    same = [e.term for e in L.loop.body_events if e.kind == 'call' and call_parts(e.term)[0] == mname]
    L.m_calls_in_loop = same
    m_events = [e for e in L.loop.body_events if e.kind == 'call' and e.term is L.m_call]
    L.m_event = m_events[0] if m_events else None
    # initial value of the model variable
    L.model_init = M.args[0]
    # E-step: calls on the model variable inside the loop
    L.e_calls = []
    for e in L.loop.body_events:
        if e.kind != 'call':
            continue
        n, pos, kw = call_parts(e.term)
        if n and n.startswith('method:') and pos:
            recv = strip_views(pos[0])
            if recv is M or (recv.op == 'refine' and strip_views(recv.args[0]) is M):
                L.e_calls.append(e)
    # guard of the E-step: exactly `model is not None`
    L.e_guard_ok = []
    for e in L.e_calls:
        inner = [gd for gd in e.guards if not (gd[0].op == 'nondet')]
        ok = False
        if len(inner) >= 1:
            cond, pol = inner[-1] if len(inner) == 1 else inner[0]
            # the innermost non-loop guard that mentions the model must be `model is not None`
            for cond, pol in inner:
                if cond.op == 'cmp' and strip_views(cond.args[1]) is M and cond.args[2].op == 'const' and cond.args[2].args[0] is None:
                    ok = (cond.args[0] == 'IsNot' and pol) or (cond.args[0] == 'Is' and not pol)
            extra = [gd for gd in inner if not (gd[0].op == 'cmp' and strip_views(gd[0].args[1]) is M)]
            if extra:
                ok = False
        L.e_guard_ok.append(ok)
    return L


def m_step_arg(L, name=None, pos=None):
    n, p, kw = call_parts(L.m_call)
    if name is not None and name in kw:
        return kw[name]
    if pos is not None and pos < len(p):
        return p[pos]
    return None


def value_sources(t, stop_mu=None, depth=0, seen=None):
    """leaf alternatives of a loop-carried value: follows gamma, mu (init and next), refine; returns list of terms"""
    seen = seen if seen is not None else set()
    out = []
    stack = [t]
    while stack:
        x = stack.pop()
        if not isinstance(x, T) or x.id in seen:
            continue
        seen.add(x.id)
        x2 = x
        if x2.op == 'refine':
            stack.append(x2.args[0])
        elif x2.op == 'gamma':
            stack.append(x2.args[1])
            stack.append(x2.args[2])
        elif x2.op == 'mu':
            stack.append(x2.args[0])
            if x2.next is not None:
                stack.append(x2.next)
        else:
            out.append(x2)
    return out
