"""R-LOOP: recognition of the EM loop of a mixture trainer from its gated-SSA term graph.

The loop is found from the public `fit` through the call graph (fit itself or the method whose value fit returns),
not by variable names:
    model = None / given model
    for _ in range(iterations):
        if model is not None:  affiliation[, quadratic_form] = <E-step on model>  [; optional aligner]
        model = <M-step>(...)            # the call whose result is bound to the returned variable
    return model
"""
from .model import AnalysisError
from .terms import T, walk_terms
from .walk import call_parts, call_arg, strip_views, unwrap_gamma, const_val, NOVAL

D = 'pb_bss.distribution.'
TRAINERS = {
    'CACGMM': 'cacgmm', 'CWMM': 'cwmm', 'CBMM': 'cbmm', 'GMM': 'gmm', 'VMFMM': 'vmfmm', 'GCACGMM': 'gcacgmm', 'VMFCACGMM': 'vmfcacgmm',
}


class EMLoop:
    pass


def loop_function(A, trainer_cls):
    """the method that contains the EM loop: `fit`, or the method whose result `fit` returns"""
    fit = trainer_cls.methods.get('fit')
    if fit is None:
        raise AnalysisError(f'{trainer_cls.qual}.fit vanished')
    g = A.graphs.get(fit)
    seen = set()
    fn = fit
    while fn is not None and fn.qual not in seen:
        seen.add(fn.qual)
        g = A.graphs.get(fn)
        if g.loops and any(isinstance(a, T) and a.op == 'mu' for a in unwrap_gamma(g.ret)):
            return fn, g
        nxt = None
        for a in unwrap_gamma(g.ret):
            n, pos, kw = call_parts(strip_views(a))
            if n and n.startswith('method:') and pos and pos[0] is g.params.get(g.self_name):
                nxt = trainer_cls.methods.get(n[7:])
        fn = nxt
    raise AnalysisError(f'{trainer_cls.qual}: EM loop not found from fit')


def recognise(A, cname):
    prog = A.prog
    cls = prog.cls(f'{D}{TRAINERS[cname]}::{cname}Trainer')
    fn, g = loop_function(A, cls)
    L = EMLoop()
    L.cname, L.cls, L.fn, L.graph = cname, cls, fn, g
    L.problems = []
    mus = list({a.id: a for a in unwrap_gamma(g.ret) if isinstance(a, T) and a.op == 'mu'}.values())
    others = [a for a in unwrap_gamma(g.ret) if not (isinstance(a, T) and a.op in ('mu', 'raise'))]
    if others or len(mus) != 1:
        # returning something else than the loop-carried model on some path
        L.problems.append(('return', 'the function does not return exactly the loop-carried model variable'))
    if not mus:
        raise AnalysisError(f'{fn.qual}: returned value is not loop carried (EM loop anchor lost)')
    M = mus[0]
    L.model_mu = M
    L.loop = M.extra[0]
    L.model_name = M.extra[1]
    # iteration domain
    it = L.loop.iter
    L.range_ok = False
    if it is not None:
        n, pos, kw = call_parts(it)
        if n == 'builtin.range' and len(pos) == 1:
            a = strip_views(pos[0])
            L.range_ok = a.op == 'param' and a.args[0] == 'iterations'
        if not L.range_ok:
            # another spelling of the same count: reversed(range(iterations)), range(1, iterations + 1), ... decided by evaluation; None = not followed
            from .inteval import trip_count_is
            tc = trip_count_is(it, 'iterations')
            if tc is not None:
                L.range_ok = tc
            elif not (n == 'builtin.range' and len(pos) == 1):
                L.range_ok = None          # range(<something else>) stays a deviation; an iterable of another kind is not followed
    # M-step: unconditional call bound to the model variable
    nxt = M.next
    L.m_call = nxt if isinstance(nxt, T) and nxt.op == 'call' else None
    if L.m_call is None:
        L.problems.append(('m-step', f'the model variable is not rebound by one unconditional call per iteration (found {getattr(nxt, "op", None)})'))
        cands = [a for a in unwrap_gamma(nxt)] if isinstance(nxt, T) else []
        calls = [strip_views(a) for a in cands if isinstance(a, T) and strip_views(a).op == 'call']
        if calls:
            L.m_call = calls[0]
    if L.m_call is None:
        raise AnalysisError(f'{fn.qual}: M-step call not found')
    mname = call_parts(L.m_call)[0]
    L.m_name = mname
    same = [e.term for e in L.loop.body_events if e.kind == 'call' and call_parts(e.term)[0] == mname]
    L.m_calls_in_loop = same
    m_events = [e for e in L.loop.body_events if e.kind == 'call' and e.term is L.m_call]
    L.m_event = m_events[0] if m_events else None
    # initial value of the model variable
    L.model_init = M.args[0]
    # E-step: calls on the model variable inside the loop
    L.e_calls = []
    for e in L.loop.body_events:
        if e.kind != 'call':
            continue
        n, pos, kw = call_parts(e.term)
        if n and n.startswith('method:') and pos:
            recv = strip_views(pos[0])
            if recv is M or (recv.op == 'refine' and strip_views(recv.args[0]) is M):
                L.e_calls.append(e)
    # peeled form: the first M-step (on the initial affiliation) stands in front of the loop, which then runs range(1, iterations) with an
    # unconditional E-step:   model = m_step(init);  for _ in range(1, iterations): aff = e_step(model); model = m_step(aff)
    L.peeled = False
    mi = strip_views(L.model_init)
    if isinstance(mi, T) and mi.op == 'call' and call_parts(mi)[0] == mname and it is not None:
        n_, pos_, kw_ = call_parts(it)
        tail_of_range = False
        it0 = strip_views(it)
        if it0.op == 'sub' and strip_views(it0.args[1]).op == 'slice':
            # range(iterations)[1:]
            sl = strip_views(it0.args[1])
            rn, rpos, rkw = call_parts(strip_views(it0.args[0]))
            tail_of_range = const_val(sl.args[0]) == 1 and const_val(sl.args[1]) is None and const_val(sl.args[2]) is None and rn == 'builtin.range' and len(rpos) == 1 \
                and strip_views(rpos[0]).op == 'param' and strip_views(rpos[0]).args[0] == 'iterations'
        if tail_of_range or (n_ == 'builtin.range' and len(pos_) == 2 and const_val(strip_views(pos_[0])) == 1 and strip_views(pos_[1]).op == 'param' and strip_views(pos_[1]).args[0] == 'iterations'):
            L.peeled = True
            L.range_ok = True
            L.first_m_call = mi
            if others and all(isinstance(x, T) and x.op == 'const' and x.args[0] is None for x in others) and len(mus) == 1:
                L.problems = [p for p in L.problems if p[0] != 'return']       # `if iterations < 1: return None` in front
    # guard of the E-step: exactly "a model exists" (`model is not None`, or the equivalent test on the running index); none in the peeled form
    L.e_guard_ok = []
    for e in L.e_calls:
        inner = inner_guards(L, e)
        tests = [later_iteration_test(L, c, p) for c, p in inner]
        if L.peeled:
            ok = not inner
        else:
            ok = bool(inner) and any(r is True for r in tests) and all(r is True for r in tests)
        L.e_guard_ok.append(ok)
    return L


def inner_guards(L, e):
    """the conditions an event of the loop body runs under INSIDE the loop (guards that enclose the whole loop do not count)"""
    gs = list(e.guards)
    for i, (c, _) in enumerate(gs):
        if c.op == 'nondet' and getattr(c, 'node', None) is L.loop.node:
            gs = gs[i + 1:]
            break
    return [gd for gd in gs if gd[0].op != 'nondet']


def m_step_arg(L, name=None, pos=None):
    n, p, kw = call_parts(L.m_call)
    if name is not None and name in kw:
        return kw[name]
    if pos is not None and pos < len(p):
        return p[pos]
    return None


def m_step_arg_of(call, name):
    n, p, kw = call_parts(call)
    if name in kw:
        return kw[name]
    return None


def value_sources(t, stop_mu=None, depth=0, seen=None):
    """leaf alternatives of a loop-carried value: follows gamma, mu (init and next), refine; returns list of terms"""
    seen = seen if seen is not None else set()
    out = []
    stack = [t]
    while stack:
        x = stack.pop()
        if not isinstance(x, T) or x.id in seen:
            continue
        seen.add(x.id)
        x2 = x
        if x2.op == 'refine':
            stack.append(x2.args[0])
        elif x2.op == 'gamma':
            stack.append(x2.args[1])
            stack.append(x2.args[2])
        elif x2.op == 'mu':
            stack.append(x2.args[0])
            if x2.next is not None:
                stack.append(x2.next)
        else:
            out.append(x2)
    return out


def later_iteration_test(L, cond, pol=True):
    """does the guard (cond == pol) mean "an earlier iteration has produced a model" for the EM loop L?
         model is not None                      (the model variable starts as None and is rebound once per iteration)
         iteration > 0 | iteration >= 1 | iteration != 0 | not iteration == 0
    -> True (later iterations) / False (first iteration) / None (another condition)"""
    from .walk import cond_polarity, loop_role
    cond, pol = cond_polarity(cond, pol)
    if not (isinstance(cond, T) and cond.op == 'cmp'):
        return None
    op, a, b = cond.args
    sa, sb = strip_views(a), strip_views(b)
    if op in ('Is', 'IsNot', 'Eq', 'NotEq') and (const_val(sb) is None or const_val(sa) is None):
        x = sa if const_val(sb) is None else sb
        if x is L.model_mu:
            is_none = pol if op in ('Is', 'Eq') else not pol
            return not is_none
        return None
    # tests on the running index: only meaningful if the model really is None exactly in the first iteration
    inits = [strip_views(x) for x in unwrap_gamma(L.model_init)]
    if not all(x.op == 'const' and x.args[0] is None for x in inits) or L.problems:
        return None
    ra, rb = loop_role(a, L.loop), loop_role(b, L.loop)
    if ra is not None and ra[0] == 'index' and const_val(sb) is not NOVAL:
        k = const_val(sb)
    elif rb is not None and rb[0] == 'index' and const_val(sa) is not NOVAL:
        k = const_val(sa)
        op = {'Gt': 'Lt', 'Lt': 'Gt', 'GtE': 'LtE', 'LtE': 'GtE'}.get(op, op)
    else:
        return None
    it = strip_views(L.loop.iter)
    if not (call_parts(it)[0] == 'builtin.range' and len(call_parts(it)[1]) == 1):
        return None
    table = {('Gt', 0): True, ('GtE', 1): True, ('NotEq', 0): True, ('Eq', 0): False, ('Lt', 1): False, ('LtE', 0): False}
    r = table.get((op, k))
    if r is None:
        return None
    return r if pol else not r


def split_by_iteration(L, t):
    """t == gamma(<later-iteration test>, A, B) -> (value in later iterations, value in the first iteration) or None"""
    t = strip_views(t)
    if not (isinstance(t, T) and t.op == 'gamma'):
        return None
    r = later_iteration_test(L, t.args[0], True)
    if r is None:
        return None
    return (t.args[1], t.args[2]) if r else (t.args[2], t.args[1])
