"""Gated-SSA style term graphs for the functions of the program model.

Each function body is translated -- by a syntax-directed walk over the statement
kinds the repository uses -- into a DAG of terms:

  * every use of a name refers to the *definition* that reaches it (no names left),
  * control-flow joins are explicit ``gamma(cond, then, else)`` nodes,
  * loop-carried values are ``mu(init, next)`` nodes,
  * the return value of the function is one gamma tree over all ``return`` sites,
  * side effects (calls, in-place updates, attribute / subscript stores, asserts,
    raises, global writes) are recorded as *events* together with the branch
    conditions (guards) and loops that enclose them.

This is plain dataflow (reaching definitions in SSA form); no path is executed
and no solver is involved.  Abstract domains are evaluated over these graphs by
``absint.Evaluator``; structural rules pattern-match on them.
"""
import ast
import itertools

from .model import Func, Cls, Mod, Lib

_ids = itertools.count(1)

BUILTINS = {
    'len', 'range', 'list', 'tuple', 'dict', 'set', 'int', 'float', 'str', 'bool', 'complex',
    'isinstance', 'issubclass', 'getattr', 'setattr', 'hasattr', 'zip', 'enumerate', 'sorted', 'reversed',
    'sum', 'min', 'max', 'abs', 'all', 'any', 'print', 'iter', 'next', 'type', 'slice', 'map', 'filter',
    'super', 'id', 'hash', 'repr', 'round', 'pow', 'divmod', 'object', 'vars', 'dir', 'callable', 'open',
    'ValueError', 'TypeError', 'NotImplementedError', 'AssertionError', 'RuntimeError', 'IndexError',
    'AttributeError', 'KeyError', 'Exception', 'StopIteration', 'ImportError', 'ModuleNotFoundError',
    'UserWarning', 'NotImplemented', 'Ellipsis', 'frozenset', 'bytes', 'input', 'format', 'property',
    'staticmethod', 'classmethod', 'ZeroDivisionError', 'OverflowError', 'FloatingPointError', 'LookupError', 'ArithmeticError', 'OSError', 'IOError',
    'UnboundLocalError', 'NameError', 'RecursionError', 'MemoryError', 'BaseException', 'Warning', 'DeprecationWarning', 'RuntimeWarning', 'FutureWarning',
}


class T:
    """A term.  Identity (``id``) is per construction site; ``node`` is the ast node."""
    __slots__ = ('op', 'args', 'node', 'fn', 'id', 'next', 'extra')

    def __init__(self, op, args=(), node=None, fn=None):
        self.op, self.args, self.node, self.fn = op, tuple(args), node, fn
        self.id = next(_ids)
        self.next = None     # back-edge value of a mu node
        self.extra = None

    def __repr__(self):
        return show(self, 3)

    @property
    def lineno(self):
        return getattr(self.node, 'lineno', None)


def show(t, depth=4):
    if not isinstance(t, T):
        return repr(t)
    if depth <= 0:
        return '…'
    op, a = t.op, t.args
    d = depth - 1
    if op == 'const':
        return repr(a[0])
    if op == 'param':
        return f'${a[0]}'
    if op == 'ref':
        o = a[0]
        if isinstance(o, Lib):
            return o.dotted
        if isinstance(o, (Func, Cls)):
            return o.qual.split('::')[1]
        if isinstance(o, Mod):
            return o.name
        return str(o)
    if op == 'attr':
        return f'{show(a[0], d)}.{a[1]}'
    if op == 'call':
        args = [show(x, d) for x in a[1]] + [f'{k}={show(v, d)}' if k else f'**{show(v, d)}' for k, v in a[2]]
        return f'{show(a[0], d)}({", ".join(args)})'
    if op in ('binop', 'iop', 'cmp'):
        return f'({show(a[1], d)} {a[0]}{"=" if op == "iop" else ""} {show(a[2], d)})'
    if op == 'unop':
        return f'{a[0]}{show(a[1], d)}'
    if op == 'sub':
        return f'{show(a[0], d)}[{show(a[1], d)}]'
    if op in ('tuple', 'list', 'set'):
        return f'{op}({", ".join(show(x, d) for x in a[0])})'
    if op == 'gamma':
        return f'γ({show(a[0], d)} ? {show(a[1], d)} : {show(a[2], d)})'
    if op == 'mu':
        return f'μ{t.id}({show(a[0], d)})'
    if op == 'slice':
        return ':'.join('' if (isinstance(x, T) and x.op == 'const' and x.args[0] is None) else show(x, d) for x in a)
    return f'{op}<{", ".join(show(x, d) for x in a)}>'


def const(v, node=None, fn=None):
    return T('const', (v,), node, fn)


class Event:
    __slots__ = ('kind', 'term', 'node', 'guards', 'loops', 'data', 'seq')

    def __init__(self, kind, term, node, guards, loops, data=None, seq=0):
        self.kind, self.term, self.node = kind, term, node
        self.guards, self.loops, self.data, self.seq = tuple(guards), tuple(loops), data, seq

    def __repr__(self):
        return f'Event({self.kind}, {show(self.term, 2)}, line {getattr(self.node, "lineno", "?")})'


class Loop:
    def __init__(self, node, kind):
        self.node, self.kind = node, kind
        self.id = next(_ids)
        self.iter = None
        self.mus = {}          # name -> mu term
        self.breaks, self.continues = [], []
        self.body_events = []


NEGATED_CMP = {'IsNot': 'Is', 'NotEq': 'Eq', 'NotIn': 'In'}
UFUNC_BINOP = {'numpy.multiply': 'Mult', 'numpy.add': 'Add', 'numpy.subtract': 'Sub', 'numpy.divide': 'Div', 'numpy.true_divide': 'Div',
               'numpy.power': 'Pow', 'numpy.floor_divide': 'FloorDiv', 'numpy.matmul': 'MatMult'}
_KNOWN = None


def known_funcs():
    global _KNOWN
    if _KNOWN is None:
        import json
        import pathlib
        _KNOWN = frozenset(json.loads((pathlib.Path(__file__).parent / 'known_funcs.json').read_text()))
    return _KNOWN


UFUNC_CMP = {'numpy.greater': 'Gt', 'numpy.less': 'Lt', 'numpy.greater_equal': 'GtE', 'numpy.less_equal': 'LtE', 'numpy.equal': 'Eq',
             'operator.gt': 'Gt', 'operator.lt': 'Lt', 'operator.ge': 'GtE', 'operator.le': 'LtE', 'operator.eq': 'Eq'}
OPERATOR_BINOP = {'operator.mul': 'Mult', 'operator.add': 'Add', 'operator.sub': 'Sub', 'operator.truediv': 'Div', 'operator.pow': 'Pow', 'operator.matmul': 'MatMult'}


def depth_ok(f, depth=0):
    """a callee chosen by a (shallow) conditional: gamma tree whose leaves are references"""
    if depth > 12:
        return False
    if f.op == 'gamma':
        return depth_ok(f.args[1], depth + 1) and depth_ok(f.args[2], depth + 1)
    return f.op in ('ref', 'attr', 'closure', 'partial') or (depth > 0 and ((f.op == 'unknown' and f.args == ('keyerror',)) or (f.op == 'const' and f.args[0] is None)))


class _UnrolledStep(ast.stmt):
    """one element of a `for` loop over a short display that is written out (FuncGraph.st_For)"""
    _fields = ()

    def __init__(self, target, item, body, origin):
        super().__init__()
        self.target, self.item, self.body, self.origin = target, item, body, origin
        self.lineno, self.col_offset = getattr(origin, 'lineno', 0), getattr(origin, 'col_offset', 0)
        self.end_lineno, self.end_col_offset = getattr(origin, 'end_lineno', 0), getattr(origin, 'end_col_offset', 0)


FALL = T('fall')
RAISE = T('raise')
UNDEF = T('undef')
NONDET = 'nondet'



RANK_PRESERVING = ('numpy.transpose', 'numpy.swapaxes', 'numpy.moveaxis', 'numpy.rollaxis', 'numpy.conj', 'numpy.conjugate', 'numpy.copy', 'numpy.asarray', 'numpy.ascontiguousarray',
                   'numpy.abs', 'numpy.absolute', 'numpy.real', 'numpy.imag', 'numpy.exp', 'numpy.log', 'numpy.sqrt', 'numpy.negative', 'numpy.flip', 'numpy.sort', 'numpy.nan_to_num')
RANK_PRESERVING_METHODS = ('transpose', 'swapaxes', 'conj', 'conjugate', 'copy', 'astype')


def _rank_root(t, depth=0):
    """the value whose number of axes t has by construction (transposes, element-wise functions and copies do not change it)"""
    while isinstance(t, T) and depth < 40:
        depth += 1
        if t.op == 'refine':
            t = t.args[0]
        elif t.op == 'attr' and t.args[1] in ('T', 'real', 'imag'):
            t = t.args[0]
        elif t.op == 'call' and t.args[0].op == 'ref' and isinstance(t.args[0].args[0], Lib) and t.args[0].args[0].dotted in RANK_PRESERVING and t.args[1] \
                and not any(k == 'ndmin' for k, _ in t.args[2]):
            t = t.args[1][0]
        elif t.op == 'call' and t.args[0].op == 'attr' and t.args[0].args[1] in RANK_PRESERVING_METHODS and t.args[0].args[0].op != 'ref':
            t = t.args[0].args[0]
        elif t.op == 'gamma':
            a, b = _rank_root(t.args[1], depth), _rank_root(t.args[2], depth)
            if a is b:
                t = a
            else:
                break
        else:
            break
    return t


def _display_item(t):
    """row, col = a, b: a name bound by unpacking a display is that item (the builder keeps `unpack<(a, b), i, 2>` for such targets)"""
    for _ in range(3):
        if isinstance(t, T) and t.op == 'unpack' and isinstance(t.args[0], T) and t.args[0].op in ('tuple', 'list') and t.args[3] is None \
                and len(t.args[0].args[0]) == t.args[2] and not any(x.op == 'star' for x in t.args[0].args[0]):
            t = t.args[0].args[0][t.args[1]]
        else:
            break
    return t


def _stores(node, name):
    return any(isinstance(x, ast.Name) and x.id == name and isinstance(x.ctx, (ast.Store, ast.Del)) for x in ast.walk(node))


def _loads(node, name):
    return any(isinstance(x, ast.Name) and x.id == name and isinstance(x.ctx, ast.Load) for x in ast.walk(node))


def _own_continue(body):
    """a `continue` that belongs to this loop (not to a nested one)"""
    def rec(node):
        if isinstance(node, ast.Continue):
            return True
        if isinstance(node, (ast.For, ast.While, ast.FunctionDef, ast.Lambda, ast.ClassDef)):
            return False
        return any(rec(c) for c in ast.iter_child_nodes(node))
    return any(rec(st) for st in body)


def _counting_loops_as_for(stmts):
    """`i = a; while i < n: BODY; i += 1`  ->  `for i in range(a, n): BODY`   (and the count-down form with `i -= 1`, `i >= b` / `i > b`;
    the increment may stand anywhere at the top level of the body when `i` is read only before or only after it)
    when `i` is not otherwise assigned in BODY, BODY has no `continue` of its own, the bound is not assigned in BODY and `i` is not read
    after the loop.  The loop forms are one canonical construct for every rule about loops (running index, extent, iteration order)."""
    out = list(stmts)
    changed = False
    for k, st in enumerate(out):
        if not (isinstance(st, ast.While) and not st.orelse and isinstance(st.test, ast.Compare) and len(st.test.ops) == 1 and st.body):
            continue
        left, op, right = st.test.left, st.test.ops[0], st.test.comparators[0]
        if isinstance(left, ast.Name) and isinstance(op, (ast.Lt, ast.GtE, ast.Gt)):
            var, bound, opn = left.id, right, type(op).__name__
        elif isinstance(right, ast.Name) and isinstance(op, (ast.Gt, ast.LtE, ast.Lt)):
            var, bound, opn = right.id, left, {'Gt': 'Lt', 'LtE': 'GtE', 'Lt': 'Gt'}[type(op).__name__]
        else:
            continue

        def is_step(b):
            if isinstance(b, ast.AugAssign) and isinstance(b.target, ast.Name) and b.target.id == var and isinstance(b.value, ast.Constant) and b.value.value == 1 \
                    and isinstance(b.op, (ast.Add, ast.Sub)):
                return 1 if isinstance(b.op, ast.Add) else -1
            if isinstance(b, ast.Assign) and len(b.targets) == 1 and isinstance(b.targets[0], ast.Name) and b.targets[0].id == var and isinstance(b.value, ast.BinOp) \
                    and isinstance(b.value.left, ast.Name) and b.value.left.id == var and isinstance(b.value.right, ast.Constant) and b.value.right.value == 1 \
                    and isinstance(b.value.op, (ast.Add, ast.Sub)):
                return 1 if isinstance(b.value.op, ast.Add) else -1
            return None
        steps = [(j, is_step(b)) for j, b in enumerate(st.body) if is_step(b) is not None]
        if len(steps) != 1:
            continue
        at, step = steps[0]
        if (step == 1) != (opn == 'Lt'):
            continue
        pre, post = st.body[:at], st.body[at + 1:]
        reads_pre, reads_post = any(_loads(b, var) for b in pre), any(_loads(b, var) for b in post)
        if reads_pre and reads_post:
            continue
        shift = step if reads_post else 0          # statements after the increment see the next value
        body = pre + post
        if not body or any(_stores(b, var) for b in body) or _own_continue(body):
            continue
        if any(isinstance(n, ast.Name) and any(_stores(b, n.id) for b in body) for n in ast.walk(bound)):
            continue
        if any(_loads(later, var) for later in out[k + 1:]):
            continue
        init = None
        for prev in reversed(out[:k]):
            if _stores(prev, var):
                if isinstance(prev, ast.Assign) and len(prev.targets) == 1 and isinstance(prev.targets[0], ast.Name) and prev.targets[0].id == var:
                    init = prev.value
                break
        if init is None:
            continue
        loc = dict(lineno=st.lineno, col_offset=st.col_offset, end_lineno=getattr(st, 'end_lineno', st.lineno), end_col_offset=getattr(st, 'end_col_offset', 0))

        def plus(x, d):
            if d == 0:
                return x
            if isinstance(x, ast.Constant) and isinstance(x.value, int) and not isinstance(x.value, bool):
                return ast.Constant(x.value + d, **loc)
            return ast.BinOp(left=x, op=ast.Add() if d > 0 else ast.Sub(), right=ast.Constant(abs(d), **loc), **loc)
        if step == 1:
            lo, hi = plus(init, shift), plus(bound, shift)
            args = [hi] if (isinstance(lo, ast.Constant) and lo.value == 0 and not isinstance(lo.value, bool)) else [lo, hi]
        else:
            stop = plus(bound, -1) if opn == 'GtE' else bound
            args = [plus(init, shift), plus(stop, shift), ast.Constant(-1, **loc)]
        rng = ast.Call(func=ast.Name(id='range', ctx=ast.Load(), **loc), args=args, keywords=[], **loc)
        out[k] = ast.For(target=ast.Name(id=var, ctx=ast.Store(), **loc), iter=rng, body=body, orelse=[], type_comment=None, **loc)
        changed = True
    return out if changed else stmts


class _ModScope:
    """name-resolution scope of a module (used while a module-level constant expression is built inside a function graph)"""
    def __init__(self, mod):
        self.mod = mod
        self.cls = None


class FuncGraph:
    """Term graph of one function."""

    def __init__(self, prog, fn, closure_env=None):
        self.prog, self.fn = prog, fn
        self.events = []
        self.loops = []
        self.params = {}
        self.unknown_stmts = []
        self.self_name = None
        self._guards, self._loops = [], []
        self._seq = 0
        self.closure_env = closure_env or {}
        self.shape_decl = {}
        self.cur_fn = fn            # function whose scope resolves global names (differs from fn while a helper is inlined)
        self._inline_stack = []
        self._inline_exits = []
        self.inlined = []           # (helper Func, call node) of helpers inlined into this graph
        env = {}
        for i, p in enumerate(fn.params):
            env[p] = self.params[p] = T('param', (p,), fn.node, fn)
        if fn.vararg:
            env[fn.vararg] = self.params['*' + fn.vararg] = T('param', ('*' + fn.vararg,), fn.node, fn)
        if fn.kwarg:
            env[fn.kwarg] = self.params['**' + fn.kwarg] = T('param', ('**' + fn.kwarg,), fn.node, fn)
        if fn.cls is not None and not fn.is_static and (fn.posonly + fn.args):
            self.self_name = (fn.posonly + fn.args)[0]
        self.entry_env = dict(env)
        env_out, ret = self.block(fn.node.body, env)
        self.exit_env = env_out
        self.ret = subst_fall(ret, const(None, fn.node, fn))
        self.returns = [e for e in self.events if e.kind == 'return']

    # ------------------------------------------------------------------ events
    def event(self, kind, term, node, data=None):
        self._seq += 1
        e = Event(kind, term, node, self._guards, [l.id for l in self._loops], data, self._seq)
        self.events.append(e)
        return e

    ELEMENTWISE_CALLS = ('numpy.abs', 'numpy.absolute', 'numpy.conj', 'numpy.conjugate', 'numpy.exp', 'numpy.log', 'numpy.sqrt', 'numpy.square', 'numpy.real', 'numpy.imag',
                         'numpy.angle', 'numpy.cos', 'numpy.sin', 'numpy.negative', 'numpy.log10', 'numpy.sign')

    def _drop_explicit_broadcast(self, op, args, node):
        """y / np.broadcast_to(n, y.shape) is y / n (also with the broadcast under |.|, + eps, ...): inside one elementwise expression that contains the array y itself, an
        operand that was explicitly broadcast to the shape of y takes part with the same values as the operand it was broadcast from"""
        def leaves(t, depth=0):
            # (leaf, path) for the leaves reached through elementwise operations
            if not isinstance(t, T) or depth > 6:
                return
            if t.op in ('binop', 'iop') and t.args[0] in ('Add', 'Sub', 'Mult', 'Div', 'Pow'):
                yield from leaves(t.args[1], depth + 1)
                yield from leaves(t.args[2], depth + 1)
            elif t.op == 'call' and t.args[0].op == 'ref' and isinstance(t.args[0].args[0], Lib) and t.args[0].args[0].dotted in self.ELEMENTWISE_CALLS and len(t.args[1]) == 1 \
                    and not t.args[2] and t.args[1][0].op != 'star':
                yield from leaves(t.args[1][0], depth + 1)
            elif t.op == 'refine':
                yield from leaves(t.args[0], depth + 1)
            else:
                yield t

        def shape_owner(shp):
            # y.shape / np.shape(y)  ->  y
            if shp.op == 'attr' and shp.args[1] == 'shape':
                return shp.args[0]
            if shp.op == 'call' and shp.args[0].op == 'ref' and isinstance(shp.args[0].args[0], Lib) and shp.args[0].args[0].dotted == 'numpy.shape' and len(shp.args[1]) == 1 \
                    and not shp.args[2]:
                return shp.args[1][0]
            return None

        def base(x):
            while isinstance(x, T) and x.op == 'refine':
                x = x.args[0]
            return x
        all_leaves = [l for a in args[1:] for l in leaves(a)]
        targets = {}
        for l in all_leaves:
            if l.op == 'call' and l.args[0].op == 'ref' and isinstance(l.args[0].args[0], Lib) and l.args[0].args[0].dotted == 'numpy.broadcast_to' and len(l.args[1]) == 2 \
                    and not l.args[2] and not any(a.op == 'star' for a in l.args[1]):
                owner = shape_owner(l.args[1][1])
                if owner is not None and any(base(m) is base(owner) for m in all_leaves if m is not l):
                    targets[l.id] = l.args[1][0]
        if not targets:
            return None

        def rebuild(t, depth=0):
            if not isinstance(t, T) or depth > 6:
                return t
            if t.id in targets:
                self.events[:] = [ev for ev in self.events if ev.term is not t]
                return targets[t.id]
            if t.op in ('binop', 'iop') and t.args[0] in ('Add', 'Sub', 'Mult', 'Div', 'Pow'):
                a, b = rebuild(t.args[1], depth + 1), rebuild(t.args[2], depth + 1)
                if a is t.args[1] and b is t.args[2]:
                    return t
                return T(t.op, (t.args[0], a, b), t.node, self.fn)
            if t.op == 'call' and t.args[0].op == 'ref' and isinstance(t.args[0].args[0], Lib) and t.args[0].args[0].dotted in self.ELEMENTWISE_CALLS and len(t.args[1]) == 1 \
                    and not t.args[2]:
                a = rebuild(t.args[1][0], depth + 1)
                if a is t.args[1][0]:
                    return t
                new = T('call', (t.args[0], (a,), ()), t.node, self.fn)
                for ev in self.events:
                    if ev.term is t:
                        ev.term = new
                return new
            if t.op == 'refine':
                a = rebuild(t.args[0], depth + 1)
                return t if a is t.args[0] else T('refine', (a,) + tuple(t.args[1:]), t.node, self.fn)
            return t
        return (args[0], rebuild(args[1]), rebuild(args[2]))

    def mk(self, op, args, node):
        if op in ('binop', 'iop') and len(args) == 3 and args[0] in ('Add', 'Sub', 'Mult', 'Div', 'Pow') and isinstance(args[1], T) and isinstance(args[2], T):
            dropped = self._drop_explicit_broadcast(op, args, node)
            if dropped is not None:
                args = dropped
        if op == 'gamma' and len(args) == 3:
            r = self._neutral_element_fast_path(*args)
            if r is None:
                r = self._normalised_axis(*args)
            if r is not None:
                return r
        return T(op, args, node, self.fn)

    def _normalised_axis(self, c, a, b):
        """`axis + x.ndim if axis < 0 else axis` (also with the lower bound `-x.ndim <= axis` in the test) names the same axis as `axis`: an axis counted from the front
        instead of from the back"""
        if not (isinstance(c, T) and isinstance(a, T) and isinstance(b, T)):
            return None
        def base(x):
            while isinstance(x, T) and x.op == 'refine':
                x = x.args[0]
            return x
        tests, todo = [], [c]
        while todo:
            t_ = todo.pop()
            if isinstance(t_, T) and t_.op == 'bool' and t_.args[0] == 'And':
                todo.extend(t_.args[1])
            elif isinstance(t_, T):
                tests.append(t_)
        ax = base(b)
        if not (a.op == 'binop' and a.args[0] == 'Add'):
            return None
        for u, v in ((a.args[1], a.args[2]), (a.args[2], a.args[1])):
            if base(u) is ax and self._rank_source(v) is not None:
                for t_ in tests:
                    # axis < 0, or the chained  -ndim <= axis < 0  (a conjunction of two comparisons)
                    if t_.op == 'cmp' and t_.args[0] == 'Lt' and base(t_.args[1]) is ax and t_.args[2].op == 'const' and t_.args[2].args[0] == 0:
                        return b
        return None

    @staticmethod
    def _neutral_element_fast_path(c, a, b):
        """`x if f == 1 else f * x` (also with further conjuncts in the test, with `!=` and the arms exchanged, for `** 1`, `+ 0`, `- 0`) is `f * x`: skipping an operation
        with its neutral element is a matter of speed, not of the value"""
        if not (isinstance(c, T) and isinstance(a, T) and isinstance(b, T)):
            return None
        tests = list(c.args[1]) if c.op == 'bool' and c.args[0] == 'And' else [c]
        for polarity, plain, computed in ((True, a, b), (False, b, a)):
            if c.op == 'bool' and not polarity:
                continue              # not (p and q) does not fix q
            if computed.op not in ('binop',) or computed.args[0] not in ('Mult', 'Pow', 'Add', 'Sub', 'Div'):
                continue
            opn, u, v = computed.args
            neutral = 1 if opn in ('Mult', 'Pow', 'Div') else 0
            for f_, x_ in ((u, v), (v, u)):
                if x_ is not plain or (opn in ('Pow', 'Sub', 'Div') and f_ is not v):
                    continue
                for t_ in tests:
                    if t_.op == 'cmp' and t_.args[0] == ('Eq' if polarity else 'NotEq'):
                        l_, r_ = t_.args[1], t_.args[2]
                        for p_, q_ in ((l_, r_), (r_, l_)):
                            if p_ is f_ and q_.op == 'const' and isinstance(q_.args[0], (int, float)) and not isinstance(q_.args[0], bool) and q_.args[0] == neutral:
                                return computed
        return None

    # ------------------------------------------------------------------ blocks
    def block(self, stmts, env):
        """returns (env_out | None if every path terminated, ret gamma-tree with FALL leaves)"""
        stmts = _counting_loops_as_for(stmts)
        for i, s in enumerate(stmts):
            r = self.stmt(s, env)
            if r is None:
                continue
            kind = r[0]
            if kind == 'term':       # return / raise / break / continue
                return None, r[1]
            if kind == 'seq':        # (env after the statement, returns so far with FALL leaves = "goes on")
                _, env_b, ret_b = r
                if env_b is not env:
                    env.clear()
                    env.update(env_b)
                rest_env, rest_ret = self.block(stmts[i + 1:], env)
                return rest_env, subst_fall(ret_b, rest_ret)
            if kind == 'branch':     # (cond, env_t, ret_t, env_f, ret_f)
                _, cond, env_t, ret_t, env_f, ret_f = r
                merged = self.merge(cond, env_t, env_f)
                if merged is None:
                    rest_env, rest_ret = None, FALL
                else:
                    env.clear()
                    env.update(merged)
                    # one arm left the function / loop: what follows runs under the other arm's condition
                    g = (cond, False) if env_t is None and env_f is not None else (cond, True) if env_f is None and env_t is not None else None
                    if g is not None:
                        self._guards.append(g)
                    try:
                        rest_env, rest_ret = self.block(stmts[i + 1:], env)
                    finally:
                        if g is not None:
                            self._guards.pop()
                if ret_t is FALL and ret_f is FALL:
                    return rest_env, rest_ret
                ret = self.mk('gamma', (cond, subst_fall(ret_t, rest_ret), subst_fall(ret_f, rest_ret)), s)
                return rest_env, ret
        return env, FALL

    def merge(self, cond, a, b):
        if a is None:
            return None if b is None else dict(b)
        if b is None:
            return dict(a)
        out = {}
        for k in set(a) | set(b):
            va, vb = a.get(k, UNDEF), b.get(k, UNDEF)
            if va is vb:
                out[k] = va
            else:
                out[k] = self.mk('gamma', (cond, va, vb), None)
        return out

    def nondet(self, node, tag='nondet'):
        return self.mk('nondet', (tag,), node)

    # ------------------------------------------------------------------ statements
    def stmt(self, s, env):
        m = getattr(self, 'st_' + type(s).__name__, None)
        if m is None:
            self.unknown_stmts.append(s)
            # (skipped, not modelled: whatever it binds keeps its old term - a report located in this function is demoted to undecided, see pbv/opaque.py)
            self.__dict__.setdefault('not_followed', []).append((f'a {type(s).__name__} statement', getattr(s, 'lineno', 0)))
            return None
        return m(s, env)

    def st_Pass(self, s, env):
        return None

    def st_Match(self, s, env):
        """match x: case 'a' | 'b': ... case None: ... case _: ...   is the if / elif / else chain over x == 'a' or x == 'b', x is None, ...
        (literal, singleton, or-patterns and the wildcard / a capture without guard as last case; anything else is not followed)"""
        def test_of(pat):
            if isinstance(pat, ast.MatchValue) and isinstance(pat.value, (ast.Constant, ast.UnaryOp, ast.Attribute)):
                return ast.Compare(left=s.subject, ops=[ast.Eq()], comparators=[pat.value])
            if isinstance(pat, ast.MatchSingleton):
                return ast.Compare(left=s.subject, ops=[ast.Is()], comparators=[ast.Constant(pat.value)])
            if isinstance(pat, ast.MatchOr):
                ts = [test_of(p_) for p_ in pat.patterns]
                return None if any(t_ is None for t_ in ts) else ast.BoolOp(op=ast.Or(), values=ts)
            if isinstance(pat, ast.MatchClass) and not pat.patterns and not pat.kwd_patterns:
                # case np.ndarray(): / case str():   is isinstance(x, np.ndarray) / isinstance(x, str)
                return ast.Call(func=ast.Name(id='isinstance', ctx=ast.Load()), args=[s.subject, pat.cls], keywords=[])
            if isinstance(pat, ast.MatchAs) and pat.pattern is None:
                return ast.Constant(True)           # `_` / a bare capture in the middle of the cases: decided by its guard alone
            if isinstance(pat, ast.MatchAs) and pat.pattern is not None:
                return test_of(pat.pattern)         # `case str() as prefix`: the test of the inner pattern (the name is bound below)
            return None
        if not isinstance(s.subject, (ast.Name, ast.Attribute)):
            self.unknown_stmts.append(s)
            self.__dict__.setdefault('not_followed', []).append(('match statement on a computed subject', getattr(s, 'lineno', 0)))
            return None
        chain, tail = [], None
        for k, c in enumerate(s.cases):
            wild = isinstance(c.pattern, ast.MatchAs) and c.pattern.pattern is None and c.guard is None
            if wild and k == len(s.cases) - 1:
                tail = list(c.body)
                if c.pattern.name is not None:
                    tail = [ast.Assign(targets=[ast.Name(id=c.pattern.name, ctx=ast.Store())], value=s.subject)] + tail
                break
            t_ = test_of(c.pattern)
            if t_ is None:
                self.unknown_stmts.append(s)
                self.__dict__.setdefault('not_followed', []).append(('match statement with structural patterns', getattr(s, 'lineno', 0)))
                return None
            body_ = list(c.body)
            if isinstance(c.pattern, ast.MatchAs) and c.pattern.name is not None:
                # the captured name is the subject itself (also inside the guard)
                bind_ = ast.Assign(targets=[ast.Name(id=c.pattern.name, ctx=ast.Store())], value=s.subject)
                body_ = [bind_] + body_
                if c.guard is not None and any(isinstance(x, ast.Name) and x.id == c.pattern.name for x in ast.walk(c.guard)):
                    self.unknown_stmts.append(s)
                    self.__dict__.setdefault('not_followed', []).append(('match statement whose guard reads its capture', getattr(s, 'lineno', 0)))
                    return None
            if c.guard is not None:
                t_ = c.guard if (isinstance(t_, ast.Constant) and t_.value is True) else ast.BoolOp(op=ast.And(), values=[t_, c.guard])
            chain.append((t_, body_))
        if not chain:
            chain = [(ast.Constant(True), tail or [ast.Pass()])]
            tail = None
        node = None
        for t_, body in reversed(chain):
            node = ast.If(test=t_, body=body, orelse=([node] if node is not None else (tail or [])))
        ast.copy_location(node, s)
        ast.fix_missing_locations(node)
        return self.stmt(node, env)

    def st_Expr(self, s, env):
        if isinstance(s.value, ast.Constant):
            return None
        v = s.value
        if isinstance(v, ast.Call) and isinstance(v.func, ast.Attribute) and v.func.attr == 'copyto' and isinstance(v.func.value, ast.Name) and v.func.value.id in ('np', 'numpy') \
                and len(v.args) == 2 and not v.keywords:
            # np.copyto(buf, src) is buf[...] = src; through a reshape view of the buffer, np.copyto(np.reshape(buf, S), src) / np.copyto(buf.reshape(S), src), the buffer receives
            # the same entries in its own shape
            dst, src = v.args
            np_ = v.func.value.id
            new = None
            if isinstance(dst, ast.Name):
                new = f'{dst.id}[...] = {ast.unparse(src)}'
            elif isinstance(dst, ast.Call) and isinstance(dst.func, ast.Attribute) and dst.func.attr == 'reshape' and not dst.keywords:
                base = dst.args[0] if (isinstance(dst.func.value, ast.Name) and dst.func.value.id in ('np', 'numpy') and dst.args) else dst.func.value
                if isinstance(base, ast.Name) and base.id not in ('np', 'numpy'):
                    new = f'{base.id}[...] = {np_}.reshape({ast.unparse(src)}, {base.id}.shape)'
            if new is not None:
                st = ast.parse(new).body[0]
                for x in ast.walk(st):
                    ast.copy_location(x, s)
                ast.fix_missing_locations(st)
                return self.st_Assign(st, env)
        self.expr(s.value, env)
        return None

    def st_Return(self, s, env):
        v = self.expr(s.value, env) if s.value is not None else const(None, s, self.fn)
        self.event('inline_return' if self._inline_stack else 'return', v, s)
        if self._inline_stack and self._inline_exits:
            self._inline_exits[-1].append(dict(env))
        return ('term', v)

    def st_Raise(self, s, env):
        v = self.expr(s.exc, env) if s.exc is not None else None
        self.event('raise', v, s)
        return ('term', RAISE)

    def st_Assert(self, s, env):
        c = self.expr(s.test, env)
        self.event('assert', c, s)
        if c.op == 'bool' and c.args[0] == 'Or' and not self._loops:
            # `assert a or b or c`: one of the alternatives holds from here on (used by st_If: the last alternative that is tested cannot fail)
            self.__dict__.setdefault('_asserted_or', []).append(([x.id for x in c.args[1]], len(self._inline_stack)))
        if isinstance(s.test, ast.Constant) and not s.test.value:
            return ('term', RAISE)
        return None

    def st_Global(self, s, env):
        self.event('global_decl', None, s, data=list(s.names))
        for n in s.names:
            env['$global:' + n] = const(True)
        return None

    st_Nonlocal = st_Global

    def st_Import(self, s, env):
        for local, r in self.prog.import_binding(self.cur_fn.mod, s).items():
            env[local] = self.mk('ref', (r,), s) if r is not None else self.mk('unknown', ('import',), s)
        return None

    st_ImportFrom = st_Import

    def st_Delete(self, s, env):
        for t in s.targets:
            if isinstance(t, ast.Name):
                env.pop(t.id, None)
        return None

    def st_FunctionDef(self, s, env):
        f = self.prog.nested_func(self.cur_fn, s)
        t = self.mk('closure', (f,), s)
        t.extra = dict(env)
        t.extra[('$scope',)] = (id(self.cur_fn), len(self._inline_stack))
        env[s.name] = t
        return None

    def st_ClassDef(self, s, env):
        env[s.name] = self.mk('unknown', ('local class',), s)
        return None

    def _unroll_literal_comprehension(self, s, env):
        """a, b = (f(x) for x in (p, q))   ->   a = f(p); b = f(q)     (generator / list comprehension over a literal tuple, unpacked at once)"""
        if len(s.targets) != 1 or not isinstance(s.targets[0], (ast.Tuple, ast.List)) or not isinstance(s.value, (ast.GeneratorExp, ast.ListComp)):
            return False
        comp, tgt = s.value, s.targets[0]
        if len(comp.generators) != 1:
            return False
        gen = comp.generators[0]
        if gen.ifs or gen.is_async or not isinstance(gen.target, ast.Name) or not isinstance(gen.iter, (ast.Tuple, ast.List)):
            return False
        if len(gen.iter.elts) != len(tgt.elts) or any(isinstance(e, ast.Starred) for e in list(gen.iter.elts) + list(tgt.elts)):
            return False
        items = [self.expr(e, env) for e in gen.iter.elts]
        vals = []
        for it in items:
            env2 = dict(env)
            env2[gen.target.id] = it
            vals.append(self.expr(comp.elt, env2))
        for t, v in zip(tgt.elts, vals):
            self.assign(t, v, env, s)
        return True

    def st_Assign(self, s, env):
        if self._unroll_literal_comprehension(s, env):
            return None
        v = self.expr(s.value, env)
        if self._loops and len(s.targets) == 1 and isinstance(s.targets[0], ast.Name) and isinstance(s.value, ast.BinOp) and \
                any(isinstance(n, ast.Name) and n.id == s.targets[0].id for n in ast.walk(s.value)):
            self._note_blockwise([v], s, 'result accumulated over blocks of an axis')          # total = total + f(x[..., a:b])
        for t in s.targets:
            if isinstance(s.value, (ast.GeneratorExp, ast.ListComp)) and isinstance(t, (ast.Tuple, ast.List)):
                self._assign_display(t, v, env, s)          # a, b = (f(x) for x in <display>), unrolled by _comp
            else:
                self.assign(t, v, env, s)
        return None

    def st_AnnAssign(self, s, env):
        if s.value is not None:
            self.assign(s.target, self.expr(s.value, env), env, s)
        return None

    def st_AugAssign(self, s, env):
        opn = type(s.op).__name__
        rhs = self.expr(s.value, env)
        t = s.target
        if isinstance(t, ast.Name):
            old = self.load_name(t.id, env, t)
            new = self.mk('iop', (opn, old, rhs), s)
            self.event('inplace', new, s, data=dict(target=old, how='augassign', name=t.id))
            self.bind(t.id, new, env, s)
            self._write_through_view(old, new, env, s, skip=t.id)
            self._note_blockwise([rhs], s, 'result accumulated over blocks of an axis')
        elif isinstance(t, ast.Subscript) and isinstance(t.value, ast.Name) and t.value.id in self.record_names() and isinstance(t.slice, ast.Constant):
            old = env.get(('$rec', t.value.id, t.slice.value), UNDEF)
            new = self.mk('iop', (opn, old, rhs), s)
            self.event('inplace', new, s, data=dict(target=old, how='augassign', name=None))
            env[('$rec', t.value.id, t.slice.value)] = new
        elif isinstance(t, ast.Subscript):
            base_old = self.expr(t.value, env)
            idx = self.index(t.slice, env)
            cur = self.mk('sub', (base_old, idx), t)
            new = self.mk('iop', (opn, cur, rhs), s)
            st = self.mk('store', (base_old, idx, new), s)
            self.event('inplace', st, s, data=dict(target=base_old, how='augassign-subscript'))
            self.rebind_target_base(t.value, st, env, s)
            self._note_blockwise([idx], s, 'array assembled from blocks of an axis')
        elif isinstance(t, ast.Attribute):
            base = self.expr(t.value, env)
            cur = self.load_attr(t, base, env)
            new = self.mk('iop', (opn, cur, rhs), s)
            self.event('inplace', new, s, data=dict(target=cur, how='augassign-attr'))
            self.event('setattr', new, s, data=dict(base=base, attr=t.attr))
            if isinstance(t.value, ast.Name):
                env[('$attr', t.value.id, t.attr)] = new
        return None

    UFUNC_REDUCE = {'numpy.add.reduce': 'numpy.sum', 'numpy.multiply.reduce': 'numpy.prod', 'numpy.maximum.reduce': 'numpy.amax', 'numpy.minimum.reduce': 'numpy.amin',
                    'numpy.logical_and.reduce': 'numpy.all', 'numpy.logical_or.reduce': 'numpy.any'}

    def _note_blockwise(self, terms, node, what):
        """a value accumulated / assembled over BLOCKS of an axis (slices whose bounds are computed from the index of an enclosing loop): the term graph carries one
        iteration, not the sum / the assembled array - recorded as a construct that is not followed, so that a report about this function is not mistaken for a decided deviation"""
        if not self._loops:
            return
        for t in terms:
            if not isinstance(t, T):
                continue
            for x in walk_terms(t, into_mu=False):
                if x.op == 'slice' and any(isinstance(z, T) and any(y.op == 'elem' and isinstance(getattr(y, 'extra', None), Loop) for y in walk_terms(z, into_mu=False)) for z in x.args):
                    self.__dict__.setdefault('not_followed', []).append((what, getattr(node, 'lineno', 0)))
                    return

    def _write_through_view(self, old, new, env, node, skip=None):
        """blk = y[..., a:b, :]; blk /= n   changes y: an in-place operation on a name that holds a BASIC-index view (slices, integers, `...`, None) of an array another name
        holds writes into that array - the other name denotes  y with y[..., a:b, :] replaced  afterwards (the same store the statement  y[..., a:b, :] /= n  gives)"""
        v = old
        while isinstance(v, T) and v.op == 'refine':
            v = v.args[0]
        if isinstance(v, T) and v.op == 'elem' and v.args and isinstance(v.args[0], T) and v.args[0].op == 'call' and v.args[0].args[0].op == 'ref' \
                and isinstance(v.args[0].args[0].args[0], Lib) and v.args[0].args[0].args[0].dotted in ('numpy.array_split', 'numpy.split') and v.args[0].args[1] \
                and v.args[0].args[1][0].op != 'star':
            # for blk in np.array_split(X, n, axis=a): blk /= ...: the pieces are views that together make up X - every piece is written once
            split = v.args[0]
            base = split.args[1][0]
            kw = dict((k, x) for k, x in split.args[2] if k is not None)
            ax = kw.get('axis', split.args[1][2] if len(split.args[1]) > 2 else const(0, node, self.fn))
            def holds(val):
                # the name still denotes the array that was split (possibly as the loop-carried value that started with it / was written by earlier pieces)
                for _ in range(6):
                    if val is base:
                        return True
                    if isinstance(val, T) and val.op in ('mu', 'store'):
                        val = val.args[0]
                    else:
                        return False
                return False
            names = [k for k, val in env.items() if isinstance(k, str) and k != skip and holds(val)]
            if names and ax.op == 'const' and isinstance(ax.args[0], int) and not isinstance(ax.args[0], bool):
                st = self.mk('store', (env[names[0]], self.mk('unknown', ('piece of a split',), node), new), node)
                st.extra = ('covers', ax.args[0])
                self.event('inplace', st, node, data=dict(target=base, how='augassign-view'))
                for k in names:
                    self.bind(k, st, env, node)
            return
        if not (isinstance(v, T) and v.op == 'sub'):
            return
        base, idx = v.args
        items = list(idx.args[0]) if idx.op == 'tuple' else [idx]

        def basic(x):
            if x.op == 'slice':
                return True
            if x.op == 'const':
                return x.args[0] is None or x.args[0] is Ellipsis or (isinstance(x.args[0], int) and not isinstance(x.args[0], bool))
            if x.op == 'elem' and x.args and isinstance(x.args[0], T):
                it = x.args[0]
                return it.op == 'call' and it.args[0].op == 'ref' and it.args[0].args[0] == ('builtin', 'range')
            return False
        if not items or not all(basic(x) for x in items) or not any(x.op == 'slice' for x in items):
            return
        names = [k for k, val in env.items() if isinstance(k, str) and k != skip and val is base]
        if not names:
            return
        st = self.mk('store', (base, idx, new), node)
        self.event('inplace', st, node, data=dict(target=base, how='augassign-view'))
        for k in names:
            self.bind(k, st, env, node)

    def st_If(self, s, env):
        c = self.expr(s.test, env)
        et, ef = dict(env), dict(env)
        self.refine_env(s.test, env, et, ef)
        body, orelse = s.body, s.orelse
        while c.op == 'unop' and c.args[0] == 'Not':
            # canonical orientation: `if not c: A else: B` is `if c: B else: A`
            c = c.args[1]
            body, orelse = orelse, body
            et, ef = ef, et
        self._guards.append((c, True))
        env_t, ret_t = self.block(body, et)
        self._guards.pop()
        # every other alternative of an asserted `a or b or c` has been refuted on this path: the test cannot fail, its else-arm is not a path
        refuted = {g.id for g, pol in self._guards if not pol}
        if any(c.id in ids and depth == len(self._inline_stack) and all(i == c.id or i in refuted for i in ids) for ids, depth in self.__dict__.get('_asserted_or', [])):
            return ('branch', c, env_t, ret_t, None, RAISE)
        self._guards.append((c, False))
        env_f, ret_f = self.block(orelse, ef)
        self._guards.pop()
        return ('branch', c, env_t, ret_t, env_f, ret_f)

    def refine_env(self, test, env, et, ef):
        """branch-local refinement of a name tested by isinstance / is None / is not None"""
        if isinstance(test, ast.UnaryOp) and isinstance(test.op, ast.Not):
            return self.refine_env(test.operand, env, ef, et)
        if isinstance(test, ast.BoolOp) and isinstance(test.op, ast.And):
            for v in test.values:
                self.refine_env(v, env, et, {})
            return
        if isinstance(test, ast.Call) and isinstance(test.func, ast.Name) and test.func.id == 'isinstance' and len(test.args) == 2 \
                and isinstance(test.args[0], ast.Name) and test.args[0].id in env and 'isinstance' not in env:
            n = test.args[0].id
            ty = self.expr(test.args[1], dict(env))
            et[n] = self.mk('refine', (env[n], 'isinstance', ty), test)
            ef[n] = self.mk('refine', (env[n], 'notinstance', ty), test)
        elif isinstance(test, ast.Compare) and len(test.ops) == 1 and isinstance(test.left, ast.Name) and test.left.id in env \
                and isinstance(test.comparators[0], ast.Constant) and test.comparators[0].value is None:
            n = test.left.id
            if isinstance(test.ops[0], ast.Is):
                ef[n] = self.mk('refine', (env[n], 'notnone', None), test)
                et[n] = self.mk('refine', (env[n], 'isnone', None), test)
            elif isinstance(test.ops[0], ast.IsNot):
                et[n] = self.mk('refine', (env[n], 'notnone', None), test)
                ef[n] = self.mk('refine', (env[n], 'isnone', None), test)

    def record_names(self):
        """local names that hold a plain record: bound to a dict display / dict(k=v) with constant string keys and used ONLY as name['key'] (read, written, updated in place) or
        **name.  Such a dict is a bundle of independent variables; it is replaced by them (scalar replacement), so that values threaded through `state['model']` are followed
        like values threaded through `model`."""
        fn_node = self.cur_fn.node if hasattr(self.cur_fn, 'node') else None
        if fn_node is None:
            return frozenset()
        cache = self.__dict__.setdefault('_record_cache', {})
        if id(fn_node) in cache:
            return cache[id(fn_node)]
        cand, bad = set(), set()
        ok_uses = set()
        nested_nodes = set()
        for n in ast.walk(fn_node):
            if isinstance(n, (ast.FunctionDef, ast.AsyncFunctionDef, ast.Lambda)) and n is not fn_node:
                for x in ast.walk(n):
                    nested_nodes.add(id(x))
        for n in ast.walk(fn_node):
            if isinstance(n, ast.Assign) and len(n.targets) == 1 and isinstance(n.targets[0], ast.Name):
                v = n.value
                if (isinstance(v, ast.Dict) and all(isinstance(k, ast.Constant) and isinstance(k.value, str) for k in v.keys)) or \
                        (isinstance(v, ast.Call) and isinstance(v.func, ast.Name) and v.func.id == 'dict' and not v.args and all(k.arg is not None for k in v.keywords)):
                    cand.add(n.targets[0].id)
                    ok_uses.add(id(n.targets[0]))
            if isinstance(n, ast.Subscript) and isinstance(n.value, ast.Name) and isinstance(n.slice, ast.Constant) and isinstance(n.slice.value, str):
                ok_uses.add(id(n.value))
            if isinstance(n, ast.Call):
                for k in n.keywords:
                    if k.arg is None and isinstance(k.value, ast.Name):
                        ok_uses.add(id(k.value))
        for n in ast.walk(fn_node):
            if isinstance(n, ast.Name) and n.id in cand and (id(n) not in ok_uses or id(n) in nested_nodes):
                bad.add(n.id)
        # written by key somewhere: a dict that is only read is left as the literal it is
        written = {n.value.id for n in ast.walk(fn_node) if isinstance(n, ast.Subscript) and isinstance(n.ctx, (ast.Store, ast.Del)) and isinstance(n.value, ast.Name)}
        out = frozenset((cand - bad) & written)
        cache[id(fn_node)] = out
        return out

    def assigned_names(self, stmts):
        names, attrs = set(), set()
        new_helpers = self.prog.new_helper_names()
        records = self.record_names()
        row_views = self.__dict__.get('_row_views', {})

        class V(ast.NodeVisitor):
            def visit_Name(s2, n):
                if isinstance(n.ctx, (ast.Store, ast.Del)):
                    names.add(n.id)

            def visit_FunctionDef(s2, n):
                names.add(n.name)

            def visit_Lambda(s2, n):
                pass

            def visit_ClassDef(s2, n):
                names.add(n.name)

            def visit_Subscript(s2, n):
                if isinstance(n.ctx, ast.Store) and isinstance(n.value, ast.Name) and n.value.id in records and isinstance(n.slice, ast.Constant):
                    attrs.add(('$rec', n.value.id, n.slice.value))
                    return
                if isinstance(n.ctx, ast.Store):
                    b = n.value
                    while isinstance(b, (ast.Subscript, ast.Attribute)):
                        b = b.value
                    if isinstance(b, ast.Name):
                        names.add(b.id)
                        if b.id in row_views:
                            names.add(row_views[b.id])
                s2.generic_visit(n)

            def visit_Attribute(s2, n):
                if isinstance(n.ctx, ast.Store) and isinstance(n.value, ast.Name):
                    attrs.add(('$attr', n.value.id, n.attr))
                s2.generic_visit(n)

            def visit_Call(s2, n):
                for k in n.keywords:
                    if k.arg == 'out' and isinstance(k.value, ast.Name):
                        names.add(k.value.id)
                # a helper that will be inlined may update its array arguments in place: they are loop carried
                cal = n.func.id if isinstance(n.func, ast.Name) else (n.func.attr if isinstance(n.func, ast.Attribute) and isinstance(n.func.value, ast.Name) else None)
                if cal is not None and cal in new_helpers:
                    for a in list(n.args) + [k.value for k in n.keywords]:
                        if isinstance(a, ast.Name):
                            names.add(a.id)
                # xs.append(v) / xs.extend(...) / ... : a list that grows in the block is carried around it
                if isinstance(n.func, ast.Attribute) and isinstance(n.func.value, ast.Name) and n.func.attr in ('append', 'extend', 'insert', 'pop', 'remove', 'sort', 'reverse', 'clear'):
                    names.add(n.func.value.id)
                s2.generic_visit(n)

            def visit_ListComp(s2, n):
                pass
            visit_SetComp = visit_DictComp = visit_GeneratorExp = visit_ListComp

            def visit_Import(s2, n):
                for a in n.names:
                    names.add(a.asname or a.name.split('.')[0])

            def visit_ImportFrom(s2, n):
                for a in n.names:
                    names.add(a.asname or a.name)

        v = V()
        for st in stmts:
            v.visit(st)
        # blk = y[..., a:b]; blk /= n  (or out=blk): the array the view was cut from is changed in the block too (see _write_through_view)
        view_of = {}
        for st in stmts:
            for n in ast.walk(st):
                if isinstance(n, ast.Assign) and len(n.targets) == 1 and isinstance(n.targets[0], ast.Name) and isinstance(n.value, ast.Subscript) and isinstance(n.value.value, ast.Name):
                    view_of[n.targets[0].id] = n.value.value.id
        for st in stmts:
            for n in ast.walk(st):
                if isinstance(n, ast.AugAssign) and isinstance(n.target, ast.Name) and n.target.id in view_of:
                    names.add(view_of[n.target.id])
                if isinstance(n, ast.Call):
                    for k in n.keywords:
                        if k.arg == 'out' and isinstance(k.value, ast.Name) and k.value.id in view_of:
                            names.add(view_of[k.value.id])
        return names | attrs

    def _loop(self, s, env, kind, iter_term=None):
        loop = Loop(s, kind)
        self.loops.append(loop)
        if kind == 'for':
            loop.iter = iter_term if iter_term is not None else self.expr(s.iter, env)
        views = self.__dict__.setdefault('_row_views', {})
        if kind == 'for' and isinstance(s.iter, ast.Call) and isinstance(s.iter.func, ast.Name) and s.iter.func.id == 'enumerate' and len(s.iter.args) == 1 \
                and isinstance(s.iter.args[0], ast.Name) and isinstance(s.target, ast.Tuple) and len(s.target.elts) == 2 and isinstance(s.target.elts[1], ast.Name):
            # for k, row in enumerate(X): ... row[d] = v   changes X (see assign): X is carried around this loop and the loops nested in it
            views[s.target.elts[1].id] = s.iter.args[0].id
        elif kind == 'for' and isinstance(s.iter, ast.Call) and isinstance(s.iter.func, ast.Name) and s.iter.func.id == 'zip' and isinstance(s.target, ast.Tuple) \
                and len(s.target.elts) == len(s.iter.args) and all(k_.arg == 'strict' for k_ in s.iter.keywords):
            # for a_row, b_row in zip(A, B): a_row[...] = v   changes A
            for tn_, an_ in zip(s.target.elts, s.iter.args):
                if isinstance(tn_, ast.Name) and isinstance(an_, ast.Name):
                    views[tn_.id] = an_.id
        elif kind == 'for' and isinstance(s.iter, ast.Name) and isinstance(s.target, ast.Name):
            views[s.target.id] = s.iter.id               # for row in X: row[...] = v
        carried = self.assigned_names(s.body)
        if kind == 'for' and isinstance(s.target, ast.Name) and isinstance(s.iter, ast.Call) and isinstance(s.iter.func, ast.Attribute) and s.iter.func.attr in ('array_split', 'split') \
                and s.iter.args and isinstance(s.iter.args[0], ast.Name):
            # for blk in np.array_split(X, n, axis=a): blk /= ...   the blocks are views of X: X is changed in the loop
            tgt = s.target.id
            if any((isinstance(n, ast.AugAssign) and isinstance(n.target, ast.Name) and n.target.id == tgt) or
                   (isinstance(n, ast.Call) and any(k.arg == 'out' and isinstance(k.value, ast.Name) and k.value.id == tgt for k in n.keywords))
                   for b in s.body for n in ast.walk(b)):
                carried = carried | {s.iter.args[0].id}
        if kind == 'for':
            carried |= self.assigned_names([ast.Assign(targets=[s.target], value=ast.Constant(0))])
        for k in carried:
            mu = self.mk('mu', (env.get(k, UNDEF),), s)
            mu.extra = (loop, k)
            loop.mus[k] = mu
            env[k] = mu
        head_env = dict(env)
        self._loops.append(loop)
        n_ev = len(self.events)
        if kind == 'for':
            el = self.mk('elem', (loop.iter,), s.target)
            el.extra = loop
            self.assign(s.target, el, env, s)
            cond = self.nondet(s, 'for')
        else:
            cond = self.expr(s.test, env)
        self._guards.append((cond, True))
        env_b, ret_b = self.block(s.body, env)
        self._guards.pop()
        self._loops.pop()
        loop.body_events = self.events[n_ev:]
        # back edge: fall-through end of body + continues
        back = env_b
        for ce in loop.continues:
            back = self.merge(self.nondet(s, 'continue'), back, ce)
        projected = {m.id for m, _s, _i, _n in self.__dict__.get('_mu_proj', {}).values()}
        for k, mu in loop.mus.items():
            if mu.id in projected:
                continue
            mu.next = (back or {}).get(k, UNDEF) if back is not None else None
        for key, (m, src, i_, n_) in list(self.__dict__.get('_mu_proj', {}).items()):
            if src.extra[0] is loop and m.next is None:
                nxt = src.next
                comp = self.project(nxt, i_, n_, s, 1, top=True) if isinstance(nxt, T) else None
                m.next = comp if comp is not None else (self.mk('unpack', (nxt, i_, n_, None, None), s) if isinstance(nxt, T) else nxt)
        # exit: loop head (zero or more iterations completed) + breaks
        out = dict(head_env)
        for be in loop.breaks:
            out = self.merge(self.nondet(s, 'break'), out, be)
        ret = FALL
        if ret_b is not FALL:
            ret = self.mk('gamma', (self.nondet(s, 'loop-return'), ret_b, FALL), s)
        env.clear()
        env.update(out)
        if kind == 'for' and not loop.breaks and ret_b is FALL and not s.orelse:
            self._summarise_block_accumulation(loop, env, s)
        if s.orelse:
            env_e, ret_e = self.block(s.orelse, env)
            if ret_e is not FALL:
                ret = subst_fall(ret, ret_e) if ret is not FALL else ret_e
            if env_e is None:
                if loop.breaks:
                    e2 = None
                    for be in loop.breaks:
                        e2 = self.merge(self.nondet(s, 'break'), e2, be) if e2 is not None else dict(be)
                    env.clear()
                    env.update(e2)
                else:
                    return ('term', ret)
        if ret is FALL:
            return None
        return ('branch', self.nondet(s, 'loop-return'), None, ret, env, FALL)

    def _summarise_block_accumulation(self, loop, env, s):
        """acc = np.zeros(...); for start in range(0, n, b): acc += np.einsum('...dn,...Dn->...dD', x[..., start:start + b], conj(x[..., start:start + b]))
        is  acc = np.einsum('...dn,...Dn->...dD', x, conj(x))  when the sliced axis is the one that is summed over and the blocks cover it (folded, as for R-COVER): a sum over an
        axis taken block by block.  The name denotes the whole contraction after the loop; the accumulation is then not recorded as a construct that is not followed."""
        for k, mu in loop.mus.items():
            if env.get(k) is not mu or not isinstance(mu.next, T):
                continue
            init = mu.args[0]
            if not (isinstance(init, T) and init.op == 'call' and init.args[0].op == 'ref' and isinstance(init.args[0].args[0], Lib) and init.args[0].args[0].dotted in ('numpy.zeros', 'numpy.zeros_like')):
                continue
            nx = mu.next
            if not (nx.op in ('iop', 'binop') and nx.args[0] == 'Add'):
                continue
            E = nx.args[2] if nx.args[1] is mu else (nx.args[1] if nx.args[2] is mu else None)
            if E is None or not (E.op == 'call' and E.args[0].op == 'ref' and isinstance(E.args[0].args[0], Lib) and E.args[0].args[0].dotted == 'numpy.einsum' and not E.args[2]
                                 and len(E.args[1]) >= 2 and E.args[1][0].op == 'const' and isinstance(E.args[1][0].args[0], str) and '->' in E.args[1][0].args[0]):
                continue
            lhs, rhs = E.args[1][0].args[0].replace(' ', '').split('->')
            specs = lhs.split(',')
            ops = list(E.args[1][1:])
            if len(specs) != len(ops) or any(o.op == 'star' for o in ops):
                continue

            def in_loop(t_):
                return any((y.op == 'elem' and getattr(y, 'extra', None) is loop) or (y.op == 'mu' and isinstance(y.extra, tuple) and y.extra and y.extra[0] is loop)
                           for y in walk_terms(t_, into_mu=False))
            block_slice, letter, new_ops, ok = None, None, [], True
            for sp, o in zip(specs, ops):
                conj = False
                core = o
                if core.op == 'call' and not core.args[2] and len(core.args[1]) == 1 and core.args[0].op == 'ref' and isinstance(core.args[0].args[0], Lib) \
                        and core.args[0].args[0].dotted in ('numpy.conj', 'numpy.conjugate'):
                    conj, core = True, core.args[1][0]
                if not in_loop(core):
                    new_ops.append(o)
                    continue
                if not (core.op == 'sub' and core.args[1].op == 'tuple' and not in_loop(core.args[0]) and sp.startswith('...')):
                    ok = False
                    break
                its = core.args[1].args[0]
                if not (its and its[0].op == 'const' and its[0].args[0] is Ellipsis):
                    ok = False
                    break
                letters = sp.replace('...', '')
                trailing = its[1:]
                if len(trailing) > len(letters) or not all(x.op == 'slice' for x in trailing):
                    ok = False
                    break
                sliced = [(i, x) for i, x in enumerate(trailing) if not all(y.op == 'const' and y.args[0] is None for y in x.args)]
                if len(sliced) != 1:
                    ok = False
                    break
                i_, sl = sliced[0]
                c = letters[len(letters) - len(trailing) + i_]
                same = block_slice is None or (sl is block_slice) or all((a is b) or (a.op == 'const' and b.op == 'const' and a.args[0] == b.args[0]) for a, b in zip(sl.args, block_slice.args))
                if not same or (letter is not None and c != letter):
                    ok = False
                    break
                block_slice, letter = sl, c
                whole = core.args[0]
                new_ops.append(self._libcall('numpy.conj', (whole,), s) if conj else whole)
            if not ok or block_slice is None or letter in rhs:
                continue
            # every operand that carries the summed letter must be sliced (an unsliced one would be counted once per block)
            if any(letter in sp.replace('...', '') and not in_loop(o) for sp, o in zip(specs, ops)):
                continue
            try:
                from .opt import block_partition_verdict
                verdict = block_partition_verdict(loop.iter, block_slice)
            except Exception:
                verdict = None
            if verdict is None or verdict[0] != 'full':
                continue
            total = self.mk('call', (E.args[0], (E.args[1][0],) + tuple(new_ops), ()), E.node)
            self.event('call', total, E.node)
            self.bind(k, total, env, s)
            nf = self.__dict__.get('not_followed')
            if nf:
                line = getattr(getattr(nx, 'node', None), 'lineno', None)
                self.__dict__['not_followed'] = [(kind_, ln) for kind_, ln in nf if not (kind_ == 'result accumulated over blocks of an axis' and ln == line)]

    def st__UnrolledStep(self, s, env):
        self._assign_display(s.target, s.item, env, s.origin)
        env_b, ret_b = self.block(s.body, env)
        if env_b is None:
            return ('term', ret_b)
        if ret_b is FALL:
            return None
        return ('seq', env_b, ret_b)

    def _index_loop_as_rows(self, s):
        """for i in range(X.shape[0]) / range(len(X)): ... X[i] ...   with i used for nothing else   is   for row in X: ... row ..."""
        if not (isinstance(s.target, ast.Name) and isinstance(s.iter, ast.Call) and isinstance(s.iter.func, ast.Name) and s.iter.func.id == 'range'
                and len(s.iter.args) == 1 and not s.iter.keywords):
            return None
        n, i = s.iter.args[0], s.target.id
        X = None
        if isinstance(n, ast.Subscript) and isinstance(n.value, ast.Attribute) and n.value.attr == 'shape' and isinstance(n.value.value, ast.Name) \
                and isinstance(n.slice, ast.Constant) and n.slice.value == 0 and not isinstance(n.slice.value, bool):
            X = n.value.value.id
        elif isinstance(n, ast.Call) and isinstance(n.func, ast.Name) and n.func.id == 'len' and len(n.args) == 1 and not n.keywords and isinstance(n.args[0], ast.Name):
            X = n.args[0].id
        if X is None or X == i:
            return None
        rows = set()
        inside = 0
        for b in s.body + s.orelse:
            for m in ast.walk(b):
                if isinstance(m, ast.Subscript) and isinstance(m.value, ast.Name) and m.value.id == X and isinstance(m.slice, ast.Name) and m.slice.id == i:
                    if not isinstance(m.ctx, ast.Load):
                        return None
                    rows.add(id(m.slice))
                    rows.add(id(m.value))
                if isinstance(m, (ast.FunctionDef, ast.Lambda, ast.AsyncFunctionDef, ast.ListComp, ast.GeneratorExp, ast.SetComp, ast.DictComp)):
                    if any(isinstance(k, ast.Name) and k.id in (i, X) for k in ast.walk(m)):
                        return None
        for b in s.body + s.orelse:
            for m in ast.walk(b):
                if isinstance(m, ast.Name) and m.id == i:
                    inside += 1
                    if id(m) not in rows:
                        return None
                if isinstance(m, ast.Name) and m.id == X and (id(m) not in rows or not isinstance(m.ctx, ast.Load)):
                    return None          # X used otherwise inside the loop (rebinding, whole-array reads): left alone
        if not rows:
            return None
        fn_node = getattr(self.cur_fn, 'node', None)
        if fn_node is None:
            return None
        total = sum(1 for m in ast.walk(fn_node) if isinstance(m, ast.Name) and m.id == i)
        if total != inside + 1:
            return None          # the index is used outside this loop too
        import copy
        row = '_row_of_' + X

        class Rows(ast.NodeTransformer):
            def visit_Subscript(self_, m):
                if isinstance(m.value, ast.Name) and m.value.id == X and isinstance(m.slice, ast.Name) and m.slice.id == i:
                    return ast.copy_location(ast.Name(id=row, ctx=ast.Load()), m)
                return self_.generic_visit(m)
        new = copy.deepcopy(s)
        new.body = [Rows().visit(b) for b in new.body]
        new.orelse = [Rows().visit(b) for b in new.orelse]
        new.target = ast.copy_location(ast.Name(id=row, ctx=ast.Store()), s.target)
        new.iter = ast.copy_location(ast.Name(id=X, ctx=ast.Load()), s.iter)
        ast.fix_missing_locations(new)
        return new

    def _single_defs(self):
        """names of the current function that are bound exactly once, by a plain assignment `name = <expr>`: {name: expr}"""
        fn_node = getattr(self.cur_fn, 'node', None)
        if fn_node is None:
            return {}
        cache = self.__dict__.setdefault('_single_defs_cache', {})
        if id(fn_node) in cache:
            return cache[id(fn_node)]
        count, expr = {}, {}
        for m in ast.walk(fn_node):
            if isinstance(m, ast.Name) and isinstance(m.ctx, (ast.Store, ast.Del)):
                count[m.id] = count.get(m.id, 0) + 1
            if isinstance(m, ast.Assign) and len(m.targets) == 1 and isinstance(m.targets[0], ast.Name):
                expr[m.targets[0].id] = m.value
            if isinstance(m, ast.arg):
                count[m.arg] = count.get(m.arg, 0) + 1
        out = {k: v for k, v in expr.items() if count.get(k) == 1}
        cache[id(fn_node)] = out
        return out

    def _blocked_loop_as_flat(self, s):
        """for b in range(ceil(N / K)):                      for start in range(0, N, K):
               for i in range(b * K, min((b + 1) * K, N)):       for i in range(start, min(start + K, N)):
                   body                                              body
        with b / start used for nothing else is `for i in range(N): body`: the blocks partition range(N) in order.  Also as the two generators of a
        generator expression that a for loop iterates."""
        defs = self._single_defs()

        def res(x, depth=0):
            # a name bound once to an expression stands for it (num_blocks = -(-F // block_size))
            if isinstance(x, ast.Name) and x.id in defs and depth < 3 and not isinstance(defs[x.id], (ast.Name,)) \
                    and isinstance(defs[x.id], (ast.BinOp, ast.UnaryOp, ast.Call, ast.Constant)):
                return res(defs[x.id], depth + 1)
            return x

        def same(a, b):
            return ast.dump(res(a)) == ast.dump(res(b))

        def is_range(c, n):
            return isinstance(c, ast.Call) and isinstance(c.func, ast.Name) and c.func.id == 'range' and len(c.args) == n and not c.keywords

        def ceil_div(x):
            """x = -(-N // K) / (N + K - 1) // K / math.ceil(N / K) / max(1, <those>)  ->  (N, K)"""
            x = res(x)
            if isinstance(x, ast.UnaryOp) and isinstance(x.op, ast.USub) and isinstance(x.operand, ast.BinOp) and isinstance(x.operand.op, ast.FloorDiv) \
                    and isinstance(x.operand.left, ast.UnaryOp) and isinstance(x.operand.left.op, ast.USub):
                return x.operand.left.operand, x.operand.right
            if isinstance(x, ast.BinOp) and isinstance(x.op, ast.FloorDiv) and isinstance(x.left, ast.BinOp) and isinstance(x.left.op, ast.Sub) \
                    and isinstance(x.left.right, ast.Constant) and x.left.right.value == 1 and isinstance(x.left.left, ast.BinOp) and isinstance(x.left.left.op, ast.Add):
                a, b = x.left.left.left, x.left.left.right
                if same(b, x.right):
                    return a, x.right
                if same(a, x.right):
                    return b, x.right
            if isinstance(x, ast.Call) and ((isinstance(x.func, ast.Attribute) and x.func.attr == 'ceil') or (isinstance(x.func, ast.Name) and x.func.id == 'ceil')) \
                    and len(x.args) == 1 and isinstance(x.args[0], ast.BinOp) and isinstance(x.args[0].op, ast.Div):
                return x.args[0].left, x.args[0].right
            return None

        def uses(name, nodes):
            return any(isinstance(m, ast.Name) and m.id == name for b_ in nodes for m in ast.walk(b_))

        def block_pair(b, outer_iter, inner_iter):
            """-> N when the two ranges enumerate 0..N-1 block by block"""
            if not is_range(inner_iter, 2):
                return None
            lo, hi = inner_iter.args
            if not (isinstance(hi, ast.Call) and isinstance(hi.func, ast.Name) and hi.func.id == 'min' and len(hi.args) == 2 and not hi.keywords):
                return None
            if is_range(outer_iter, 1):
                nk = ceil_div(outer_iter.args[0])
                if nk is None:
                    return None
                N, K = nk
                def times(x):
                    # b * K / K * b
                    return isinstance(x, ast.BinOp) and isinstance(x.op, ast.Mult) and ((isinstance(x.left, ast.Name) and x.left.id == b and same(x.right, K)) or
                                                                                      (isinstance(x.right, ast.Name) and x.right.id == b and same(x.left, K)))
                def next_times(x):
                    # (b + 1) * K / K * (b + 1) / b * K + K
                    if isinstance(x, ast.BinOp) and isinstance(x.op, ast.Mult):
                        for u, v in ((x.left, x.right), (x.right, x.left)):
                            if same(v, K) and isinstance(u, ast.BinOp) and isinstance(u.op, ast.Add) and (
                                    (isinstance(u.left, ast.Name) and u.left.id == b and isinstance(u.right, ast.Constant) and u.right.value == 1) or
                                    (isinstance(u.right, ast.Name) and u.right.id == b and isinstance(u.left, ast.Constant) and u.left.value == 1)):
                                return True
                    return isinstance(x, ast.BinOp) and isinstance(x.op, ast.Add) and ((times(x.left) and same(x.right, K)) or (times(x.right) and same(x.left, K)))
                if not times(lo):
                    return None
                for u, v in ((hi.args[0], hi.args[1]), (hi.args[1], hi.args[0])):
                    if next_times(u) and same(v, N):
                        return N
                return None
            if is_range(outer_iter, 3) and isinstance(outer_iter.args[0], ast.Constant) and outer_iter.args[0].value == 0:
                N, K = outer_iter.args[1], outer_iter.args[2]
                if not (isinstance(lo, ast.Name) and lo.id == b):
                    return None
                def plus(x):
                    return isinstance(x, ast.BinOp) and isinstance(x.op, ast.Add) and ((isinstance(x.left, ast.Name) and x.left.id == b and same(x.right, K)) or
                                                                                     (isinstance(x.right, ast.Name) and x.right.id == b and same(x.left, K)))
                for u, v in ((hi.args[0], hi.args[1]), (hi.args[1], hi.args[0])):
                    if plus(u) and same(v, N):
                        return N
            return None

        import copy

        def offset_pair(b, outer_iter, inner_iter):
            """range(ceil((E - S) / K)) x range(S + b * K, min(S + b * K + K, E))  ->  (S, E)"""
            if not (is_range(outer_iter, 1) and is_range(inner_iter, 2)):
                return None
            nk = ceil_div(outer_iter.args[0])
            if nk is None:
                return None
            span, K = res(nk[0]), nk[1]
            if not (isinstance(span, ast.BinOp) and isinstance(span.op, ast.Sub)):
                return None
            E, S = span.left, span.right
            lo, hi = res(inner_iter.args[0]), res(inner_iter.args[1])
            def bk(x):
                return isinstance(x, ast.BinOp) and isinstance(x.op, ast.Mult) and ((isinstance(x.left, ast.Name) and x.left.id == b and same(x.right, K)) or
                                                                                  (isinstance(x.right, ast.Name) and x.right.id == b and same(x.left, K)))
            def is_lo(x):
                x = res(x)
                return isinstance(x, ast.BinOp) and isinstance(x.op, ast.Add) and ((same(x.left, S) and bk(x.right)) or (same(x.right, S) and bk(x.left)))
            if not is_lo(lo):
                return None
            if not (isinstance(hi, ast.Call) and isinstance(hi.func, ast.Name) and hi.func.id == 'min' and len(hi.args) == 2 and not hi.keywords):
                return None
            for u, v in ((hi.args[0], hi.args[1]), (hi.args[1], hi.args[0])):
                u = res(u) if isinstance(u, ast.Name) else u
                if isinstance(u, ast.BinOp) and isinstance(u.op, ast.Add) and ((is_lo(u.left) and same(u.right, K)) or (is_lo(u.right) and same(u.left, K))) and same(v, E):
                    return S, E
            return None
        if isinstance(s.target, ast.Name) and not s.orelse and s.body and isinstance(s.body[-1], ast.For) and not s.body[-1].orelse \
                and isinstance(s.body[-1].target, ast.Name):
            inner = s.body[-1]
            b = s.target.id
            # in front of the inner loop only the bounds of the block may be named (names bound once, used for nothing but these bounds)
            heads = s.body[:-1]
            head_names = [h.targets[0].id for h in heads if isinstance(h, ast.Assign) and len(h.targets) == 1 and isinstance(h.targets[0], ast.Name) and h.targets[0].id in defs]
            heads_ok = len(head_names) == len(heads) and not any(uses(nm, inner.body) for nm in head_names)
            fn_node = getattr(self.cur_fn, 'node', None)
            if heads and heads_ok and fn_node is not None:
                # ... and nowhere else in the function
                in_heads_and_range = sum(1 for h in list(heads) + [inner.iter] for m in ast.walk(h) if isinstance(m, ast.Name) and m.id in head_names)
                heads_ok = in_heads_and_range == sum(1 for m in ast.walk(fn_node) if isinstance(m, ast.Name) and m.id in head_names)
            if heads_ok and not uses(b, inner.body) and b != inner.target.id:
                N = block_pair(b, s.iter, inner.iter) if not heads else None
                if N is not None:
                    new = copy.copy(inner)
                    new.iter = ast.copy_location(ast.Call(func=ast.Name(id='range', ctx=ast.Load()), args=[copy.deepcopy(N)], keywords=[]), inner.iter)
                    ast.fix_missing_locations(new)
                    return new
                SE = offset_pair(b, s.iter, inner.iter)
                if SE is not None:
                    new = copy.copy(inner)
                    new.iter = ast.copy_location(ast.Call(func=ast.Name(id='range', ctx=ast.Load()), args=[copy.deepcopy(SE[0]), copy.deepcopy(SE[1])], keywords=[]), inner.iter)
                    ast.fix_missing_locations(new)
                    return new
        # for f in (f for block in range(NB) for f in range(block * K, min((block + 1) * K, N))): the generator written out (directly or through a name bound once)
        it = s.iter
        if isinstance(it, ast.Name) and isinstance(defs.get(it.id), ast.GeneratorExp) and \
                sum(1 for m in ast.walk(getattr(self.cur_fn, 'node', s)) if isinstance(m, ast.Name) and m.id == it.id) == 2:
            it = defs[it.id]
        if isinstance(it, ast.GeneratorExp) and len(it.generators) == 2 and all(not g.ifs and not g.is_async and isinstance(g.target, ast.Name) for g in it.generators) \
                and isinstance(it.elt, ast.Name) and it.elt.id == it.generators[1].target.id:
            N = block_pair(it.generators[0].target.id, it.generators[0].iter, it.generators[1].iter)
            if N is not None:
                new = copy.copy(s)
                new.iter = ast.copy_location(ast.Call(func=ast.Name(id='range', ctx=ast.Load()), args=[copy.deepcopy(N)], keywords=[]), s.iter)
                ast.fix_missing_locations(new)
                return new
        return None

    def _shifted_index_loop(self, s):
        """for p in range(E - 1): f = p + 1; ... p ... f ...   is   for f in range(1, E): ... f - 1 ... f ..."""
        if not (isinstance(s.target, ast.Name) and isinstance(s.iter, ast.Call) and isinstance(s.iter.func, ast.Name) and s.iter.func.id == 'range' and not s.iter.keywords
                and len(s.iter.args) in (1, 2) and not s.orelse and len(s.body) >= 2):
            return None
        if len(s.iter.args) == 2 and not (isinstance(s.iter.args[0], ast.Constant) and s.iter.args[0].value == 0 and not isinstance(s.iter.args[0].value, bool)):
            return None
        hi = s.iter.args[-1]
        if not (isinstance(hi, ast.BinOp) and isinstance(hi.op, ast.Sub) and isinstance(hi.right, ast.Constant) and hi.right.value == 1 and not isinstance(hi.right.value, bool)):
            return None
        p, first = s.target.id, s.body[0]
        if not (isinstance(first, ast.Assign) and len(first.targets) == 1 and isinstance(first.targets[0], ast.Name) and isinstance(first.value, ast.BinOp)
                and isinstance(first.value.op, ast.Add)):
            return None
        l_, r_ = first.value.left, first.value.right
        one = lambda x: isinstance(x, ast.Constant) and x.value == 1 and not isinstance(x.value, bool)
        isp = lambda x: isinstance(x, ast.Name) and x.id == p
        if not ((isp(l_) and one(r_)) or (isp(r_) and one(l_))):
            return None
        f = first.targets[0].id
        if f == p:
            return None
        rest = s.body[1:]
        if any(isinstance(m, ast.Name) and m.id in (p, f) and isinstance(m.ctx, (ast.Store, ast.Del)) for b in rest for m in ast.walk(b)):
            return None
        fn_node = getattr(self.cur_fn, 'node', None)
        if fn_node is None:
            return None
        inside = sum(1 for b in s.body for m in ast.walk(b) if isinstance(m, ast.Name) and m.id == p)
        if sum(1 for m in ast.walk(fn_node) if isinstance(m, ast.Name) and m.id == p) != inside + 1:
            return None          # the index is read after the loop
        if sum(1 for m in ast.walk(fn_node) if isinstance(m, ast.Name) and m.id == f and isinstance(m.ctx, ast.Store)) != 1:
            return None
        import copy

        class Shift(ast.NodeTransformer):
            def visit_Name(self_, m):
                if m.id == p and isinstance(m.ctx, ast.Load):
                    return ast.copy_location(ast.BinOp(left=ast.Name(id=f, ctx=ast.Load()), op=ast.Sub(), right=ast.Constant(value=1)), m)
                return m
        new = copy.deepcopy(s)
        new.body = [Shift().visit(b) for b in new.body[1:]]
        new.target = ast.copy_location(ast.Name(id=f, ctx=ast.Store()), s.target)
        new.iter = ast.copy_location(ast.Call(func=ast.Name(id='range', ctx=ast.Load()), args=[ast.Constant(value=1), copy.deepcopy(hi.left)], keywords=[]), s.iter)
        ast.fix_missing_locations(new)
        return new

    def _countdown_loop_as_reversed(self, s):
        """for n in range(E, 0, -1): ... n - 1 ...   with n used only as `n - 1`   is   for i in reversed(range(E)): ... i ..."""
        if not (isinstance(s.target, ast.Name) and isinstance(s.iter, ast.Call) and isinstance(s.iter.func, ast.Name) and s.iter.func.id == 'range' and len(s.iter.args) == 3
                and not s.iter.keywords and isinstance(s.iter.args[1], ast.Constant) and s.iter.args[1].value == 0 and not isinstance(s.iter.args[1].value, bool)):
            return None
        st = s.iter.args[2]
        if not (isinstance(st, ast.UnaryOp) and isinstance(st.op, ast.USub) and isinstance(st.operand, ast.Constant) and st.operand.value == 1) and \
                not (isinstance(st, ast.Constant) and st.value == -1):
            return None
        n = s.target.id
        minus_one = set()
        for b in s.body + s.orelse:
            for m in ast.walk(b):
                if isinstance(m, ast.BinOp) and isinstance(m.op, ast.Sub) and isinstance(m.left, ast.Name) and m.left.id == n and isinstance(m.right, ast.Constant) and m.right.value == 1 \
                        and not isinstance(m.right.value, bool):
                    minus_one.add(id(m.left))
        inside = 0
        for b in s.body + s.orelse:
            for m in ast.walk(b):
                if isinstance(m, ast.Name) and m.id == n:
                    inside += 1
                    if id(m) not in minus_one:
                        return None
        fn_node = getattr(self.cur_fn, 'node', None)
        if not minus_one or fn_node is None or sum(1 for m in ast.walk(fn_node) if isinstance(m, ast.Name) and m.id == n) != inside + 1:
            return None
        import copy
        idx = '_index_' + n

        class Shift(ast.NodeTransformer):
            def visit_BinOp(self_, m):
                if isinstance(m.op, ast.Sub) and isinstance(m.left, ast.Name) and m.left.id == n and isinstance(m.right, ast.Constant) and m.right.value == 1:
                    return ast.copy_location(ast.Name(id=idx, ctx=ast.Load()), m)
                return self_.generic_visit(m)
        new = copy.deepcopy(s)
        new.body = [Shift().visit(b) for b in new.body]
        new.orelse = [Shift().visit(b) for b in new.orelse]
        new.target = ast.copy_location(ast.Name(id=idx, ctx=ast.Store()), s.target)
        rng = ast.Call(func=ast.Name(id='range', ctx=ast.Load()), args=[copy.deepcopy(s.iter.args[0])], keywords=[])
        new.iter = ast.copy_location(ast.Call(func=ast.Name(id='reversed', ctx=ast.Load()), args=[rng], keywords=[]), s.iter)
        ast.fix_missing_locations(new)
        return new

    def st_For(self, s, env):
        for rewrite in (self._blocked_loop_as_flat, self._shifted_index_loop, self._countdown_loop_as_reversed, self._index_loop_as_rows):
            new = rewrite(s)
            if new is not None:
                s = new
        # `for step in ((f, a), (g, b)): ...` over a short literal display is the body written out once per element
        it = self.expr(s.iter, env)
        # search loop over a short display:  for x in (a, b, c): if test(x): break   [else: <not found>]   is   if test(a): x = a  elif test(b): x = b ... else: <not found>
        if it.op in ('tuple', 'list') and 1 <= len(it.args[0]) <= 6 and not any(x.op == 'star' for x in it.args[0]) and not self._loops and len(s.body) == 1 \
                and isinstance(s.body[0], ast.If) and not s.body[0].orelse and len(s.body[0].body) == 1 and isinstance(s.body[0].body[0], ast.Break) \
                and not any(isinstance(n, (ast.Break, ast.Continue, ast.Return)) for n in ast.walk(s.body[0].test)):
            items, test = list(it.args[0]), s.body[0].test

            def search(i, env_):
                if i == len(items):
                    return self.block(s.orelse, env_) if s.orelse else (env_, FALL)
                self._assign_display(s.target, items[i], env_, s)
                c = self.expr(test, env_)
                if c.op == 'const':
                    return (env_, FALL) if c.args[0] else search(i + 1, env_)
                et, ef = dict(env_), dict(env_)
                self._guards.append((c, False))
                try:
                    env_f, ret_f = search(i + 1, ef)
                finally:
                    self._guards.pop()
                merged = self.merge(c, et, env_f)
                return merged, (FALL if ret_f is FALL else self.mk('gamma', (c, FALL, ret_f), s))
            env_out, ret_out = search(0, env)
            if env_out is None:
                return ('term', ret_out)
            if env_out is not env:
                env.clear()
                env.update(env_out)
            return None if ret_out is FALL else ('seq', env, ret_out)
        simple = not s.orelse and not any(isinstance(n, (ast.Break, ast.Continue, ast.Yield, ast.YieldFrom)) for b in s.body for n in ast.walk(b))
        no_return = not any(isinstance(n, ast.Return) for b in s.body for n in ast.walk(b))
        if simple and it.op in ('tuple', 'list') and 1 <= len(it.args[0]) <= 6 and not any(x.op == 'star' for x in it.args[0]) and (not self._loops or no_return):
            # (a body that returns on some paths is fine: the remaining elements are what follows on the other paths)
            steps = [_UnrolledStep(s.target, item, s.body, s) for item in it.args[0]]
            env_b, ret_b = self.block(steps, env)
            if env_b is None:
                return ('term', ret_b)
            if ret_b is FALL:
                return None
            return ('seq', env_b, ret_b)
        return self._loop(s, env, 'for', it)

    def st_While(self, s, env):
        return self._loop(s, env, 'while')

    def st_Break(self, s, env):
        if self._loops:
            self._loops[-1].breaks.append(dict(env))
        self.event('break', self.nondet(s, 'break'), s)          # recorded with its guards: which conditions end the loop early
        return ('term', FALL)

    def st_Continue(self, s, env):
        if self._loops:
            self._loops[-1].continues.append(dict(env))
        self.event('continue', self.nondet(s, 'continue'), s)
        return ('term', FALL)

    def st_With(self, s, env):
        for it in s.items:
            c = self.expr(it.context_expr, env)
            if it.optional_vars is not None:
                self.assign(it.optional_vars, self.mk('enter', (c,), s), env, s)
        env_b, ret_b = self.block(s.body, env)
        if env_b is None:
            return ('term', ret_b)
        if ret_b is FALL:
            return None
        return ('branch', self.nondet(s, 'with'), None, ret_b, env, FALL)

    def st_Try(self, s, env):
        env0 = dict(env)
        tag = self.nondet(s, 'try')
        self._guards.append((tag, True))
        env_b, ret_b = self.block(s.body, env)
        if env_b is not None and s.orelse:
            env_b, ret_e = self.block(s.orelse, env_b)
            if ret_e is not FALL:
                ret_b = subst_fall(ret_b, ret_e) if ret_b is not FALL else ret_e
        self._guards.pop()
        outs = [(env_b, ret_b)]
        for h in s.handlers:
            # a handler may start from any state between entry and the end of the body
            start = self.merge(self.nondet(s, 'exc-point'), env0, env_b) if env_b is not None else dict(env0)
            ht = self.expr(h.type, start) if h.type is not None else const(None)
            caught = self.mk('caught', (ht,), h)
            if h.name:
                start[h.name] = self.mk('exc', (ht,), h)
            self._guards.append((caught, True))
            outs.append(self.block(h.body, start))
            self._guards.pop()
        env_m, ret_m = outs[0]
        any_ret = ret_m is not FALL
        for (e2, r2) in outs[1:]:
            c = self.nondet(s, 'handler')
            if r2 is not FALL or any_ret:
                ret_m = self.mk('gamma', (c, r2, ret_m), s)
                any_ret = True
            env_m = self.merge(c, e2, env_m)
        if s.finalbody:
            if env_m is None:
                self.block(s.finalbody, dict(env0))
            else:
                env_m, ret_f = self.block(s.finalbody, env_m)
        if env_m is None:
            return ('term', ret_m)
        env.clear()
        env.update(env_m)
        if not any_ret:
            return None
        return ('branch', self.nondet(s, 'try-return'), None, ret_m, env, FALL)

    # ------------------------------------------------------------------ assignment helpers
    def bind(self, name, value, env, node):
        if ('$global:' + name) in env:
            self.event('global_write', value, node, data=name)
        env[name] = value

    def rebind_target_base(self, base_node, new_value, env, node):
        """after `base[...] = v` the name `base` denotes the updated array"""
        if isinstance(base_node, ast.Name):
            env[base_node.id] = new_value
        elif isinstance(base_node, ast.Attribute) and isinstance(base_node.value, ast.Name):
            env[('$attr', base_node.value.id, base_node.attr)] = new_value
        elif isinstance(base_node, ast.Subscript):
            # x[i][j] = v : treat as store into x
            b = base_node
            while isinstance(b, ast.Subscript):
                b = b.value
            if isinstance(b, ast.Name):
                env[b.id] = self.mk('store', (env.get(b.id, UNDEF), self.mk('unknown', ('nested index',), node), new_value), node)

    def _assign_display(self, target, value, env, node):
        """a, (b, c) = <display (x, (y, z))>: component-wise"""
        if isinstance(target, (ast.Tuple, ast.List)) and isinstance(value, T) and value.op in ('tuple', 'list') and len(value.args[0]) == len(target.elts) \
                and not any(isinstance(e, ast.Starred) for e in target.elts) and not any(x.op == 'star' for x in value.args[0]):
            for e, v in zip(target.elts, value.args[0]):
                self._assign_display(e, v, env, node)
        else:
            self.assign(target, value, env, node)

    def assign(self, target, value, env, node):
        if isinstance(target, ast.Name) and target.id in self.record_names() and isinstance(value, T) and value.op == 'dict':
            keys = self.__dict__.setdefault('_rec_keys', {}).setdefault((id(self.cur_fn), target.id), [])
            for k in [k for k in list(env) if isinstance(k, tuple) and k[:2] == ('$rec', target.id)]:
                del env[k]
            del keys[:]
            for k, v in zip(value.args[0], value.args[1]):
                env[('$rec', target.id, k.args[0])] = v
                keys.append(k.args[0])
            env[target.id] = value
            return
        if isinstance(target, ast.Subscript) and isinstance(target.value, ast.Name) and target.value.id in self.record_names() and isinstance(target.slice, ast.Constant):
            keys = self.__dict__.setdefault('_rec_keys', {}).setdefault((id(self.cur_fn), target.value.id), [])
            if target.slice.value not in keys:
                keys.append(target.slice.value)
            env[('$rec', target.value.id, target.slice.value)] = value
            return
        if isinstance(target, ast.Name):
            self.bind(target.id, value, env, node)
        elif isinstance(target, (ast.Tuple, ast.List)):
            n = len(target.elts)
            star = next((i for i, e in enumerate(target.elts) if isinstance(e, ast.Starred)), None)
            self.note_shape_decl(target, value)
            for i, e in enumerate(target.elts):
                tn = e.value if isinstance(e, ast.Starred) else e
                u = self.project(value, i, n, node, top=not isinstance(getattr(node, 'value', None), (ast.Tuple, ast.List))) if star is None else None
                if u is None and star is not None and i != star and value.op == 'attr' and value.args[1] == 'shape' and isinstance(tn, ast.Name) and tn.id == '_':
                    u = self.mk('unknown', ('unused',), node)
                elif u is None and star is not None and i != star and value.op == 'attr' and value.args[1] == 'shape' and n <= 4 and \
                        sum(1 for e_ in target.elts if not isinstance(e_, ast.Starred) and not (isinstance(e_, ast.Name) and e_.id == '_')) <= 2 and \
                        any(isinstance(e_, ast.Starred) and isinstance(e_.value, ast.Name) and e_.value.id == '_' for e_ in target.elts):
                    # *_, n, d = x.shape  reads single axis lengths: d is x.shape[-1], n is x.shape[-2] (and `a, *_ = x.shape` gives x.shape[0])
                    u = self.mk('sub', (value, const(i - n if i > star else i, node, self.fn)), node)
                if u is None:
                    u = self.mk('unpack', (value, i, n, star, tn.id if isinstance(tn, ast.Name) else None), node)
                self.assign(e.value if isinstance(e, ast.Starred) else e, u, env, node)
        elif isinstance(target, ast.Starred):
            self.assign(target.value, value, env, node)
        elif isinstance(target, ast.Subscript):
            base_old = self.expr(target.value, env)
            idx = self.index(target.slice, env)
            if base_old.op == 'dict' or (base_old.op == 'store' and idx.op == 'const' and isinstance(idx.args[0], str)):
                self.__dict__.setdefault('not_followed', []).append(('dict written by key', getattr(node, 'lineno', 0)))
            b_ = base_old
            while b_.op in ('mu', 'store', 'refine'):
                b_ = b_.args[0]
            if b_.op == 'elem' or (b_.op == 'unpack' and isinstance(b_.args[0], T) and b_.args[0].op == 'elem'):
                # row[d] = v with `for k, row in enumerate(X)` is X[k, d] = v: the array the loop runs over is what changes
                done = False
                if b_.op == 'unpack' and b_.args[1] == 1 and b_.args[2] == 2:
                    it_ = b_.args[0].args[0]
                    if it_.op == 'call' and it_.args[0].op == 'ref' and it_.args[0].args[0] == ('builtin', 'enumerate') and len(it_.args[1]) == 1 and not it_.args[2]:
                        X = it_.args[1][0]
                        def root_(v_):
                            while isinstance(v_, T) and v_.op == 'mu':
                                v_ = v_.args[0]
                            return v_
                        names = [k_ for k_, v_ in env.items() if isinstance(k_, str) and root_(v_) is root_(X)]
                        if len(names) == 1:
                            k_index = self.mk('unpack', (b_.args[0], 0, 2, None, None), node)
                            items_ = tuple(idx.args[0]) if idx.op == 'tuple' else (idx,)
                            st2 = self.mk('store', (env[names[0]], self.mk('tuple', ((k_index,) + items_,), node), value), node)
                            self.event('store', st2, node, data=dict(target=env[names[0]], how='subscript-store'))
                            env[names[0]] = st2
                            done = True
                if not done:
                    # the same through zip(A, B) / `for row in X`: the element of the j-th zipped array is that array at the running index of the loop
                    X = el_ = None
                    if b_.op == 'unpack' and b_.args[3] is None and b_.args[0].op == 'elem':
                        it_ = b_.args[0].args[0]
                        if it_.op == 'call' and it_.args[0].op == 'ref' and it_.args[0].args[0] == ('builtin', 'zip') and all(k_ == 'strict' for k_, _ in it_.args[2]) and len(it_.args[1]) == b_.args[2] \
                                and not any(a_.op == 'star' for a_ in it_.args[1]):
                            X, el_ = it_.args[1][b_.args[1]], b_.args[0]
                    elif b_.op == 'elem' and isinstance(b_.args[0], T) and not (b_.args[0].op == 'call' and b_.args[0].args[0].op == 'ref'):
                        X, el_ = b_.args[0], b_
                    if X is not None and el_.extra is not None:
                        def root2_(v_):
                            while isinstance(v_, T) and v_.op == 'mu':
                                v_ = v_.args[0]
                            return v_
                        names = [k_ for k_, v_ in env.items() if isinstance(k_, str) and root2_(v_) is root2_(X)]
                        if len(names) == 1:
                            enum_ = self.mk('call', (self.mk('ref', (('builtin', 'enumerate'),), node), (X,), ()), node)
                            e_el = self.mk('elem', (enum_,), node)
                            e_el.extra = el_.extra
                            k_index = self.mk('unpack', (e_el, 0, 2, None, None), node)
                            items_ = tuple(idx.args[0]) if idx.op == 'tuple' else (idx,)
                            st2 = self.mk('store', (env[names[0]], self.mk('tuple', ((k_index,) + items_,), node), value), node)
                            self.event('store', st2, node, data=dict(target=env[names[0]], how='subscript-store'))
                            env[names[0]] = st2
                            done = True
                if not done:
                    self.__dict__.setdefault('not_followed', []).append(('array updated through the element of a loop over it', getattr(node, 'lineno', 0)))
            full = (idx.op == 'slice' and all(y.op == 'const' and y.args[0] is None for y in idx.args)) or (idx.op == 'const' and idx.args[0] is Ellipsis)
            if full and isinstance(target.value, ast.Name) and env.get(target.value.id) is base_old and self._own_buffer(base_old) and base_old.op != 'mu' \
                    and value.op not in ('const',) and not self._loops:
                # buf = np.zeros(n); buf[:] = v  - a buffer the function allocated itself, overwritten as a whole: as a VALUE the name denotes v afterwards
                st = self.mk('store', (base_old, idx, value), node)
                self.event('store', st, node, data=dict(target=base_old, how='subscript-store'))
                self.__dict__.setdefault('_owned', set()).add(value.id)
                self.bind(target.value.id, value, env, node)
                return
            st = self.mk('store', (base_old, idx, value), node)
            self.event('store', st, node, data=dict(target=base_old, how='subscript-store'))
            self.rebind_target_base(target.value, st, env, node)
            self._note_blockwise([idx], node, 'array assembled from blocks of an axis')
        elif isinstance(target, ast.Attribute) and target.attr in ('real', 'imag') and isinstance(target.value, ast.Name) and \
                not (self.self_name and target.value.id == self.self_name):
            # x.real = v / x.imag = v on an array writes into x: it is x.real[...] = v
            base_old = self.expr(target.value, env)
            view = self.mk('attr', (base_old, target.attr), target)
            st = self.mk('store', (base_old, self.mk('unknown', ('component', target.attr), node), value), node)          # (only that component of x is replaced)
            self.event('store', st, node, data=dict(target=view, how='subscript-store'))
            self.rebind_target_base(target.value, st, env, node)
        elif isinstance(target, ast.Attribute):
            base = self.expr(target.value, env)
            self.event('setattr', value, node, data=dict(base=base, attr=target.attr))
            if isinstance(target.value, ast.Name):
                env[('$attr', target.value.id, target.attr)] = value

    def project(self, value, i, n, node, depth=0, top=False):
        """i-th component of a value that is a gamma tree of n-tuple displays (the tuple a helper returns on each of its
        paths): a, b = gamma(c, (x1, y1), (x2, y2))  ->  a = gamma(c, x1, x2).  None if the value has another form."""
        if depth > 12 or not isinstance(value, T):
            return None
        if value.op == 'gamma':
            a = self.project(value.args[1], i, n, node, depth + 1, top)
            b = self.project(value.args[2], i, n, node, depth + 1, top)
            if a is None and b is None:
                return None
            # one alternative is a tuple display, the other a call that returns the tuple: a, b = (x, y) if c else f()  ->  a = x if c else f()[0]
            if a is None:
                a = self.mk('unpack', (value.args[1], i, n, None, None), node)
            if b is None:
                b = self.mk('unpack', (value.args[2], i, n, None, None), node)
            return self.mk('gamma', (value.args[0], a, b), node)
        if value.op == 'raise' or (value.op == 'unknown' and value.args == ('keyerror',)):
            return value          # a path that does not return (KeyError of a dispatch table): no component to select
        if value.op in ('tuple', 'list') and (depth > 0 or top) and len(value.args[0]) == n and not any(isinstance(x, T) and x.op == 'star' for x in value.args[0]):
            return value.args[0][i]
        if value.op == 'mu' and isinstance(value.extra, tuple):
            # a pair that is carried around a loop as ONE variable (`posterior = (affiliation, quadratic_form)` ... `a, q = posterior`): its components are carried
            # individually.  The back-edge value of the component is filled in when the loop is closed (_loop).
            reg = self.__dict__.setdefault('_mu_proj', {})
            key = (value.id, i, n)
            if key in reg:
                return reg[key][0]
            init_i = self.project(value.args[0], i, n, node, depth + 1, top=True)
            if init_i is None:
                return None
            m = self.mk('mu', (init_i,), node)
            m.extra = (value.extra[0], f'{value.extra[1]}[{i}]')
            reg[key] = (m, value, i, n)
            value.extra[0].mus[f'{value.extra[1]}[{i}]'] = m
            if value.next is not None:
                # the loop is closed already (`state.model` after the loop): the back-edge value is known
                nxt = value.next
                comp = self.project(nxt, i, n, node, 1, top=True) if isinstance(nxt, T) else None
                m.next = comp if comp is not None else (self.mk('unpack', (nxt, i, n, None, None), node) if isinstance(nxt, T) else nxt)
            return m
        return None

    def note_shape_decl(self, target, value):
        """`*independent, D, N = y.shape` declares the shape of the value `y` denotes here"""
        from .absint import Shape
        names = []
        ell = False
        for i, e in enumerate(target.elts):
            if isinstance(e, ast.Starred):
                if i != 0:
                    return
                ell = True
            elif isinstance(e, ast.Name):
                names.append(frozenset([e.id]) if e.id != '_' else frozenset())
            else:
                return
        base = None
        if value.op == 'attr' and value.args[1] == 'shape':
            base = value.args[0]
        elif value.op == 'sub' and value.args[0].op == 'attr' and value.args[0].args[1] == 'shape':
            sl = value.args[1]
            if sl.op == 'slice' and all(x.op == 'const' for x in sl.args):
                lo, hi, st = (x.args[0] for x in sl.args)
                if isinstance(lo, int) and lo < 0 and hi is None and st is None and -lo == len(names) and not ell:
                    base, ell = value.args[0].args[0], True
        if base is not None:
            self.shape_decl.setdefault(base.id, Shape(ell, names))

    # ------------------------------------------------------------------ expressions
    def load_name(self, name, env, node):
        if name in env:
            return env[name]
        if name in self.closure_env:
            return self.closure_env[name]
        r = self.prog.lookup(self.cur_fn.mod, name)
        if r is not None:
            if isinstance(r, Lib) and r.dotted == 'numpy.newaxis':
                return const(None, node, self.fn)
            if isinstance(r, tuple) and r and r[0] == 'global':
                # a module-level named literal (`_FLOOR = 1e-10`) is the literal
                v = r[1].globals_assigned.get(r[2])
                if isinstance(v, ast.UnaryOp) and isinstance(v.op, ast.USub) and isinstance(v.operand, ast.Constant) and isinstance(v.operand.value, (int, float)):
                    return const(-v.operand.value, node, self.fn)
                if isinstance(v, ast.Constant) and isinstance(v.value, (int, float, str, bool, type(None))):
                    return const(v.value, node, self.fn)
                # a module-level tuple of literals (`_KFT = (1, 0, 2)`; immutable) is that tuple
                def literal_tuple(x, depth=0):
                    if isinstance(x, ast.Tuple) and depth < 3:
                        return all(literal_tuple(y, depth + 1) for y in x.elts)
                    if isinstance(x, ast.UnaryOp) and isinstance(x.op, ast.USub):
                        x = x.operand
                    return depth > 0 and isinstance(x, ast.Constant) and (isinstance(x.value, (int, float, str, bool, type(None))) or x.value is Ellipsis)
                if isinstance(v, ast.Tuple) and literal_tuple(v):
                    saved = self.cur_fn
                    self.cur_fn = _ModScope(r[1])
                    try:
                        return self.expr(v, {})
                    finally:
                        self.cur_fn = saved
                # a module-level constant EXPRESSION of library constants / functions only (`_LOG_2PI = np.log(2 * np.pi)`) is that expression
                if self._namedtuple_fields(r) is not None:
                    return self.mk('ref', (r,), node)          # a record type: calls of it build tuples with named components (canonical_call)
                if v is not None and isinstance(v, (ast.BinOp, ast.Call, ast.UnaryOp, ast.Attribute)) and len(list(ast.walk(v))) <= 25 and \
                        (self._pure_library_expr(v, r[1]) or self._module_partial(v, r[1])):
                    saved = self.cur_fn
                    self.cur_fn = _ModScope(r[1])
                    try:
                        return self.expr(v, {})
                    finally:
                        self.cur_fn = saved
            return self.mk('ref', (r,), node)
        if name == 'Ellipsis':
            return const(Ellipsis, node, self.fn)          # the name `Ellipsis` is the literal `...`
        if name in BUILTINS:
            return self.mk('ref', (('builtin', name),), node)
        return self.mk('unknown', ('name', name), node)

    def _namedtuple_fields(self, cls):
        """(field names in order, {name: default expression}) of a `class X(NamedTuple)` or of a module-level `X = namedtuple('X', [...])`; None for anything else"""
        if isinstance(cls, tuple) and cls and cls[0] == 'global':
            v = cls[1].globals_assigned.get(cls[2])
            if isinstance(v, ast.Call) and ast.unparse(v.func).split('.')[-1] == 'namedtuple' and len(v.args) == 2 and not v.keywords:
                spec = v.args[1]
                if isinstance(spec, (ast.List, ast.Tuple)) and all(isinstance(x, ast.Constant) and isinstance(x.value, str) for x in spec.elts):
                    return [x.value for x in spec.elts], {}
                if isinstance(spec, ast.Constant) and isinstance(spec.value, str):
                    return spec.value.replace(',', ' ').split(), {}
            return None
        if not isinstance(cls, Cls):
            return None
        if not any(ast.unparse(b).split('.')[-1] == 'NamedTuple' for b in cls.base_exprs):
            return None
        names, defaults = [], {}
        for b in cls.node.body:
            if isinstance(b, ast.AnnAssign) and isinstance(b.target, ast.Name):
                names.append(b.target.id)
                if b.value is not None:
                    defaults[b.target.id] = b.value
        return (names, defaults) if names else None

    def _module_partial(self, v, mod):
        """`_norm = functools.partial(<function>, <constant options>)` at module level"""
        if not (isinstance(v, ast.Call) and isinstance(self.prog.lookup(mod, v.func.value.id) if isinstance(v.func, ast.Attribute) and isinstance(v.func.value, ast.Name) else
                                                       self.prog.lookup(mod, v.func.id) if isinstance(v.func, ast.Name) else None, (Lib, Mod))):
            return False
        if ast.unparse(v.func).split('.')[-1] != 'partial' or not v.args:
            return False
        rest = list(v.args[1:]) + [k.value for k in v.keywords]
        def constant(x):
            return isinstance(x, ast.Constant) or (isinstance(x, ast.UnaryOp) and isinstance(x.operand, ast.Constant)) or \
                (isinstance(x, (ast.Tuple, ast.List)) and all(constant(y) for y in x.elts))
        return isinstance(v.args[0], (ast.Name, ast.Attribute)) and all(constant(x) for x in rest) and all(k.arg is not None for k in v.keywords)

    def _pure_library_expr(self, v, mod):
        for x in ast.walk(v):
            if isinstance(x, ast.Name):
                r = self.prog.lookup(mod, x.id)
                if not isinstance(r, (Lib, Mod)):
                    return False
            elif isinstance(x, (ast.Lambda, ast.Subscript, ast.Starred, ast.NamedExpr, ast.Await, ast.Yield)):
                return False
        return True

    def _named_component(self, base, name, node, depth=0):
        """state.model for a (conditional of) NamedTuple value(s) built in this function: the component"""
        if depth > 6 or not isinstance(base, T):
            return None
        if base.op == 'refine':
            return self._named_component(base.args[0], name, node, depth + 1)
        if base.op == 'tuple' and isinstance(base.extra, tuple) and base.extra and base.extra[0] == 'fields':
            return base.args[0][base.extra[1].index(name)] if name in base.extra[1] else None
        if base.op == 'raise' or (base.op == 'unknown' and base.args == ('keyerror',)):
            return base if depth > 0 else None          # a path that does not continue
        if base.op == 'gamma':
            a, b = self._named_component(base.args[1], name, node, depth + 1), self._named_component(base.args[2], name, node, depth + 1)
            if a is not None and b is not None and all(x.op == 'raise' or (x.op == 'unknown' and x.args == ('keyerror',)) for x in (a, b)):
                return None
            if a is not None and b is not None:
                return self.mk('gamma', (base.args[0], a, b), node)
        if base.op == 'mu':
            names = self._field_names(base.args[0])
            if names is not None and name in names:
                return self.project(base, names.index(name), len(names), node, top=True)
        return None

    def _field_names(self, t, depth=0):
        while isinstance(t, T) and t.op in ('refine', 'mu') and depth < 8:
            t, depth = t.args[0], depth + 1
        if isinstance(t, T) and t.op == 'tuple' and isinstance(t.extra, tuple) and t.extra and t.extra[0] == 'fields':
            return list(t.extra[1])
        if isinstance(t, T) and t.op == 'gamma' and depth < 8:
            return self._field_names(t.args[1], depth + 1) or self._field_names(t.args[2], depth + 1)
        return None

    def load_attr(self, e, base, env):
        if isinstance(e.value, ast.Name):
            k = ('$attr', e.value.id, e.attr)
            if k in env:
                return env[k]
        c = self._named_component(base, e.attr, e)
        if c is not None:
            return c
        if e.attr == '_fields' and base.op == 'ref' and self._namedtuple_fields(base.args[0]) is not None:
            return self.mk('tuple', (tuple(const(n_, e, self.fn) for n_ in self._namedtuple_fields(base.args[0])[0]),), e)          # Point._fields
        if base.op == 'ref':
            o = base.args[0]
            if isinstance(o, (Mod, Lib)):
                r = self.prog.getattr_static(o, e.attr)
                if r is not None:
                    if isinstance(r, Lib) and r.dotted == 'numpy.newaxis':
                        return const(None, e, self.fn)      # np.newaxis is None
                    if isinstance(r, Lib) and r.dotted in ('math.inf', 'numpy.inf'):
                        return const(float('inf'), e, self.fn)
                    return self.mk('ref', (r,), e)
            elif isinstance(o, Cls):
                r = self.prog.getattr_static(o, e.attr)
                if r is not None:
                    t = self.mk('ref', (r,), e)
                    t.extra = ('via-class', o)
                    return t
        if e.attr in ('logabsdet', 'sign') and base.op == 'call' and base.args[0].op == 'ref' and isinstance(base.args[0].args[0], Lib) and base.args[0].args[0].dotted == 'numpy.linalg.slogdet':
            return self.mk('sub', (base, const(1 if e.attr == 'logabsdet' else 0, e, self.fn)), e)          # the named fields of the slogdet result
        if e.attr in ('eigenvalues', 'eigenvectors') and base.op == 'call' and base.args[0].op == 'ref' and isinstance(base.args[0].args[0], Lib) and \
                base.args[0].args[0].dotted in ('numpy.linalg.eigh', 'numpy.linalg.eig'):
            return self.mk('unpack', (base, 0 if e.attr == 'eigenvalues' else 1, 2, None, e.attr), e)         # ... and of eigh / eig
        if e.attr == 'mT' and base.op != 'ref':
            return self._libcall('numpy.swapaxes', (base, const(-1, e, self.fn), const(-2, e, self.fn)), e)          # x.mT is the matrix transpose np.swapaxes(x, -1, -2)
        if e.attr == 'smallest_normal' and base.op == 'call' and base.args[0].op == 'ref' and isinstance(base.args[0].args[0], Lib) and base.args[0].args[0].dotted == 'numpy.finfo':
            return self.mk('attr', (base, 'tiny'), e)          # np.finfo(t).smallest_normal is np.finfo(t).tiny
        return self.mk('attr', (base, e.attr), e)

    def index(self, sl, env):
        return self.expr(sl, env)

    def expr(self, e, env):
        if e is None:
            return const(None, None, self.fn)
        m = getattr(self, 'ex_' + type(e).__name__, None)
        if m is None:
            return self.mk('unknown', (type(e).__name__,), e)
        return m(e, env)

    def ex_Constant(self, e, env):
        return const(e.value, e, self.fn)

    def ex_Name(self, e, env):
        return self.load_name(e.id, env, e)

    def ex_Attribute(self, e, env):
        base = self.expr(e.value, env)
        return self.load_attr(e, base, env)

    def _desugar_max_key(self, e, env):
        """max(iterable, key=lambda p: expr)  ->  the explicit search loop it abbreviates (first maximiser wins):
               best, best_v = None, -inf
               for p in iterable:
                   v = expr
                   if v > best_v: best_v, best = v, p
        so that the rules about exhaustive searches apply to both spellings."""
        if not (isinstance(e.func, ast.Name) and e.func.id in ('max', 'min') and e.func.id not in env and len(e.args) == 1 and len(e.keywords) == 1
                and e.keywords[0].arg == 'key' and isinstance(e.keywords[0].value, ast.Lambda)):
            return None
        lam = e.keywords[0].value
        a = lam.args
        if len(a.args) != 1 or a.vararg or a.kwarg or a.kwonlyargs or a.defaults or a.posonlyargs:
            return None
        n = next(_ids)
        var = a.args[0].arg
        best, best_v, v = f'$best{n}', f'$bestv{n}', f'$v{n}'

        def name(i, ctx=ast.Load):
            return ast.Name(id=i, ctx=ctx())
        inf = ast.Call(func=ast.Name(id='float', ctx=ast.Load()), args=[ast.Constant('-inf' if e.func.id == 'max' else 'inf')], keywords=[])
        stmts = [
            ast.Assign(targets=[name(best, ast.Store)], value=ast.Constant(None)),
            ast.Assign(targets=[name(best_v, ast.Store)], value=inf),
            ast.For(target=name(var, ast.Store), iter=e.args[0], orelse=[], body=[
                ast.Assign(targets=[name(v, ast.Store)], value=lam.body),
                ast.If(test=ast.Compare(left=name(v), ops=[ast.Gt() if e.func.id == 'max' else ast.Lt()], comparators=[name(best_v)]), orelse=[], body=[
                    ast.Assign(targets=[name(best_v, ast.Store)], value=name(v)),
                    ast.Assign(targets=[name(best, ast.Store)], value=name(var)),
                ]),
            ]),
        ]
        for st in stmts:
            ast.copy_location(st, e)
            ast.fix_missing_locations(st)
        saved = env.get(var, UNDEF)
        self.block(stmts, env)
        out = env.get(best)
        for k in (best, best_v, v):
            env.pop(k, None)
        if saved is UNDEF:
            env.pop(var, None)
        else:
            env[var] = saved
        return out

    def ex_Call(self, e, env):
        d = self._desugar_max_key(e, env)
        if d is not None:
            return d
        if isinstance(e.func, ast.Name) and e.func.id == 'map' and 'map' not in env and len(e.args) == 2 and not e.keywords and not any(isinstance(a, ast.Starred) for a in e.args):
            # map(f, xs) is (f(x) for x in xs)
            var = ast.Name(id='_map_item', ctx=ast.Load())
            gen = ast.GeneratorExp(elt=ast.Call(func=e.args[0], args=[var], keywords=[]),
                                   generators=[ast.comprehension(target=ast.Name(id='_map_item', ctx=ast.Store()), iter=e.args[1], ifs=[], is_async=0)])
            ast.copy_location(gen, e)
            ast.fix_missing_locations(gen)
            return self.expr(gen, env)
        f = self.expr(e.func, env)
        args = []
        for a in e.args:
            if isinstance(a, ast.Starred):
                args.append(self.mk('star', (self.expr(a.value, env),), a))
            else:
                args.append(self.expr(a, env))
        kws = []
        for k in e.keywords:
            if k.arg is None and isinstance(k.value, ast.Name) and k.value.id in self.record_names() and k.value.id in env:
                for key in self.__dict__.get('_rec_keys', {}).get((id(self.cur_fn), k.value.id), []):
                    v = env.get(('$rec', k.value.id, key))
                    if v is not None:
                        kws.append((key, v))
                continue
            v = self.expr(k.value, env)
            if k.arg is None and v.op == 'dict' and all(kk.op == 'const' and isinstance(kk.args[0], str) for kk in v.args[0]):
                kws += [(kk.args[0], vv) for kk, vv in zip(v.args[0], v.args[1])]          # f(x, **{'a': 1, 'b': 2}) is f(x, a=1, b=2)
            else:
                kws.append((k.arg, v))
        args = self._splice_stars(args)
        args, kws = self._relative_axes(f, args, kws, e)
        if f.op == 'partial':
            # functools.partial(g, a, k=v)(b, k2=w) is g(a, b, k=v, k2=w); keywords of the call win
            pf, pargs, pkws = f.args
            later = {k for k, _ in kws if k is not None}
            kws = [(k, v) for k, v in pkws if k not in later] + kws
            args = list(pargs) + args
            f = pf
        # f(op, *operands) with operands = gamma(c, (s, d, d), (d, d)): one call per alternative, other arguments that are selected by the
        # same condition specialised - `f(op1, s, d, d) if c else f(op2, d, d)`
        for a in args:
            if a.op == 'star' and isinstance(a.args[0], T) and a.args[0].op == 'gamma' and self._tuple_tree(a.args[0]):
                return self._distribute_call(f, args, kws, a, e, env)
        # np.f(a, b, out=buf) with `buf` a buffer the function allocated itself (np.empty / zeros / *_like ..., or the result of an earlier such call) and that is not one
        # of the operands: as a VALUE this is `buf = np.f(a, b)` - the preallocation is a matter of memory, not of what is computed
        out_kw = [(i, v) for i, (k, v) in enumerate(kws) if k == 'out']
        if len(out_kw) == 1 and f.op == 'ref' and isinstance(f.args[0], Lib) and not any(a.op == 'star' for a in args):
            oname = next((k.value.id for k in e.keywords if k.arg == 'out' and isinstance(k.value, ast.Name)), None)
            buf = out_kw[0][1]
            elementwise_on_itself = f.args[0].dotted in ('numpy.maximum', 'numpy.minimum', 'numpy.clip', 'numpy.sqrt', 'numpy.abs', 'numpy.exp', 'numpy.log', 'numpy.square', 'numpy.cos',
                                                         'numpy.sin', 'numpy.negative', 'numpy.reciprocal', 'numpy.conj', 'numpy.conjugate') \
                and args and args[0] is buf and not any(a is buf for a in args[1:]) and self._fresh_value(buf)
            if oname is not None and env.get(oname) is buf and (self._own_buffer(buf) or elementwise_on_itself) and (elementwise_on_itself or not any(a is buf for a in args)) \
                    and not any(v is buf for k, v in kws if k != 'out'):
                with_out = self.mk('call', (f, tuple(args), tuple(kws)), e)
                self.event('outcall', with_out, e, data=dict(name=oname, buffer=buf))
                kws2 = [kv for kv in kws if kv[0] != 'out']
                r = self.canonical_call(f, args, kws2, e, env)
                if r is None:
                    r = self.mk('call', (f, tuple(args), tuple(kws2)), e)
                    self.event('call', r, e)
                self.__dict__.setdefault('_owned', set()).add(r.id)
                self.bind(oname, r, env, e)
                return r
        c = self.canonical_call(f, args, kws, e, env)
        if c is not None:
            return c
        t = self.mk('call', (f, tuple(args), tuple(kws)), e)
        self._note_unfollowed_call(f, args, kws, e)
        self.event('call', t, e)
        for k in e.keywords:
            if k.arg == 'out' and isinstance(k.value, ast.Name):
                old = env.get(k.value.id)
                self.event('inplace', t, e, data=dict(target=old, how='out=', name=k.value.id))
                env[k.value.id] = t
                if isinstance(old, T):
                    self._write_through_view(old, t, env, e, skip=k.value.id)          # out=<a view of a buffer>: the buffer is written too
        return t

    MODERN_ALIASES = {'numpy.permute_dims': 'numpy.transpose', 'numpy.concat': 'numpy.concatenate', 'numpy.pow': 'numpy.power', 'numpy.linalg.vector_norm': 'numpy.linalg.norm',
                      'numpy.cumulative_sum': 'numpy.cumsum', 'numpy.cumulative_prod': 'numpy.cumprod', 'numpy.acos': 'numpy.arccos', 'numpy.asin': 'numpy.arcsin',
                      'numpy.atan': 'numpy.arctan', 'numpy.atan2': 'numpy.arctan2', 'numpy.bitwise_invert': 'numpy.invert', 'numpy.linalg.matrix_norm': 'numpy.linalg.norm',
                      'numpy.linalg.outer': 'numpy.outer', 'numpy.linalg.cross': 'numpy.cross', 'numpy.linalg.tensordot': 'numpy.tensordot', 'numpy.linalg.matmul': 'numpy.matmul'}

    def ex_call_terms(self, f, args, kws, e, env):
        """a call whose callee / arguments are already terms: canonical form if there is one, else the call itself (with its event)"""
        c = self.canonical_call(f, args, kws, e, env)
        if c is not None:
            return c
        t = self.mk('call', (f, tuple(args), tuple(kws)), e)
        self.event('call', t, e)
        return t

    # positions of axis-like positional arguments (operand = argument 0); keyword names are the same for functions and methods
    AXIS_POS = {'numpy.sum': (1,), 'numpy.mean': (1,), 'numpy.amax': (1,), 'numpy.max': (1,), 'numpy.amin': (1,), 'numpy.min': (1,), 'numpy.prod': (1,), 'numpy.linalg.norm': (2,),
                'numpy.any': (1,), 'numpy.all': (1,), 'numpy.std': (1,), 'numpy.var': (1,), 'numpy.argmax': (1,), 'numpy.argmin': (1,), 'numpy.cumsum': (1,), 'numpy.cumprod': (1,),
                'numpy.squeeze': (1,), 'numpy.take': (2,), 'numpy.take_along_axis': (2,), 'numpy.moveaxis': (1, 2), 'numpy.swapaxes': (1, 2), 'numpy.rollaxis': (1,),
                'numpy.concatenate': (1,), 'numpy.median': (1,), 'numpy.percentile': (2,), 'numpy.sort': (1,), 'numpy.argsort': (1,), 'numpy.flip': (1,), 'numpy.repeat': (2,),
                'numpy.delete': (2,), 'numpy.compress': (2,), 'numpy.trace': (2, 3), 'numpy.diagonal': (2, 3), 'scipy.special.logsumexp': (1,), 'numpy.expand_dims': (1,), 'numpy.stack': (1,),
                'numpy.diff': (2,), 'numpy.roll': (2,), 'numpy.nanmax': (1,), 'numpy.nanmin': (1,), 'numpy.nansum': (1,), 'numpy.nanmean': (1,), 'numpy.count_nonzero': (1,),
                'numpy.apply_along_axis': (), 'numpy.split': (2,), 'numpy.array_split': (2,), 'numpy.unique': (), 'numpy.linalg.det': ()}
    AXIS_KW = ('axis', 'axis1', 'axis2', 'source', 'destination')
    METHOD_AXIS_POS = {'sum': (0,), 'mean': (0,), 'max': (0,), 'min': (0,), 'prod': (0,), 'any': (0,), 'all': (0,), 'std': (0,), 'var': (0,), 'argmax': (0,), 'argmin': (0,),
                       'cumsum': (0,), 'cumprod': (0,), 'squeeze': (0,), 'swapaxes': (0, 1), 'take': (1,), 'repeat': (1,)}

    def _rank_source(self, t):
        """t = X.ndim / np.ndim(X) / len(X.shape)  ->  X, else None"""
        if t.op == 'attr' and t.args[1] == 'ndim':
            return t.args[0]
        if t.op == 'call' and t.args[0].op == 'ref' and len(t.args[1]) == 1 and not t.args[2]:
            r = t.args[0].args[0]
            if isinstance(r, Lib) and r.dotted == 'numpy.ndim':
                return t.args[1][0]
            if r == ('builtin', 'len') and _display_item(t.args[1][0]).op == 'attr' and _display_item(t.args[1][0]).args[1] == 'shape':
                return _display_item(t.args[1][0]).args[0]
        return None

    def _same_rank(self, a, b, depth=0):
        """a and b are arrays of the same rank as far as the terms show it: the same term, or connected by elementwise operations / copies / refinements"""
        def closure(x):
            seen, stack, out = set(), [x], []
            while stack and len(out) < 60:
                y = stack.pop()
                if not isinstance(y, T) or y.id in seen:
                    continue
                seen.add(y.id)
                out.append(y)
                if y.op in ('refine', 'mu'):
                    stack.append(y.args[0])
                elif y.op == 'iop' and y.args[0] in ('Add', 'Sub', 'Mult', 'Div', 'Pow'):
                    stack.append(y.args[1])          # x /= y keeps the shape of x
                elif y.op == 'binop' and y.args[0] in ('Add', 'Sub', 'Mult', 'Div', 'Pow'):
                    # (with two array operands the result has the rank of the larger one: only an operation with a literal number keeps the rank for certain)
                    arrs = [z for z in (y.args[1], y.args[2]) if isinstance(z, T) and not (z.op == 'const' and isinstance(z.args[0], (int, float, complex)))]
                    if len(arrs) == 1:
                        stack.append(arrs[0])
                elif y.op == 'attr' and y.args[1] in ('real', 'imag'):
                    stack.append(y.args[0])
                elif y.op == 'gamma':
                    stack += [y.args[1], y.args[2]]
                elif y.op == 'call' and y.args[1]:
                    f_ = y.args[0]
                    nm = f_.args[0].dotted if f_.op == 'ref' and isinstance(f_.args[0], Lib) else ('method:' + f_.args[1] if f_.op == 'attr' else None)
                    if nm in ('numpy.abs', 'numpy.absolute', 'numpy.conj', 'numpy.conjugate', 'numpy.exp', 'numpy.log', 'numpy.sqrt', 'numpy.square', 'numpy.asarray', 'numpy.array',
                              'numpy.copy', 'numpy.ascontiguousarray', 'numpy.maximum', 'numpy.minimum', 'numpy.clip', 'numpy.real', 'numpy.imag', 'numpy.zeros_like', 'numpy.ones_like',
                              'numpy.empty_like', 'numpy.nan_to_num', 'numpy.transpose', 'numpy.swapaxes', 'numpy.moveaxis'):
                        stack.append(y.args[1][0])
                    elif nm in ('method:copy', 'method:astype', 'method:conj', 'method:conjugate', 'method:transpose', 'method:swapaxes'):
                        stack.append(f_.args[0])
            return out
        ca = closure(a)
        ids = {x.id for x in ca}
        return any(x.id in ids for x in closure(b))

    def _rank_of(self, t, depth=0, want=None):
        """(root term, d): the rank of t is rank(root) + d as far as the term shows it (elementwise operations, copies, reorderings: d unchanged; a reduction over one literal /
        relative axis without keepdims: d - 1; None-indexing: + number of None; integer indices behind an Ellipsis: - their number)"""
        if not isinstance(t, T) or depth > 25:
            return None
        if t.op in ('refine', 'mu'):
            return self._rank_of(t.args[0], depth + 1, want)
        if t.op in ('binop', 'iop') and t.args[0] in ('Add', 'Sub', 'Mult', 'Div', 'Pow'):
            # the result has the rank of the operand with the most axes (broadcasting): known only when all array operands agree; a literal number has none
            rs = []
            for z in (t.args[1], t.args[2]):
                if isinstance(z, T) and not (z.op == 'const' and isinstance(z.args[0], (int, float, complex)) and not isinstance(z.args[0], bool)):
                    rs.append(self._rank_of(z, depth + 1, want))
            if rs and all(r is not None for r in rs) and all(r[0] is rs[0][0] and r[1] == rs[0][1] for r in rs):
                return rs[0]
            if t.op == 'iop' and rs and rs[0] is not None:
                return rs[0]          # x /= y keeps the shape of x
            return t, 0
        if t.op == 'attr' and t.args[1] in ('real', 'imag', 'T', 'mT'):
            return self._rank_of(t.args[0], depth + 1, want)
        if t.op == 'sub' and t.args[1].op == 'tuple':
            items = t.args[1].args[0]
            if all((x.op == 'const' and (x.args[0] is Ellipsis or x.args[0] is None or (isinstance(x.args[0], int) and not isinstance(x.args[0], bool)))) or x.op == 'slice' for x in items):
                r = self._rank_of(t.args[0], depth + 1, want)
                if r is None:
                    return None
                d = sum(1 for x in items if x.op == 'const' and x.args[0] is None) - sum(1 for x in items if x.op == 'const' and isinstance(x.args[0], int) and not isinstance(x.args[0], bool))
                return r[0], r[1] + d
            return None
        if t.op == 'gamma':
            a, b = self._rank_of(t.args[1], depth + 1, want), self._rank_of(t.args[2], depth + 1, want)
            if a is not None and b is not None and a[0] is b[0] and a[1] == b[1]:
                return a          # both alternatives have the rank of the same array
            return t, 0
        if t.op == 'call' and t.args[1] and t.args[0].op == 'ref' and getattr(t.args[0].args[0], 'qual', None) == 'pb_bss.utils::abs_square' and t.args[1][0].op != 'star':
            return self._rank_of(t.args[1][0], depth + 1, want)          # |x|^2, elementwise
        if t.op == 'call' and (t.args[1] or t.args[0].op == 'attr'):
            f_ = t.args[0]
            nm = f_.args[0].dotted if f_.op == 'ref' and isinstance(f_.args[0], Lib) else ('method:' + f_.args[1] if f_.op == 'attr' and f_.args[0].op != 'ref' else None)
            if nm is None:
                return t, 0
            opnd = f_.args[0] if nm.startswith('method:') else (t.args[1][0] if t.args[1] else None)
            if opnd is None:
                return t, 0
            same = ('numpy.abs', 'numpy.absolute', 'numpy.conj', 'numpy.conjugate', 'numpy.exp', 'numpy.log', 'numpy.sqrt', 'numpy.square', 'numpy.asarray', 'numpy.array', 'numpy.copy',
                    'numpy.ascontiguousarray', 'numpy.maximum', 'numpy.minimum', 'numpy.clip', 'numpy.real', 'numpy.imag', 'numpy.zeros_like', 'numpy.ones_like', 'numpy.empty_like',
                    'numpy.nan_to_num', 'numpy.transpose', 'numpy.swapaxes', 'numpy.moveaxis', 'method:copy', 'method:astype', 'method:conj', 'method:conjugate', 'method:transpose',
                    'method:swapaxes', 'numpy.cumsum', 'numpy.cumprod', 'numpy.sort', 'numpy.flip', 'numpy.angle', 'numpy.sign', 'numpy.negative', 'numpy.reciprocal',
                    'numpy.take_along_axis', 'numpy.argsort', 'numpy.diff', 'numpy.roll',
                    'numpy.log10', 'numpy.cos', 'numpy.sin', 'numpy.isfinite', 'numpy.isnan', 'numpy.where')
            if nm in same:
                return self._rank_of(opnd, depth + 1, want)
            if nm in ('numpy.trace', 'method:trace'):
                r = self._rank_of(opnd, depth + 1, want)
                return (r[0], r[1] - 2) if r is not None else None
            if nm == 'numpy.einsum' and len(t.args[1]) >= 2 and t.args[1][0].op == 'const' and isinstance(t.args[1][0].args[0], str) and '->' in t.args[1][0].args[0] \
                    and not any(a.op == 'star' for a in t.args[1]):
                # '...ct->...t': the result has one axis less than the operand (letters in minus letters out)
                lhs, rhs = t.args[1][0].args[0].replace(' ', '').split('->')
                ins = lhs.split(',')
                if len(ins) == len(t.args[1]) - 1:
                    for spec, o_ in zip(ins, t.args[1][1:]):
                        if ('...' in spec) == ('...' in rhs):
                            r = self._rank_of(o_, depth + 1, want)
                            if r is not None:
                                return r[0], r[1] - len(spec.replace('...', '')) + len(rhs.replace('...', ''))
                return None
            red_pos = self.KEEPDIMS_REDUCERS.get(nm) if not nm.startswith('method:') else (0 if nm[7:] in self.KEEPDIMS_METHODS else None)
            if red_pos is not None or nm in ('numpy.argmax', 'numpy.argmin', 'method:argmax', 'method:argmin', 'scipy.special.logsumexp'):
                if red_pos is None:
                    red_pos = 1 if not nm.startswith('method:') else 0
                kwd = dict((k, v) for k, v in t.args[2] if k is not None)
                ax = kwd.get('axis', t.args[1][red_pos] if len(t.args[1]) > red_pos else None)
                kd = kwd.get('keepdims')
                r = self._rank_of(opnd, depth + 1, want)
                if r is None or ax is None:
                    return None
                if kd is not None and not (kd.op == 'const' and kd.args[0] in (True, False)):
                    return None
                if kd is not None and kd.args[0] is True:
                    return r
                n_ax = len(ax.args[0]) if ax.op in ('tuple', 'list') else 1
                if ax.op == 'const' and ax.args[0] is None:
                    return None
                return r[0], r[1] - n_ax
            return t, 0
        if t.op in ('param', 'unpack', 'elem', 'attr', 'gamma', 'unknown', 'call'):
            return t, 0          # its own root: ranks are only compared between terms with the same root
        return None

    def _relative_axes(self, f, args, kws, e):
        """np.sum(x, axis=x.ndim - 1) is np.sum(x, axis=-1): an axis written relative to the rank of the operand (X.ndim - k, -k % X.ndim, with X of the operand's rank)
        is the negative axis; for np.expand_dims / np.stack the position refers to the RESULT rank (one more per inserted axis)"""
        lib = f.args[0].dotted if f.op == 'ref' and isinstance(f.args[0], Lib) else None
        if lib is not None:
            if lib not in self.AXIS_POS or not args:
                return args, kws
            operand, positions = args[0], self.AXIS_POS[lib]
        elif f.op == 'attr' and f.args[1] in self.METHOD_AXIS_POS and f.args[0].op != 'ref':
            operand, positions = f.args[0], self.METHOD_AXIS_POS[f.args[1]]
        elif f.op == 'ref' and not isinstance(f.args[0], (Lib, tuple)) and args and args[0].op != 'star' and any(k == 'axis' for k, _ in kws):
            operand, positions = args[0], ()          # a function of this repository called as helper(x, axis=x.ndim - 1): by convention an axis of its first argument
        else:
            return args, kws
        joined = ()
        if lib == 'numpy.concatenate' or lib == 'numpy.stack':
            operand = args[0].args[0][0] if args[0].op in ('tuple', 'list') and args[0].args[0] else None
            if operand is None:
                return args, kws
            joined = tuple(x for x in args[0].args[0] if x.op != 'star')          # all of one rank: the rank of any of them is the rank of the operand
        grows = 1 if lib in ('numpy.expand_dims', 'numpy.stack') else 0

        r_op = self._rank_of(operand)

        def made_with_shape(arr, shp):
            # arr = np.random.uniform(size=shp) / np.zeros(shp) / np.empty(shp, ...): its rank is len(shp)
            if not (isinstance(arr, T) and arr.op == 'call' and arr.args[0].op == 'ref' and isinstance(arr.args[0].args[0], Lib)):
                return False
            d_ = arr.args[0].args[0].dotted
            kw_ = dict((k, v) for k, v in arr.args[2] if k is not None)
            cand = None
            if d_ in ('numpy.zeros', 'numpy.ones', 'numpy.empty', 'numpy.full') :
                cand = arr.args[1][0] if arr.args[1] else kw_.get('shape')
            elif d_.startswith('numpy.random.') and 'size' in kw_:
                cand = kw_['size']
            def strip(x):
                while isinstance(x, T) and (x.op == 'refine' or (x.op == 'call' and x.args[0].op == 'ref' and x.args[0].args[0] in (('builtin', 'tuple'), ('builtin', 'list'))
                                                                 and len(x.args[1]) == 1 and not x.args[2])):
                    x = x.args[0] if x.op == 'refine' else x.args[1][0]
                return x
            return cand is not None and strip(cand) is strip(shp)

        def same_root(x, y):
            # the same term, or the same attribute path of the same object read twice (self.mean ... self.mean.ndim)
            for _ in range(6):
                while isinstance(x, T) and x.op == 'refine':
                    x = x.args[0]
                while isinstance(y, T) and y.op == 'refine':
                    y = y.args[0]
                if x is y:
                    return True
                if isinstance(x, T) and isinstance(y, T) and x.op == 'attr' and y.op == 'attr' and x.args[1] == y.args[1]:
                    x, y = x.args[0], y.args[0]
                    continue
                return False
            return False

        def offset(src):
            # rank(operand) - rank(src), when both are known relative to the same root (0 when the terms are connected by rank-preserving operations)
            if isinstance(src, tuple) and src[0] == 'shape-of':
                return r_op[1] if r_op is not None and made_with_shape(r_op[0], src[1]) else None
            if any(src is x for x in joined):
                return 0
            r_src = self._rank_of(src)
            if r_op is not None and r_src is not None and same_root(r_op[0], r_src[0]):
                return r_op[1] - r_src[1]

            return 0 if self._same_rank(src, operand) else None

        def rank_plus(t, depth=0):
            # t = X.ndim + c / X.ndim - c / (X.ndim - 1) + 1 / X.ndim  ->  (X, c)
            if depth > 4:
                return None
            src = self._rank_source(t)
            if src is not None:
                return src, 0
            if t.op == 'call' and t.args[0].op == 'ref' and t.args[0].args[0] == ('builtin', 'len') and len(t.args[1]) == 1 and not t.args[2] and t.args[1][0].op != 'star':
                return ('shape-of', t.args[1][0]), 0          # len(shape) of the shape an array was created with
            def cint(c):
                return c.op == 'const' and isinstance(c.args[0], int) and not isinstance(c.args[0], bool)
            if t.op == 'binop' and t.args[0] in ('Add', 'Sub') and cint(t.args[2]):
                r = rank_plus(t.args[1], depth + 1)
                if r is not None:
                    return r[0], r[1] + (t.args[2].args[0] if t.args[0] == 'Add' else -t.args[2].args[0])
            if t.op == 'binop' and t.args[0] == 'Add' and cint(t.args[1]):
                r = rank_plus(t.args[2], depth + 1)
                if r is not None:
                    return r[0], r[1] + t.args[1].args[0]
            return None

        through = _display_item

        def rel(t, m):
            t = through(t)
            rp = rank_plus(t) if t.op == 'binop' and t.args[0] in ('Add', 'Sub') else None
            if rp is not None and not (t.args[0] == 'Sub' and self._rank_source(t.args[1]) is not None):
                # nested arithmetic on the rank: (x.ndim - 1) + 1, 1 + x.ndim - 3
                d = offset(rp[0])
                if d is not None:
                    k = rp[1] - d - m
                    return const(k, t.node, self.fn) if k < 0 else None
            # m = number of axes the call inserts (result rank - operand rank).  Position p = rank(src) - k of an array of rank(operand) + m axes is the negative axis
            # -(k + rank(operand) - rank(src) + m)
            if t.op == 'binop' and t.args[0] == 'Sub' and t.args[2].op == 'const' and isinstance(t.args[2].args[0], int) and not isinstance(t.args[2].args[0], bool) and t.args[2].args[0] >= 0:
                src = self._rank_source(t.args[1])
                d = offset(src) if src is not None else None
                if d is not None:
                    k = t.args[2].args[0] + d + m
                    return const(-k, t.node, self.fn) if k >= 1 else None
            src0 = self._rank_source(t)
            d0 = offset(src0) if src0 is not None else None
            if d0 is not None and d0 + m >= 1:
                return const(-(d0 + m), t.node, self.fn)          # np.expand_dims(x, x.ndim): the new axis is the last one
            if t.op == 'binop' and t.args[0] == 'Mod':
                # a % x.ndim names the same axis of x as a (a constant or the caller's axis parameter)
                src = self._rank_source(t.args[2])
                if src is not None and offset(src) == 0 and m == 0 and (t.args[1].op in ('param', 'refine') or
                                                                           (t.args[1].op == 'const' and isinstance(t.args[1].args[0], int) and not isinstance(t.args[1].args[0], bool))):
                    return t.args[1]
            return None

        def conv(t):
            # tuple(range(x.ndim, x.ndim + 2)) / range(x.ndim - 2, x.ndim): consecutive positions relative to the rank, written as a range
            r_ = t
            if r_.op == 'call' and r_.args[0].op == 'ref' and r_.args[0].args[0] in (('builtin', 'tuple'), ('builtin', 'list')) and len(r_.args[1]) == 1 and not r_.args[2]:
                r_ = r_.args[1][0]
            if r_.op == 'call' and r_.args[0].op == 'ref' and r_.args[0].args[0] == ('builtin', 'range') and len(r_.args[1]) == 2 and not r_.args[2]:
                lo, hi = rank_plus(r_.args[1][0]), rank_plus(r_.args[1][1])
                if lo is not None and hi is not None and lo[0] is hi[0] and 1 <= hi[1] - lo[1] <= 4:
                    d = offset(lo[0])
                    n_ = hi[1] - lo[1]
                    m = n_ if grows else 0
                    if d is not None:
                        ks = [-d + lo[1] + i - m for i in range(n_)]
                        if all(k < 0 for k in ks):
                            return self.mk('tuple', (tuple(const(k, t.node, self.fn) for k in ks),), t.node)
                return None
            if t.op in ('tuple', 'list') and t.args[0] and not any(x.op == 'star' for x in t.args[0]):
                m = len(t.args[0]) if grows else 0
                new = [rel(x, m) for x in t.args[0]]
                if any(n is not None for n in new) and all(n is not None or (x.op == 'const' and isinstance(x.args[0], int) and x.args[0] < 0) for n, x in zip(new, t.args[0])):
                    return self.mk(t.op, (tuple(n if n is not None else x for n, x in zip(new, t.args[0])),), t.node)
                return None
            return rel(t, grows)
        changed = False
        args = list(args)
        off = 0
        for p in positions:
            if p < len(args) and args[p].op != 'star':
                n = conv(args[p])
                if n is not None:
                    args[p], changed = n, True
        kws2 = []
        for k, v in kws:
            if k in self.AXIS_KW and isinstance(v, T):
                n = conv(v)
                if n is not None:
                    kws2.append((k, n))
                    changed = True
                    continue
            kws2.append((k, v))
        return (args, kws2) if changed else (args, kws)

    FRESH_MAKERS = ('numpy.empty', 'numpy.empty_like', 'numpy.zeros', 'numpy.zeros_like', 'numpy.ones', 'numpy.ones_like', 'numpy.full', 'numpy.full_like')

    def _own_buffer(self, t, depth=0):
        """an array this function allocated for results: np.empty(...) and relatives, the value an earlier `out=` call left in such a buffer, or one of these carried around a loop"""
        if not isinstance(t, T) or depth > 4:
            return False
        if t.id in self.__dict__.get('_owned', ()):
            return True
        if t.op == 'call' and t.args[0].op == 'ref' and isinstance(t.args[0].args[0], Lib) and t.args[0].args[0].dotted in self.FRESH_MAKERS:
            return True
        if t.op == 'mu':
            return self._own_buffer(t.args[0], depth + 1)
        return False

    FRESH_RESULTS = ('numpy.linalg.norm', 'numpy.sqrt', 'numpy.abs', 'numpy.absolute', 'numpy.exp', 'numpy.log', 'numpy.sum', 'numpy.mean', 'numpy.einsum', 'numpy.matmul', 'numpy.maximum',
                     'numpy.minimum', 'numpy.square', 'numpy.angle', 'numpy.cos', 'numpy.add.reduce', 'numpy.amax', 'numpy.max', 'numpy.prod', 'numpy.array', 'numpy.copy',
                     'numpy.conj', 'numpy.conjugate', 'numpy.where', 'numpy.clip', 'numpy.cumsum', 'numpy.cumprod', 'numpy.dot', 'numpy.tensordot', 'numpy.trace')

    def _fresh_value(self, t, depth=0):
        """an array that was computed, not handed in or cut out of another one: the result of arithmetic or of a library function that allocates its result (np.array only as a copy)"""
        if not isinstance(t, T) or depth > 3:
            return False
        if self._own_buffer(t):
            return True
        if t.op == 'binop':
            return True
        if t.op == 'iop':
            return self._fresh_value(t.args[1], depth + 1)          # x -= y on a fresh x
        if t.op == 'sub' and t.args[1].op == 'tuple' and all(x.op == 'slice' or (x.op == 'const' and (x.args[0] is None or x.args[0] is Ellipsis)) for x in t.args[1].args[0]):
            return self._fresh_value(t.args[0], depth + 1)          # a view of a fresh array (x[..., None]) is the function's own memory as well
        if t.op == 'call' and t.args[0].op == 'ref' and isinstance(t.args[0].args[0], Lib) and t.args[0].args[0].dotted in self.FRESH_RESULTS:
            if t.args[0].args[0].dotted == 'numpy.array':
                return any(k == 'copy' and v.op == 'const' and v.args[0] is True for k, v in t.args[2])
            return not any(k == 'out' for k, _ in t.args[2])
        return False

    def _splice_stars(self, args):
        out = []
        for a in args:
            if a.op == 'star' and isinstance(a.args[0], T) and a.args[0].op in ('tuple', 'list'):
                out += self._splice_stars(list(a.args[0].args[0]))
            else:
                out.append(a)
        return out

    def _tuple_tree(self, t, depth=0):
        if depth > 6:
            return False
        if t.op == 'gamma':
            return self._tuple_tree(t.args[1], depth + 1) and self._tuple_tree(t.args[2], depth + 1)
        return t.op in ('tuple', 'list')

    def _specialise(self, t, cond, pol, depth=0):
        if isinstance(t, T) and t.op == 'gamma' and depth < 6:
            if t.args[0] is cond:
                return self._specialise(t.args[1] if pol else t.args[2], cond, pol, depth + 1)
        return t

    def _distribute_call(self, f, args, kws, star, e, env):
        g = star.args[0]
        cond = g.args[0]
        outs = []
        for pol, br in ((True, g.args[1]), (False, g.args[2])):
            a2 = []
            for a in args:
                if a is star:
                    a2.append(self.mk('star', (br,), e))
                elif a.op == 'star':
                    a2.append(self.mk('star', (self._specialise(a.args[0], cond, pol),), e))
                else:
                    a2.append(self._specialise(a, cond, pol))
            a2 = self._splice_stars(a2)
            k2 = [(k, self._specialise(v, cond, pol)) for k, v in kws]
            self._guards.append((cond, pol))
            try:
                nested = next((a for a in a2 if a.op == 'star' and isinstance(a.args[0], T) and a.args[0].op == 'gamma' and self._tuple_tree(a.args[0])), None)
                if nested is not None:
                    outs.append(self._distribute_call(f, a2, k2, nested, e, env))
                else:
                    c = self.canonical_call(f, a2, k2, e, env)
                    if c is None:
                        c = self.mk('call', (f, tuple(a2), tuple(k2)), e)
                        self.event('call', c, e)
                    outs.append(c)
            finally:
                self._guards.pop()
        return self.mk('gamma', (cond, outs[0], outs[1]), e)

    # ------------------------------------------------------------------ unit axes: reshape / moveaxis / swapaxes spellings of x[..., None, :]
    def _unit_axis_sub(self, x, lead, trail, e):
        """x[None * len(lead), ..., <trail: 'none' / 'full'>] through the subscript forms"""
        none = lambda: const(None, e, self.fn)
        full = lambda: self.mk('slice', (none(), none(), none()), e)
        while trail and trail[0] == 'full':
            trail = trail[1:]          # x[..., :, None] is x[..., None]
        if not lead and not trail:
            return x
        if lead and not trail:
            items = [none() for _ in lead]
            return self._sub(x, items[0] if len(items) == 1 else self.mk('tuple', (tuple(items),), e), e)
        items = [none() for _ in lead] + [const(Ellipsis, e, self.fn)] + [none() if t_ == 'none' else full() for t_ in trail]
        return self._sub(x, self.mk('tuple', (tuple(items),), e), e)

    def _unit_axis_view(self, t):
        """t = x[None, ..., None, :]  ->  (x, n_lead, trail) with trail a list of 'none' / 'full'; None when t is not such a view"""
        if not (isinstance(t, T) and t.op == 'sub'):
            return None
        x, idx = t.args
        items = list(idx.args[0]) if idx.op == 'tuple' else [idx]
        def is_none(i):
            return i.op == 'const' and i.args[0] is None or (i.op == 'ref' and isinstance(i.args[0], Lib) and i.args[0].dotted == 'numpy.newaxis')
        def is_full(i):
            return i.op == 'slice' and all(y.op == 'const' and y.args[0] is None for y in i.args)
        lead = 0
        while items and is_none(items[0]):
            lead += 1
            items = items[1:]
        if not items:
            return (x, lead, [])
        if not (items[0].op == 'const' and items[0].args[0] is Ellipsis):
            return None
        trail = []
        for i in items[1:]:
            if is_none(i):
                trail.append('none')
            elif is_full(i):
                trail.append('full')
            else:
                return None
        return (x, lead, trail)

    def _shape_items(self, t, x, depth=0):
        """the entries of a target shape written in terms of x.shape: list of ('all',) / ('range', lo, hi) / ('dim', k) / ('one',), or None"""
        def same(y):
            while isinstance(y, T) and y.op == 'refine':
                y = y.args[0]
            z = x
            while isinstance(z, T) and z.op == 'refine':
                z = z.args[0]
            # self.c.reshape(*self.c.shape, 1): the same attribute path of the same object, read twice in one expression
            while isinstance(y, T) and isinstance(z, T) and y is not z and y.op == 'attr' and z.op == 'attr' and y.args[1] == z.args[1]:
                y, z = y.args[0], z.args[0]
                while isinstance(y, T) and y.op == 'refine':
                    y = y.args[0]
                while isinstance(z, T) and z.op == 'refine':
                    z = z.args[0]
            return y is z
        def cint(c):
            return c.op == 'const' and (c.args[0] is None or (isinstance(c.args[0], int) and not isinstance(c.args[0], bool)))
        if depth > 6 or not isinstance(t, T):
            return None
        if t.op == 'star':
            return self._shape_items(t.args[0], x, depth + 1)
        if t.op in ('tuple', 'list'):
            out = []
            for it in t.args[0]:
                if it.op == 'star':
                    r = self._shape_items(it.args[0], x, depth + 1)
                elif it.op == 'const' and it.args[0] == 1 and isinstance(it.args[0], int) and not isinstance(it.args[0], bool):
                    r = [('one',)]
                elif it.op == 'sub' and it.args[0].op == 'attr' and it.args[0].args[1] == 'shape' and same(it.args[0].args[0]) and it.args[1].op == 'const' \
                        and isinstance(it.args[1].args[0], int) and not isinstance(it.args[1].args[0], bool):
                    r = [('dim', it.args[1].args[0])]
                else:
                    return None
                if r is None:
                    return None
                out.extend(r)
            return out
        if t.op == 'binop' and t.args[0] == 'Add':
            a, b = self._shape_items(t.args[1], x, depth + 1), self._shape_items(t.args[2], x, depth + 1)
            return a + b if a is not None and b is not None else None
        if t.op == 'attr' and t.args[1] == 'shape' and same(t.args[0]):
            return [('all',)]
        if t.op == 'sub' and t.args[0].op == 'attr' and t.args[0].args[1] == 'shape' and same(t.args[0].args[0]) and t.args[1].op == 'slice':
            lo, hi, st = t.args[1].args
            if cint(lo) and cint(hi) and st.op == 'const' and st.args[0] is None:
                return [('range', lo.args[0], hi.args[0])]
            return None
        if t.op == 'call' and t.args[0].op == 'ref' and t.args[0].args[0] in (('builtin', 'tuple'), ('builtin', 'list')) and len(t.args[1]) == 1 and not t.args[2]:
            return self._shape_items(t.args[1][0], x, depth + 1)
        return None

    def _unit_axis_forms(self, f, lib, args, kws, e):
        """reshapes that only insert unit axes (x.reshape(*x.shape, 1), x.reshape(*x.shape[:-1], 1, x.shape[-1])), moves of a unit axis
        (np.moveaxis(x[None], 0, -3), np.swapaxes(x[..., None], -1, -2)) and indexing a moved axis (np.moveaxis(x, -2, 0)[0] is handled in the subscript):
        all are x[..., None, :, :] with the unit axis at its final place"""
        kwd = dict((k, v) for k, v in kws if k is not None)
        if any(k is None for k, _ in kws):
            return None
        # --- reshape
        x = shape = None
        if lib == 'numpy.reshape' and not (set(kwd) - {'a', 'newshape', 'shape'}) and not any(a.op == 'star' for a in args[:1]):
            x = args[0] if args else kwd.get('a')
            rest = list(args[1:]) + [v for k, v in kws if k in ('newshape', 'shape')]
            shape = rest[0] if len(rest) == 1 else None
        elif f.op == 'attr' and f.args[1] == 'reshape' and f.args[0].op != 'ref' and not (set(kwd) - {'shape'}):
            x = f.args[0]
            rest = list(args) + [v for k, v in kws if k == 'shape']
            if len(rest) == 1 and rest[0].op != 'const':
                shape = rest[0]
            elif rest:
                shape = self.mk('tuple', (tuple(rest),), e)
        if x is not None and shape is not None:
            items = self._shape_items(shape, x)
            if items and any(i == ('one',) for i in items) and sum(1 for i in items if i[0] in ('all', 'range') and (i[0] == 'all' or i[1] is None)) == 1:
                lead, k = 0, 0
                while items[k] == ('one',):
                    lead, k = lead + 1, k + 1
                head, tail = items[k], items[k + 1:]
                if head == ('all',):
                    if all(i == ('one',) for i in tail):
                        return self._unit_axis_sub(x, [None] * lead, ['none'] * len(tail), e)
                    return None
                if head[0] == 'range' and head[1] is None and isinstance(head[2], int) and head[2] < 0:
                    need, trail, ok = head[2], [], True          # the next dimension that has to follow
                    for i in tail:
                        if i == ('one',):
                            trail.append('none')
                        elif i[0] == 'dim' and i[1] == need and need < 0:
                            trail.append('full')
                            need += 1
                        elif i[0] == 'range' and i[1] == need and i[2] is None and need < 0:
                            trail.extend(['full'] * (-need))
                            need = 0
                        else:
                            ok = False
                            break
                    if ok and need == 0:
                        return self._unit_axis_sub(x, [None] * lead, trail, e)
            return None
        # --- a unit axis moved to another place
        if lib in ('numpy.moveaxis', 'numpy.swapaxes') and len(args) + len(kws) == 3 and not any(a.op == 'star' for a in args):
            names = ('a', 'source', 'destination') if lib == 'numpy.moveaxis' else ('a', 'axis1', 'axis2')
            vals = list(args) + [kwd.get(n) for n in names[len(args):]]
            if any(v is None for v in vals):
                return None
            x, a1, a2 = vals
            if not all(a.op == 'const' and isinstance(a.args[0], int) and not isinstance(a.args[0], bool) for a in (a1, a2)):
                return None
            view = self._unit_axis_view(x)
            if view is None:
                return None
            base, lead, trail = view
            p, q = a1.args[0], a2.args[0]
            if lib == 'numpy.swapaxes' and not (p < 0 and q < 0):
                return None
            def at(pos):
                """what sits at axis pos: ('lead', i) / ('trail', i) / None"""
                if pos >= 0:
                    return ('lead', pos) if pos < lead else None
                return ('trail', len(trail) + pos) if -pos <= len(trail) else None
            src = at(p)
            if src is None or (src[0] == 'trail' and trail[src[1]] != 'none'):
                if lib == 'numpy.swapaxes':
                    src, p, q = at(q), q, p          # swapaxes is symmetric: the unit axis may be named second
                    if src is None or (src[0] == 'trail' and trail[src[1]] != 'none'):
                        return None
                else:
                    return None
            if lib == 'numpy.swapaxes':
                # exchanging the unit axis with a NEIGHBOUR moves it by one place; with a farther axis the axes in between change places too
                if abs(p - q) != 1:
                    return None
            if q >= 0:
                return None          # a destination counted from the front is a different axis for every rank
            lead2, trail2 = lead, list(trail)
            if src[0] == 'lead':
                if lead != 1 or src[1] != 0:
                    return None
                lead2 = 0
            else:
                del trail2[src[1]]
            # insert at position q of the result (rank = len(trail2) + 1 trailing places known)
            width = len(trail2) + 1
            while width < -q:
                trail2.insert(0, 'full')
                width += 1
            trail2.insert(width + q, 'none')
            return self._unit_axis_sub(base, [None] * lead2, trail2, e)
        return None

    # ------------------------------------------------------------------ canonical forms of equivalent spellings
    def canonical_call(self, f, args, kws, e, env):
        """np.multiply(a, b[, out=a]) -> a * b / a *= b; np.expand_dims(x, k) -> x[..., None, :]; calls of helpers that the
        reference tree does not have are inlined.  Returns the replacing term or None."""
        lib = f.args[0].dotted if f.op == 'ref' and isinstance(f.args[0], Lib) else None
        plain = not any(a.op == 'star' for a in args) and all(k is not None for k, _ in kws)
        ua = self._unit_axis_forms(f, lib, args, kws, e)
        if ua is not None:
            return ua
        if lib in self.UFUNC_REDUCE and plain and not any(k in ('out', 'where', 'initial') for k, _ in kws):
            # np.add.reduce(x, axis, dtype, out, keepdims) is np.sum(x, axis=..., keepdims=...) (the ufunc's default axis is 0, np.sum's is None)
            kw2 = [kv for kv in kws if kv[0] in ('axis', 'keepdims', 'dtype')]
            a2 = list(args[:1])
            if len(args) > 1:
                kw2.append(('axis', args[1]))
            if len(args) > 2:
                kw2.append(('dtype', args[2]))
            if not any(k == 'axis' for k, _ in kw2):
                kw2.append(('axis', const(0, e, self.fn)))
            if len(args) <= 3:
                return self.ex_call_terms(self.mk('ref', (Lib(self.UFUNC_REDUCE[lib]),), e), a2, kw2, e, env)
        # NumPy 2 / array-API names of operations that have an older name
        if lib in self.MODERN_ALIASES and plain:
            return self.ex_call_terms(self.mk('ref', (Lib(self.MODERN_ALIASES[lib]),), e), list(args), list(kws), e, env)
        if lib in ('numpy.matrix_transpose', 'numpy.linalg.matrix_transpose') and plain and len(args) == 1 and not kws:
            return self._libcall('numpy.swapaxes', (args[0], const(-1, e, self.fn), const(-2, e, self.fn)), e)
        if lib in ('numpy.linalg.diagonal', 'numpy.linalg.trace') and plain and len(args) == 1 and not [k for k, _ in kws if k != 'offset']:
            return self.ex_call_terms(self.mk('ref', (Lib('numpy.' + lib.rsplit('.', 1)[1]),), e), list(args), list(kws) + [('axis1', const(-2, e, self.fn)), ('axis2', const(-1, e, self.fn))], e, env)
        if lib == 'numpy.astype' and plain and len(args) == 2 and not [k for k, _ in kws if k != 'copy']:
            return self.ex_call_terms(self.mk('attr', (args[0], 'astype'), e), [args[1]], list(kws), e, env)
        if lib in ('numpy.vecdot', 'numpy.linalg.vecdot') and plain and len(args) == 2 and (not kws or (len(kws) == 1 and kws[0][0] == 'axis' and kws[0][1].op == 'const' and kws[0][1].args[0] == -1)):
            # vecdot(a, b) = sum(conj(a) * b, axis=-1)
            return self._libcall('numpy.einsum', (const('...d,...d->...', e, self.fn), self._libcall('numpy.conj', (args[0],), e), args[1]), e)
        if lib == 'functools.partial' and plain and args:
            if args[0].op == 'partial':
                return self.mk('partial', (args[0].args[0], tuple(args[0].args[1]) + tuple(args[1:]), tuple(args[0].args[2]) + tuple(kws)), e)
            return self.mk('partial', (args[0], tuple(args[1:]), tuple(kws)), e)
        if f.op == 'attr' and f.args[1] in ('items', 'keys', 'values') and f.args[0].op == 'dict' and plain and not args and not kws:
            d_ = f.args[0]
            if f.args[1] == 'items':
                return self.mk('tuple', (tuple(self.mk('tuple', ((k, v),), e) for k, v in zip(d_.args[0], d_.args[1])),), e)          # {'a': x}.items() is (('a', x),)
            return self.mk('tuple', (tuple(d_.args[0] if f.args[1] == 'keys' else d_.args[1]),), e)
        if f.op == 'attr' and f.args[1] == 'join' and f.args[0].op == 'const' and isinstance(f.args[0].args[0], str) and plain and not kws and len(args) == 1:
            # ','.join(['...n', '...nd']) is the literal; a list selected by a test gives a literal selected by that test
            def joined(x, depth=0):
                if x.op in ('list', 'tuple') and all(y.op == 'const' and isinstance(y.args[0], str) for y in x.args[0]):
                    return const(f.args[0].args[0].join(y.args[0] for y in x.args[0]), e, self.fn)
                if x.op == 'gamma' and depth < 6:
                    a, b = joined(x.args[1], depth + 1), joined(x.args[2], depth + 1)
                    if a is not None and b is not None:
                        return self.mk('gamma', (x.args[0], a, b), e)
                return None
            j = joined(args[0])
            if j is not None:
                return j
        if lib == 'numpy.einsum' and plain and not kws and len(args) >= 3 and args[0].op == 'const' and isinstance(args[0].args[0], str) and '->' in args[0].args[0] \
                and not self.__dict__.get('_in_einsum_split'):
            # np.einsum('...nd,...nD->...dD', w[..., :, None] * y, conj(y)): an operand that is a product with a factor written with explicit unit axes of the operand's own
            # width is two operands of the contraction ('...n,...nd,...nD->...dD', w, y, conj(y))
            lhs, rhs = args[0].args[0].replace(' ', '').split('->')
            specs = lhs.split(',')
            if len(specs) == len(args) - 1 and all(sp.startswith('...') or '.' not in sp for sp in specs):
                def unit_pattern(t_):
                    if t_.op != 'sub' or t_.args[1].op != 'tuple':
                        return None
                    its = t_.args[1].args[0]
                    if len(its) < 2 or not (its[0].op == 'const' and its[0].args[0] is Ellipsis):
                        return None
                    kept = []
                    for x_ in its[1:]:
                        if x_.op == 'const' and x_.args[0] is None:
                            kept.append(False)
                        elif x_.op == 'slice' and all(y_.op == 'const' and y_.args[0] is None for y_ in x_.args):
                            kept.append(True)
                        else:
                            return None
                    return (t_.args[0], kept) if not all(kept) and any(kept) else None
                new_specs, new_ops, changed = [], [], False
                for sp, op_ in zip(specs, args[1:]):
                    letters = sp.replace('...', '')
                    done = False
                    if sp.startswith('...') and op_.op == 'binop' and op_.args[0] == 'Mult':
                        for w_, y_ in ((op_.args[1], op_.args[2]), (op_.args[2], op_.args[1])):
                            up = unit_pattern(w_)
                            # (one weight per ROW / observation, w[..., :, None]: the idiom of a saliency-weighted scatter; a weight along the last axis stays a factor)
                            if up is not None and len(up[1]) == len(letters) and not up[1][-1] and unit_pattern(y_) is None:
                                new_specs += ['...' + ''.join(l for l, k in zip(letters, up[1]) if k), sp]
                                new_ops += [up[0], y_]
                                done = changed = True
                                break
                    if not done:
                        new_specs.append(sp)
                        new_ops.append(op_)
                if changed:
                    self._in_einsum_split = True
                    try:
                        return self.ex_call_terms(self.mk('ref', (Lib('numpy.einsum'),), e), [const(','.join(new_specs) + '->' + rhs, e, self.fn)] + new_ops, [], e, env)
                    finally:
                        self._in_einsum_split = False
        if lib == 'numpy.einsum' and plain and not kws and len(args) == 2 and args[0].op == 'const' and isinstance(args[0].args[0], str) and '->' in args[0].args[0]:
            # einsum('ftd->fdt', x) only reorders axes: np.transpose(x, (0, 2, 1)); '...ab->...ba' is swapaxes(x, -1, -2)
            lhs, rhs = args[0].args[0].replace(' ', '').split('->')
            if ',' not in lhs and '.' not in lhs and len(set(lhs)) == len(lhs) and sorted(lhs) == sorted(rhs) and lhs != rhs:
                return self._libcall('numpy.transpose', (args[1], self.mk('tuple', (tuple(const(lhs.index(ch), e, self.fn) for ch in rhs),), e)), e)
            if lhs.startswith('...') and rhs.startswith('...') and len(lhs) == 5 and lhs[3] != lhs[4] and rhs[3:] == lhs[4] + lhs[3]:
                return self._libcall('numpy.swapaxes', (args[1], const(-1, e, self.fn), const(-2, e, self.fn)), e)
        if f.op == 'ref' and f.args[0] == ('builtin', 'range') and plain and not kws and len(args) == 1 and args[0].op == 'call' and args[0].args[0].op == 'ref' \
                and args[0].args[0].args[0] == ('builtin', 'len') and len(args[0].args[1]) == 1:
            inner = args[0].args[1][0]
            if inner.op == 'call' and inner.args[0].op == 'ref' and inner.args[0].args[0] == ('builtin', 'range') and len(inner.args[1]) == 1 and not inner.args[2]:
                return inner          # range(len(range(n))) runs as often as range(n)
        if f.op == 'ref' and f.args[0] == ('builtin', 'map') and plain and not kws and len(args) >= 2 and all(a.op in ('tuple', 'list') for a in args[1:]) \
                and len({len(a.args[0]) for a in args[1:]}) == 1 and 1 <= len(args[1].args[0]) <= 6 and not any(x.op == 'star' for a in args[1:] for x in a.args[0]):
            # map(f, (a, b)) is (f(a), f(b))
            outs = []
            for i in range(len(args[1].args[0])):
                call_args = [a.args[0][i] for a in args[1:]]
                g_ = args[0]
                kw_ = []
                if g_.op == 'partial':
                    call_args, kw_, g_ = list(g_.args[1]) + call_args, list(g_.args[2]), g_.args[0]
                c = self.canonical_call(g_, call_args, kw_, e, env)
                if c is None:
                    c = self.mk('call', (g_, tuple(call_args), tuple(kw_)), e)
                    self.event('call', c, e)
                outs.append(c)
            return self.mk('tuple', (tuple(outs),), e)
        if f.op == 'ref' and f.args[0] == ('builtin', 'zip') and plain and not kws and len(args) >= 2 and all(a.op in ('tuple', 'list') for a in args) \
                and len({len(a.args[0]) for a in args}) == 1 and not any(x.op == 'star' for a in args for x in a.args[0]):
            # zip((a, b), (c, d)) is ((a, c), (b, d))
            return self.mk('tuple', (tuple(self.mk('tuple', (tuple(a.args[0][i] for a in args),), e) for i in range(len(args[0].args[0]))),), e)
        if f.op == 'ref' and f.args[0] == ('builtin', 'enumerate') and plain and not kws and len(args) == 1 and args[0].op in ('tuple', 'list') \
                and not any(x.op == 'star' for x in args[0].args[0]):
            return self.mk('tuple', (tuple(self.mk('tuple', ((const(i, e, self.fn), x),), e) for i, x in enumerate(args[0].args[0])),), e)
        if f.op == 'ref' and f.args[0] == ('builtin', 'slice') and plain and not kws and 1 <= len(args) <= 3:
            none = const(None, e, self.fn)
            lo, hi, st = (none, args[0], none) if len(args) == 1 else (args[0], args[1], none) if len(args) == 2 else tuple(args)
            return self.mk('slice', (lo, hi, st), e)          # slice(None) is `:`
        nt_fields = self._namedtuple_fields(f.args[0]) if f.op == 'ref' else None
        if nt_fields is not None and plain:
            # Point(a, y=b) of a NamedTuple class is the tuple (a, b) whose components also have names
            names, defaults = nt_fields
            given = dict(zip(names, args))
            ok = len(args) <= len(names) and all(k in names and k not in given for k, _ in kws)
            given.update(kws)
            if ok and all(n in given or n in defaults for n in names):
                items = []
                for n in names:
                    if n in given:
                        items.append(given[n])
                    else:
                        saved = self.cur_fn
                        self.cur_fn = _ModScope(f.args[0].mod if isinstance(f.args[0], Cls) else f.args[0][1])
                        try:
                            items.append(self.expr(defaults[n], {}))
                        finally:
                            self.cur_fn = saved
                t = self.mk('tuple', (tuple(items),), e)
                t.extra = ('fields', tuple(names))
                return t
        if f.op == 'ref' and f.args[0] == ('builtin', 'dict') and plain and not args:
            return self.mk('dict', (tuple(const(k, e, self.fn) for k, _ in kws), tuple(v for _, v in kws)), e)          # dict(a=1) is {'a': 1}
        if lib in UFUNC_BINOP and plain and len(args) == 2 and all(k == 'out' for k, _ in kws):
            opn = UFUNC_BINOP[lib]
            if not kws:
                if opn == 'MatMult':
                    mm = self._matmul_form(args[0], args[1], e)
                    if mm is not None:
                        return mm
                return self.mk('binop', (opn, args[0], args[1]), e)
            out = kws[0][1]
            if out is args[0]:
                new = self.mk('iop', (opn, args[0], args[1]), e)
                name = next((k.value.id for k in e.keywords if k.arg == 'out' and isinstance(k.value, ast.Name)), None)
                self.event('inplace', new, e, data=dict(target=args[0], how='augassign', name=name))
                if name is not None:
                    self.bind(name, new, env, e)
                    self._write_through_view(args[0], new, env, e, skip=name)
                return new
            if out is args[1]:
                # np.subtract(a, b, out=b): the buffer of the SECOND operand receives a - b
                new = self.mk('binop', (opn, args[0], args[1]), e)
                name = next((k.value.id for k in e.keywords if k.arg == 'out' and isinstance(k.value, ast.Name)), None)
                self.event('inplace', new, e, data=dict(target=args[1], how='out', name=name))
                if name is not None:
                    self.bind(name, new, env, e)
                    self._write_through_view(args[1], new, env, e, skip=name)
                return new
            return None
        if lib == 'numpy.sum' and plain and args and args[0].op == 'call' and args[0].args[0].op == 'ref' and isinstance(args[0].args[0].args[0], Lib) \
                and args[0].args[0].args[0].dotted == 'numpy.diagonal' and not any(a.op == 'star' for a in args[0].args[1]) and all(k is not None for k, _ in args[0].args[2]):
            # np.sum(np.diagonal(x, axis1=a, axis2=b), axis=-1) is np.trace(x, axis1=a, axis2=b): the diagonal is appended as the LAST axis
            kw_ = dict(kws)
            ax_ = kw_.get('axis', args[1] if len(args) > 1 else None)
            if ax_ is not None and ax_.op == 'const' and ax_.args[0] == -1 and not isinstance(ax_.args[0], bool) and not (set(kw_) - {'axis'}) and len(args) <= 2:
                d_ = args[0]
                dk = dict(d_.args[2])
                pos_ = list(d_.args[1])
                off = dk.get('offset', pos_[1] if len(pos_) > 1 else None)
                a1 = dk.get('axis1', pos_[2] if len(pos_) > 2 else None)
                a2 = dk.get('axis2', pos_[3] if len(pos_) > 3 else None)
                if (off is None or (off.op == 'const' and off.args[0] == 0)) and a1 is not None and a2 is not None:
                    self.events[:] = [ev for ev in self.events if ev.term is not d_]
                    return self.ex_call_terms(self.mk('ref', (Lib('numpy.trace'),), e), [pos_[0]], [('axis1', a1), ('axis2', a2)], e, env)
        if lib == 'numpy.sqrt' and plain and len(args) == 1 and not kws:
            # np.sqrt(np.einsum('...d,...d->...', x, x.conj()).real) is np.linalg.norm(x, axis=-1) (also with [..., None] in between: keepdims)
            inner, idx_ = args[0], None
            if inner.op == 'sub' and inner.args[1].op == 'tuple' and all(x.op == 'slice' or (x.op == 'const' and (x.args[0] is None or x.args[0] is Ellipsis)) for x in inner.args[1].args[0]):
                inner, idx_ = inner.args[0], inner.args[1]
            if inner.op == 'attr' and inner.args[1] == 'real':
                inner = inner.args[0]
            elif inner.op == 'call' and inner.args[0].op == 'ref' and isinstance(inner.args[0].args[0], Lib) and inner.args[0].args[0].dotted in ('numpy.real', 'numpy.abs') \
                    and len(inner.args[1]) == 1 and not inner.args[2]:
                inner = inner.args[1][0]
            if inner.op == 'call' and inner.args[0].op == 'ref' and isinstance(inner.args[0].args[0], Lib) and inner.args[0].args[0].dotted == 'numpy.einsum' and len(inner.args[1]) == 3 \
                    and not inner.args[2] and inner.args[1][0].op == 'const' and isinstance(inner.args[1][0].args[0], str):
                import re as _re
                m_ = _re.fullmatch(r'\.\.\.([a-zA-Z]),\.\.\.([a-zA-Z])->\.\.\.', inner.args[1][0].args[0].replace(' ', ''))
                if m_ and m_.group(1) == m_.group(2):
                    def unconj(x):
                        if x.op == 'call' and x.args[0].op == 'ref' and isinstance(x.args[0].args[0], Lib) and x.args[0].args[0].dotted in ('numpy.conj', 'numpy.conjugate') \
                                and len(x.args[1]) == 1 and not x.args[2]:
                            return x.args[1][0], True
                        if x.op == 'call' and x.args[0].op == 'attr' and x.args[0].args[1] in ('conj', 'conjugate') and not x.args[1] and not x.args[2] and x.args[0].args[0].op != 'ref':
                            return x.args[0].args[0], True
                        return x, False
                    (u_, cu), (v_, cv) = unconj(inner.args[1][1]), unconj(inner.args[1][2])
                    if u_ is v_ and cu != cv:
                        nrm = self.mk('call', (self.mk('ref', (Lib('numpy.linalg.norm'),), e), (u_,), (('axis', const(-1, e, self.fn)),)), e)
                        self.event('call', nrm, e)
                        return self._sub(nrm, idx_, e) if idx_ is not None else nrm
        if lib == 'numpy.expand_dims' and plain and len(args) + len(kws) == 2:
            # np.expand_dims(reduce(x, axis=a), a) is reduce(x, axis=a, keepdims=True)
            x = args[0] if args else dict(kws).get('a')
            ax = args[1] if len(args) > 1 else dict(kws).get('axis')
            if x is not None and ax is not None and x.op == 'call' and not any(a.op == 'star' for a in x.args[1]) and all(k is not None for k, _ in x.args[2]):
                xf = x.args[0]
                pos_axis = None
                if xf.op == 'ref' and isinstance(xf.args[0], Lib) and xf.args[0].dotted in self.KEEPDIMS_REDUCERS_ARG:
                    pos_axis = self.KEEPDIMS_REDUCERS_ARG[xf.args[0].dotted]
                elif xf.op == 'attr' and xf.args[1] in self.KEEPDIMS_METHODS_ARG and xf.args[0].op != 'ref':
                    pos_axis = 0
                xk = dict(x.args[2])
                if pos_axis is not None and 'keepdims' not in xk and 'out' not in xk:
                    xa = xk.get('axis', x.args[1][pos_axis] if len(x.args[1]) > pos_axis else None)
                    same = xa is not None and (xa is ax or (xa.op == 'const' and ax.op == 'const' and xa.args[0] == ax.args[0] and isinstance(xa.args[0], int)))
                    if same:
                        new = self.mk('call', (xf, x.args[1], x.args[2] + (('keepdims', const(True, e, self.fn)),)), x.node)
                        for ev in self.events:
                            if ev.term is x:
                                ev.term = new
                        return new
        if lib == 'numpy.expand_dims' and plain:
            x = args[0] if args else dict(kws).get('a')
            ax = args[1] if len(args) > 1 else dict(kws).get('axis')
            if x is not None and ax is not None and ax.op == 'const' and isinstance(ax.args[0], int) and not isinstance(ax.args[0], bool) \
                    and len(args) + len(kws) == 2:
                k = ax.args[0]
                full = lambda: self.mk('slice', (const(None, e, self.fn), const(None, e, self.fn), const(None, e, self.fn)), e)
                none = const(None, e, self.fn)
                if k < 0:
                    items = [const(Ellipsis, e, self.fn), none] + [full() for _ in range(-k - 1)]
                else:
                    items = [full() for _ in range(k)] + [none]
                idx = self.mk('tuple', (tuple(items),), e)
                return self._sub(x, idx, e)
            if x is not None and ax is not None and ax.op in ('tuple', 'list') and len(args) + len(kws) == 2 and ax.args[0] \
                    and all(a.op == 'const' and isinstance(a.args[0], int) and not isinstance(a.args[0], bool) and a.args[0] < 0 for a in ax.args[0]):
                # np.expand_dims(x, (-2, -1)): the positions refer to the result; trailing ones give x[..., None, None]
                pos = sorted(a.args[0] for a in ax.args[0])
                if len(set(pos)) == len(pos):
                    width = -pos[0]
                    layout = ['full'] * width
                    for q in pos:
                        layout[width + q] = 'none'
                    return self._unit_axis_sub(x, [], layout, e)
            if x is not None and ax is not None and ax.op in ('tuple', 'list') and len(args) + len(kws) == 2 and ax.args[0] \
                    and all(a.op == 'const' and isinstance(a.args[0], int) and not isinstance(a.args[0], bool) and a.args[0] >= 0 for a in ax.args[0]):
                # np.expand_dims(x, (0, 2)) is x[None, :, None]
                pos = sorted(a.args[0] for a in ax.args[0])
                if len(set(pos)) == len(pos) and pos[-1] <= 6:
                    none = lambda: const(None, e, self.fn)
                    full = lambda: self.mk('slice', (none(), none(), none()), e)
                    items = [none() if j in pos else full() for j in range(pos[-1] + 1)]
                    return self._sub(x, items[0] if len(items) == 1 else self.mk('tuple', (tuple(items),), e), e)
        if lib in UFUNC_CMP and plain and len(args) == 2 and not kws:
            return self.mk('cmp', (UFUNC_CMP[lib], args[0], args[1]), e)          # np.greater(a, b) is a > b
        if lib in ('numpy.not_equal', 'operator.ne') and plain and len(args) == 2 and not kws:
            return self.mk('unop', ('Not', self.mk('cmp', ('Eq', args[0], args[1]), e)), e)
        if lib in OPERATOR_BINOP and plain and len(args) == 2 and not kws:
            return self.mk('binop', (OPERATOR_BINOP[lib], args[0], args[1]), e)
        if lib == 'numpy.where' and plain and len(args) == 3 and not kws and args[0].op == 'cmp' and args[0].args[0] in ('Lt', 'LtE', 'Gt', 'GtE'):
            # np.where(x < c, c, x) / np.where(x > c, x, c) is np.maximum(x, c); np.where(x > c, c, x) / np.where(x < c, x, c) is np.minimum(x, c)
            opn, l, r = args[0].args
            a, b = args[1], args[2]
            if opn in ('Gt', 'GtE'):
                opn, l, r = ('Lt' if opn == 'Gt' else 'LtE'), r, l          # l < r
            if a is r and b is l:
                return self.canonical_call(self.mk('ref', (Lib('numpy.maximum'),), e), [l, r], [], e, env) or self._libcall('numpy.maximum', (l, r), e)
            if a is l and b is r:
                return self.canonical_call(self.mk('ref', (Lib('numpy.minimum'),), e), [l, r], [], e, env) or self._libcall('numpy.minimum', (l, r), e)
        if lib in ('numpy.swapaxes', 'numpy.moveaxis') and plain and len(args) == 3 and not kws and args[0].op == 'call' and all(k is not None for k, _ in args[0].args[2]) \
                and not any(a.op == 'star' for a in args[0].args[1]):
            # np.swapaxes(np.sum(np.swapaxes(x, a, 0), axis=0, keepdims=True), 0, a) is np.sum(x, axis=a, keepdims=True): the reduced axis is brought to a fixed place and back
            red = args[0]
            rf = red.args[0]
            rname = rf.args[0].dotted if rf.op == 'ref' and isinstance(rf.args[0], Lib) else None
            if rname in self.KEEPDIMS_REDUCERS and red.args[1]:
                pos_axis = self.KEEPDIMS_REDUCERS[rname]
                rk = dict(red.args[2])
                r_ax = rk.get('axis', red.args[1][pos_axis] if len(red.args[1]) > pos_axis else None)
                kd = rk.get('keepdims')
                inner = red.args[1][0]
                def cint(c):
                    return c is not None and c.op == 'const' and isinstance(c.args[0], int) and not isinstance(c.args[0], bool)
                if cint(r_ax) and kd is not None and kd.op == 'const' and kd.args[0] is True and 'out' not in rk and inner.op == 'call' and inner.args[0].op == 'ref' \
                        and isinstance(inner.args[0].args[0], Lib) and inner.args[0].args[0].dotted == lib and len(inner.args[1]) == 3 and not inner.args[2]:
                    y, i1, i2 = inner.args[1]
                    o1, o2 = args[1], args[2]
                    k = r_ax.args[0]
                    named = None
                    if lib == 'numpy.swapaxes':
                        # inner exchanges {a, k}; outer exchanges {k, a}
                        for a_, k_ in ((i1, i2), (i2, i1)):
                            if cint(k_) and k_.args[0] == k and not cint(a_):
                                for oa, ok_ in ((o1, o2), (o2, o1)):
                                    if cint(ok_) and ok_.args[0] == k and oa is a_:
                                        named = a_
                    else:
                        # inner moves a -> k; outer moves k -> a
                        if cint(i2) and i2.args[0] == k and not cint(i1) and cint(o1) and o1.args[0] == k and o2 is i1:
                            named = i1
                    if named is not None:
                        new_args = list(red.args[1])
                        new_kws = [(kk, vv) for kk, vv in red.args[2] if kk != 'axis']
                        new_args[0] = y
                        if len(new_args) > pos_axis:
                            new_args[pos_axis] = named
                        else:
                            new_kws.append(('axis', named))
                        new = self.mk('call', (rf, tuple(new_args), tuple(new_kws)), red.node)
                        for ev in self.events:
                            if ev.term is red:
                                ev.term = new
                        self.events[:] = [ev for ev in self.events if ev.term is not inner]
                        return new
        if lib == 'numpy.moveaxis' and plain and len(args) + len(kws) == 3:
            kwd = dict(kws)
            x = args[0] if args else kwd.get('a')
            src = args[1] if len(args) > 1 else kwd.get('source')
            dst = args[2] if len(args) > 2 else kwd.get('destination')
            if x is not None and src is not None and dst is not None and src.op == 'const' and dst.op == 'const' and isinstance(src.args[0], int) and isinstance(dst.args[0], int) \
                    and not isinstance(src.args[0], bool) and abs(src.args[0] - dst.args[0]) == 1 and (src.args[0] < 0) == (dst.args[0] < 0):
                # moving an axis by one position exchanges two neighbours: np.moveaxis(x, -1, -2) is np.swapaxes(x, -1, -2)
                return self._libcall('numpy.swapaxes', (x, src, dst), e)
        if lib == 'numpy.take' and plain and not any(k in ('out', 'mode') for k, _ in kws):
            # np.take(x, i, axis=k) is x[:, ..., i] (k >= 0) / x[..., i, :, ...] (k < 0); without an axis it flattens (left alone)
            kwd = dict(kws)
            x = args[0] if args else kwd.get('a')
            ind = args[1] if len(args) > 1 else kwd.get('indices')
            ax = args[2] if len(args) > 2 else kwd.get('axis')
            if x is not None and ind is not None and ax is not None and ax.op == 'const' and isinstance(ax.args[0], int) and not isinstance(ax.args[0], bool):
                k = ax.args[0]
                full = lambda: self.mk('slice', (const(None, e, self.fn), const(None, e, self.fn), const(None, e, self.fn)), e)
                if k == 0:
                    return self._sub(x, ind, e)
                items = ([full() for _ in range(k)] + [ind]) if k > 0 else ([const(Ellipsis, e, self.fn), ind] + [full() for _ in range(-k - 1)])
                return self._sub(x, self.mk('tuple', (tuple(items),), e), e)
        if lib in ('numpy.full', 'numpy.full_like') and plain:
            # np.full(shape, 1.0) is np.ones(shape); np.full(shape, 0) is np.zeros(shape, dtype=int) ...
            kwd = dict(kws)
            first = args[0] if args else kwd.get('shape', kwd.get('a'))
            val = args[1] if len(args) > 1 else kwd.get('fill_value')
            dt = args[2] if len(args) > 2 else kwd.get('dtype')
            extra = set(kwd) - {'shape', 'a', 'fill_value', 'dtype'}
            if first is not None and val is not None and not extra and val.op == 'const' and not isinstance(val.args[0], bool) and val.args[0] in (0, 1) \
                    and isinstance(val.args[0], (int, float)):
                name = ('ones' if val.args[0] == 1 else 'zeros') + ('_like' if lib.endswith('_like') else '')
                if dt is None and isinstance(val.args[0], int) and not lib.endswith('_like'):
                    dt = self.mk('ref', (('builtin', 'int'),), e)
                t = self.mk('call', (self.mk('ref', (Lib('numpy.' + name),), e), (first,), (('dtype', dt),) if dt is not None else ()), e)
                self.event('call', t, e)
                return t
        if f.op == 'attr' and f.args[1] in ('append', 'insert', 'extend') and plain and not kws and isinstance(e.func, ast.Attribute) \
                and isinstance(e.func.value, ast.Name) and e.func.value.id in env and env[e.func.value.id] is f.args[0] and not self._loops \
                and not (f.args[0].op == 'list' and not any(x.op == 'star' for x in f.args[0].args[0])):
            # shape = list(independent); shape.append(N); shape.insert(len(shape) - 1, K): a list whose front is another sequence of unknown length and whose END is written out
            # is the display [*independent, K, N] as long as the method addresses the written-out end
            def display(t_, depth=0):
                if depth > 4:
                    return None
                if t_.op in ('list', 'tuple'):
                    return list(t_.args[0])
                if t_.op == 'call' and t_.args[0].op == 'ref' and t_.args[0].args[0] in (('builtin', 'list'), ('builtin', 'tuple')) and len(t_.args[1]) == 1 and not t_.args[2] \
                        and t_.args[1][0].op != 'star':
                    inner = display(t_.args[1][0], depth + 1)
                    if inner is not None:
                        return inner
                    x_ = t_.args[1][0]
                    if x_.op in ('param', 'unpack', 'sub', 'attr', 'refine'):
                        return [self.mk('star', (x_,), x_.node)]          # list(independent): its items, however many
                    return None
                if t_.op == 'binop' and t_.args[0] == 'Add':
                    a_, b_ = display(t_.args[1], depth + 1), display(t_.args[2], depth + 1)
                    return a_ + b_ if a_ is not None and b_ is not None else None
                if t_.op == 'unpack' and t_.args[3] is not None and t_.args[3] == t_.args[1] and depth > 0:
                    return [self.mk('star', (t_,), t_.node)]          # the starred name of `*independent, N, D = x.shape` as an operand of +: its items
                return None
            items = display(f.args[0]) if f.args[0].op != 'list' or any(x.op == 'star' for x in f.args[0].args[0]) else None
            new_items = None
            if items is not None and f.args[0].op == 'list':
                items = list(f.args[0].args[0])
            if items is not None:
                tail = 0          # number of written-out items at the end
                while tail < len(items) and items[len(items) - 1 - tail].op != 'star':
                    tail += 1
                if f.args[1] == 'append' and len(args) == 1:
                    new_items = items + [args[0]]
                elif f.args[1] == 'extend' and len(args) == 1 and args[0].op in ('list', 'tuple') and not any(x.op == 'star' for x in args[0].args[0]):
                    new_items = items + list(args[0].args[0])
                elif f.args[1] == 'insert' and len(args) == 2:
                    k = None
                    a0 = args[0]
                    if a0.op == 'const' and isinstance(a0.args[0], int) and not isinstance(a0.args[0], bool) and a0.args[0] < 0:
                        k = a0.args[0]
                    elif a0.op == 'binop' and a0.args[0] == 'Sub' and a0.args[2].op == 'const' and isinstance(a0.args[2].args[0], int) and not isinstance(a0.args[2].args[0], bool) \
                            and a0.args[2].args[0] >= 1 and a0.args[1].op == 'call' and a0.args[1].args[0].op == 'ref' and a0.args[1].args[0].args[0] == ('builtin', 'len') \
                            and len(a0.args[1].args[1]) == 1 and a0.args[1].args[1][0] is f.args[0]:
                        k = -a0.args[2].args[0]          # xs.insert(len(xs) - c, v) is xs.insert(-c, v) for a list of at least c items
                    elif a0.op == 'call' and a0.args[0].op == 'ref' and a0.args[0].args[0] == ('builtin', 'len') and len(a0.args[1]) == 1 and items and items[0].op == 'star' \
                            and a0.args[1][0] is items[0].args[0] and tail == len(items) - 1:
                        k = -tail if tail else None          # xs = independent + [N]; xs.insert(len(independent), K): right behind the part of unknown length
                        if not tail:
                            new_items = items + [args[1]]
                    if k is not None and -k <= tail:
                        new_items = items[:len(items) + k] + [args[1]] + items[len(items) + k:]
            if new_items is not None:
                self.bind(e.func.value.id, self.mk('list', (tuple(new_items),), e), env, e)
                return const(None, e, self.fn)
        if f.op == 'attr' and f.args[1] in ('append', 'insert', 'extend') and plain and not kws and f.args[0].op == 'list' and isinstance(e.func, ast.Attribute) \
                and isinstance(e.func.value, ast.Name) and e.func.value.id in env and env[e.func.value.id] is f.args[0] \
                and not any(x.op == 'star' for x in f.args[0].args[0]) and not self._loops:
            # (outside loops only: a list that grows in a loop has no literal form)
            # xs = [a, b]; xs.insert(0, c) / xs.append(c) / xs.extend([c, d]): the name denotes the longer literal list afterwards
            items = list(f.args[0].args[0])
            new_items = None
            if f.args[1] == 'append' and len(args) == 1:
                new_items = items + [args[0]]
            elif f.args[1] == 'insert' and len(args) == 2 and args[0].op == 'const' and isinstance(args[0].args[0], int) and not isinstance(args[0].args[0], bool):
                k = args[0].args[0]
                k = max(0, len(items) + k) if k < 0 else min(k, len(items))
                new_items = items[:k] + [args[1]] + items[k:]
            elif f.args[1] == 'extend' and len(args) == 1 and args[0].op in ('list', 'tuple') and not any(x.op == 'star' for x in args[0].args[0]):
                new_items = items + list(args[0].args[0])
            if new_items is not None:
                self.bind(e.func.value.id, self.mk('list', (tuple(new_items),), e), env, e)
                return const(None, e, self.fn)
        if f.op == 'attr' and f.args[1] in ('append', 'extend') and plain and not kws and len(args) == 1 and isinstance(e.func, ast.Attribute) \
                and isinstance(e.func.value, ast.Name) and e.func.value.id in env and env[e.func.value.id] is f.args[0] and not self._loops and self._list_valued(f.args[0]):
            # xs = [i for i in ...]; xs.extend((a, b)) / xs.append(a): the name denotes the concatenation  xs + [a, b]  afterwards
            tail = None
            if f.args[1] == 'append':
                tail = self.mk('list', ((args[0],),), e)
            elif args[0].op in ('list', 'tuple') and not any(x.op == 'star' for x in args[0].args[0]):
                tail = self.mk('list', (args[0].args[0],), e)
            if tail is not None:
                self.bind(e.func.value.id, self.mk('binop', ('Add', f.args[0], tail), e), env, e)
                return const(None, e, self.fn)
        def grown(t_, depth=0):
            # a list (literal, comprehension, already changed in place), also when it is carried around a loop
            if self._list_valued(t_) or t_.op in ('mutated', 'list'):
                return True
            return t_.op == 'mu' and depth < 4 and grown(t_.args[0], depth + 1)
        if f.op == 'attr' and (f.args[1] in ('insert', 'pop', 'remove', 'sort', 'reverse', 'clear') or (f.args[1] in ('append', 'extend') and self._loops)) \
                and isinstance(e.func, ast.Attribute) and isinstance(e.func.value, ast.Name) \
                and e.func.value.id in env and env[e.func.value.id] is f.args[0] and grown(f.args[0]):
            # a list that is changed in place by a method the forms above do not describe: afterwards the name denotes SOME list derived from the old one - not the
            # old value (the term of the old value would claim elements and an order that no longer hold)
            t = self.mk('call', (f, tuple(args), tuple(kws)), e)
            self.event('call', t, e)
            self.bind(e.func.value.id, self.mk('mutated', (f.args[0], t), e), env, e)
            return t
        if f.op == 'attr' and f.args[1] == 'fill' and plain and len(args) == 1 and not kws and isinstance(e.func, ast.Attribute) and isinstance(e.func.value, ast.Name) \
                and e.func.value.id in env and env[e.func.value.id] is f.args[0]:
            # x = np.empty(shape[, dtype]); x.fill(v)   is   x = np.full(shape, v[, dtype])
            r = f.args[0]
            if r.op == 'call' and r.args[0].op == 'ref' and isinstance(r.args[0].args[0], Lib) and r.args[0].args[0].dotted in ('numpy.empty', 'numpy.zeros', 'numpy.ones') \
                    and not any(a.op == 'star' for a in r.args[1]) and all(k is not None for k, _ in r.args[2]):
                rk = dict(r.args[2])
                shp = r.args[1][0] if r.args[1] else rk.get('shape')
                dt = r.args[1][1] if len(r.args[1]) > 1 else rk.get('dtype')
                if shp is not None and not (set(rk) - {'shape', 'dtype'}):
                    kw2 = [('dtype', dt)] if dt is not None else []
                    t = self.canonical_call(self.mk('ref', (Lib('numpy.full'),), e), [shp, args[0]], kw2, e, env)
                    if t is None:
                        t = self.mk('call', (self.mk('ref', (Lib('numpy.full'),), e), (shp, args[0]), tuple(kw2)), e)
                        self.event('call', t, e)
                    self.bind(e.func.value.id, t, env, e)
                    return const(None, e, self.fn)
        if plain and not kws and ((f.op == 'attr' and f.args[1] == 'reshape' and f.args[0].op == 'call') or (lib == 'numpy.reshape' and len(args) == 2 and args[0].op == 'call')):
            # np.arange(n).reshape(-1, 1) is np.arange(n)[:, None]; .reshape(1, -1) is [None, :]   (arange is one-dimensional by construction)
            recv = f.args[0] if f.op == 'attr' else args[0]
            shp = list(args) if f.op == 'attr' else [args[1]]
            if len(shp) == 1 and shp[0].op in ('tuple', 'list'):
                shp = list(shp[0].args[0])
            vals = [x.args[0] if x.op == 'const' else None for x in shp]
            is_arange = recv.args[0].op == 'ref' and isinstance(recv.args[0].args[0], Lib) and recv.args[0].args[0].dotted == 'numpy.arange'
            if is_arange and len(shp) == 2 and len(recv.args[1]) == 1 and not any(k in ('start', 'step') for k, _ in recv.args[2]):
                # np.arange(n).reshape(n, 1): the explicit length is the arange's own
                n_ = recv.args[1][0]
                vals = [-1 if (x is n_ or (x.op == 'const' and n_.op == 'const' and x.args[0] == n_.args[0])) else v for x, v in zip(shp, vals)]
            if is_arange and vals in ([-1, 1], [1, -1]):
                full = self.mk('slice', (const(None, e, self.fn), const(None, e, self.fn), const(None, e, self.fn)), e)
                none = const(None, e, self.fn)
                items = (full, none) if vals == [-1, 1] else (none, full)
                return self.mk('sub', (recv, self.mk('tuple', (items,), e)), e)
        if f.op == 'attr' and f.args[1] == 'get' and f.args[0].op == 'dict' and plain and 1 <= len(args) <= 2 and not kws:
            dd = self._dict_dispatch(f.args[0], args[0], args[1] if len(args) > 1 else const(None, e, self.fn), e)
            if dd is not None:
                return dd
        if plain and len(args) == 1 and not kws:
            # one-argument spellings of an operator / an attribute
            if lib == 'numpy.square':
                return self.mk('binop', ('Pow', args[0], const(2, e, self.fn)), e)
            if lib == 'numpy.reciprocal':
                return self.mk('binop', ('Div', const(1, e, self.fn), args[0]), e)
            if lib == 'numpy.negative':
                return self.mk('unop', ('USub', args[0]), e)
            if lib in ('numpy.shape', 'numpy.ndim', 'numpy.real', 'numpy.imag'):
                return self.mk('attr', (args[0], lib.split('.')[1]), e)          # np.real(x) is x.real
            if f.op == 'ref' and f.args[0] == ('builtin', 'bool') and (args[0].op in ('cmp', 'bool') or (args[0].op == 'unop' and args[0].args[0] == 'Not')):
                return args[0]          # bool(a >= b) is the test itself
            if f.op == 'ref' and f.args[0] == ('builtin', 'len') and args[0].op == 'attr' and args[0].args[1] == 'shape':
                return self.mk('attr', (args[0].args[0], 'ndim'), e)          # len(x.shape) is x.ndim
            if f.op == 'ref' and f.args[0] in (('builtin', 'list'), ('builtin', 'tuple')) and args[0].op in ('tuple', 'list'):
                return self.mk(f.args[0][1], (args[0].args[0],), e)          # list((a, b)) is [a, b]
        if plain and len(args) == 2 and not kws and f.op == 'ref' and f.args[0] == ('builtin', 'getattr') and args[1].op == 'const' and isinstance(args[1].args[0], str) \
                and args[1].args[0].isidentifier():
            return self.load_attr(ast.Attribute(value=e.args[0], attr=args[1].args[0], ctx=ast.Load(), lineno=getattr(e, 'lineno', 0), col_offset=getattr(e, 'col_offset', 0),
                                                end_lineno=getattr(e, 'end_lineno', 0), end_col_offset=getattr(e, 'end_col_offset', 0)), args[0], env)
        if f.op == 'refine' and isinstance(f.args[0], T) and f.args[0].op == 'gamma' and depth_ok(f.args[0]):
            f = f.args[0]          # a callee selected by a conditional, then tested against None
        if f.op == 'gamma' and depth_ok(f):
            # compare = np.greater if c else np.less; compare(a, b)  ->  (a > b) if c else (a < b)
            outs = []
            for pol, br in ((True, f.args[1]), (False, f.args[2])):
                self._guards.append((f.args[0], pol))
                try:
                    if (br.op == 'unknown' and br.args == ('keyerror',)) or (br.op == 'const' and br.args[0] is None):
                        outs.append(self.mk('unknown', ('keyerror',), e))          # calling the missing entry of a dispatch table raises
                        continue
                    a2 = [self._specialise(a, f.args[0], pol) for a in args]
                    k2 = [(k, self._specialise(v, f.args[0], pol)) for k, v in kws]
                    if br.op == 'partial':
                        later_ = {k for k, _ in k2 if k is not None}
                        a2, k2, br = list(br.args[1]) + a2, [(k, v) for k, v in br.args[2] if k not in later_] + k2, br.args[0]
                    c = self.canonical_call(br, a2, k2, e, env)
                    if c is None:
                        c = self.mk('call', (br, tuple(a2), tuple(k2)), e)
                        self.event('call', c, e)
                    outs.append(c)
                finally:
                    self._guards.pop()
            return self.mk('gamma', (f.args[0], outs[0], outs[1]), e)
        is_sum = lib == 'numpy.sum' or (f.op == 'attr' and f.args[1] == 'sum' and lib is None)
        if is_sum and plain:
            # np.sum(x * y, axis=-1) / (x * y).sum(-1) is the contraction einsum('...d,...d->...', x, y)
            pos_ = ([f.args[0]] if f.op == 'attr' else []) + list(args)
            kwd = dict(kws)
            ax = pos_[1] if len(pos_) > 1 else kwd.get('axis')
            kd = kwd.get('keepdims')
            extra = set(kwd) - {'axis', 'keepdims'}
            prod = pos_[0] if pos_ else None
            if prod is not None and len(pos_) <= 2 and not extra and prod.op == 'binop' and prod.args[0] == 'Mult' and ax is not None and ax.op == 'const' \
                    and ax.args[0] == -1 and (kd is None or (kd.op == 'const' and kd.args[0] is False)):
                sub = const('...d,...d->...', e, self.fn)
                return self._libcall('numpy.einsum', (sub, prod.args[1], prod.args[2]), e)
        if lib == 'numpy.append' and plain:
            kwd = dict(kws)
            arr = args[0] if args else kwd.get('arr')
            vals = args[1] if len(args) > 1 else kwd.get('values')
            ax = args[2] if len(args) > 2 else kwd.get('axis')
            if arr is not None and vals is not None and ax is not None and not (ax.op == 'const' and ax.args[0] is None):
                # np.append(a, b, axis=k) is np.concatenate((a, b), axis=k)  (without an axis it flattens: left alone)
                t = self.mk('call', (self.mk('ref', (Lib('numpy.concatenate'),), e), (self.mk('tuple', ((arr, vals),), e),), (('axis', ax),)), e)
                self.event('call', t, e)
                return t
        if lib == 'operator.index' and plain and len(args) == 1 and not kws:
            return args[0]                    # operator.index(n) is n (or raises)
        if lib == 'numpy.clip' and plain and not any(k == 'out' for k, _ in kws):
            kwd = dict(kws)
            x = args[0] if args else kwd.get('a')
            lo = args[1] if len(args) > 1 else kwd.get('a_min', kwd.get('min'))
            hi = args[2] if len(args) > 2 else kwd.get('a_max', kwd.get('max'))
            none = lambda v: v is None or (v.op == 'const' and v.args[0] is None)
            if x is not None and not none(lo) and none(hi):
                return self._libcall('numpy.maximum', (x, lo), e)          # clip(x, lo, None) is maximum(x, lo)
            if x is not None and none(lo) and not none(hi):
                return self._libcall('numpy.minimum', (x, hi), e)
        if lib in ('numpy.minimum', 'numpy.maximum') and plain and len(args) == 2 and not kws:
            # minimum(maximum(x, lo), hi) / maximum(minimum(x, hi), lo) is clip(x, lo, hi)
            other = 'numpy.maximum' if lib == 'numpy.minimum' else 'numpy.minimum'
            for inner, bound in ((args[0], args[1]), (args[1], args[0])):
                if inner.op == 'call' and inner.args[0].op == 'ref' and isinstance(inner.args[0].args[0], Lib) and inner.args[0].args[0].dotted == other \
                        and len(inner.args[1]) == 2 and not inner.args[2]:
                    x, b2 = inner.args[1]
                    if x.op in ('const', 'attr') and b2.op not in ('const', 'attr'):
                        x, b2 = b2, x           # maximum(lo, x): the simple operand is the bound
                    lo, hi = (b2, bound) if lib == 'numpy.minimum' else (bound, b2)
                    return self._libcall('numpy.clip', (x, lo, hi), e)
        return self.inline_helper(f, args, kws, e, env)

    def _libcall(self, dotted, args, node):
        t = self.mk('call', (self.mk('ref', (Lib(dotted),), node), tuple(args), ()), node)
        self.event('call', t, node)
        return t

    def _note_unfollowed_call(self, f, args, kws, e):
        """a call the graph keeps as an opaque call although what it does depends on values the graph does not resolve (see pbv/opaque.py)"""
        nf = self.__dict__.setdefault('not_followed', [])
        line = getattr(e, 'lineno', 0)
        is_lib = f.op == 'ref' and (isinstance(f.args[0], Lib) or (isinstance(f.args[0], tuple) and f.args[0] and f.args[0][0] == 'builtin'))
        is_lib = is_lib or (f.op == 'attr' and f.args[0].op == 'ref' and isinstance(f.args[0].args[0], (Lib, Mod)))
        # x.reshape(n, *x.shape[2:]) / x.transpose(*axes): methods of arrays, no repository code behind them
        is_lib = is_lib or (f.op == 'attr' and f.args[1] in ('reshape', 'transpose', 'view', 'astype', 'swapaxes', 'sum', 'mean', 'max', 'min', 'squeeze', 'repeat', 'take', 'flatten', 'ravel')
                            and not (f.args[0].op == 'param' and f.args[0].args[0] in ('self', 'cls')))
        if f.op in ('sub', 'call', 'gamma', 'partial') or (f.op == 'refine' and isinstance(f.args[0], T) and f.args[0].op in ('gamma', 'sub', 'call')):
            nf.append(('callee selected at run time', line))
        if not is_lib:
            if any(a.op == 'star' for a in args):
                nf.append(('starred arguments that are not a display', line))
            if any(k is None for k, _ in kws):
                nf.append(('keyword dictionary that is not a display', line))
            if any(isinstance(a, T) and a.op in ('closure', 'partial') for a in list(args) + [v for _, v in kws]):
                nf.append(('local function passed on as a value', line))

    def _gave_up(self, callee, node):
        """a helper / local function that should have been evaluated in place could not be (starred arguments, recursion, generators ...): what it does is not in the
        graph of the caller.  Recorded, so that a report about the caller is not mistaken for a decided deviation (core.Run._not_followed)."""
        self.__dict__.setdefault('not_followed', []).append((f'local / new helper not evaluated in place ({getattr(callee, "qual", str(callee)).split("::")[-1]})', getattr(node, 'lineno', 0)))
        return None

    def inline_helper(self, f, args, kws, e, env):
        """a call of a repo function that the reference tree (pbv/known_funcs.json) does not have is evaluated in place"""
        callee, cenv, pre = None, {}, []
        live_capture = None
        if f.op == 'ref' and isinstance(f.args[0], Func):
            callee = f.args[0]
        elif f.op == 'closure':
            callee, cenv = f.args[0], dict(f.extra or {})
            scope = cenv.pop(('$scope',), None)
            if scope == (id(self.cur_fn), len(self._inline_stack)):
                # called in the scope that defined it: a local function reads the CURRENT values of the variables it captured (late binding), not the ones at its definition
                for k_ in list(cenv):
                    if k_ in env:
                        cenv[k_] = env[k_]
                live_capture = dict(cenv)
        elif f.op == 'attr' and self.self_name and f.args[0] is self.params.get(self.self_name) and self.fn.cls is not None and not self._inline_stack:
            m = self.prog.find_method(self.fn.cls, f.args[1]) if hasattr(self.prog, 'find_method') else self.fn.cls.methods.get(f.args[1])
            if isinstance(m, Func) and not m.is_classmethod and not m.is_property:
                callee, pre = m, ([] if m.is_static else [f.args[0]])
        is_lambda = callee is not None and callee.name == '<lambda>'
        if callee is None or (callee.qual in known_funcs() and not is_lambda):
            return None
        if is_lambda and f.op != 'closure':
            return None
        memoised = bool(getattr(callee, 'decorators', None)) and bool(callee.decorators & {'lru_cache', 'cache'})
        if getattr(callee, 'decorators', None) and callee.decorators - {'staticmethod', 'classmethod', 'lru_cache', 'cache'}:
            # a decorated function is not its body (wrappers): it stays a call
            return None if callee.decorators & {'cached_property', 'property'} else self._gave_up(callee, e)
        if callee in self._inline_stack or len(self._inline_stack) >= 3 or callee.kwarg:
            return self._gave_up(callee, e)
        pos_ = callee.posonly + callee.args
        n_fixed = len(pos_) - len(pre)
        # f(a, *rest) called as f(x, *ys): the starred actual IS the tuple `rest` (whatever its length)
        star_is_rest = callee.vararg and len(args) == n_fixed + 1 and args[-1].op == 'star' and not any(a.op == 'star' for a in args[:-1])
        if (any(a.op == 'star' for a in args) and not star_is_rest) or any(k is None for k, _ in kws):
            return self._gave_up(callee, e)
        if any(isinstance(n, (ast.Yield, ast.YieldFrom, ast.Global, ast.Nonlocal, ast.Await)) for n in ast.walk(callee.node)):
            return self._gave_up(callee, e)
        if callee.cls is not None and not pre and not callee.is_static:
            return self._gave_up(callee, e)
        if f.op == 'attr' and isinstance(f.args[0], T) and f.args[0].op == 'ref' and isinstance(f.args[0].args[0], Cls):
            pass
        pos = callee.posonly + callee.args
        actual = pre + list(args)
        if len(actual) > len(pos) and not callee.vararg:
            return self._gave_up(callee, e)
        bound = dict(zip(pos, actual))
        if callee.vararg and star_is_rest:
            bound[callee.vararg] = actual[-1].args[0]
        elif callee.vararg:
            # f(a, *rest): the surplus positional arguments are the tuple `rest`
            bound[callee.vararg] = self.mk('tuple', (tuple(actual[len(pos):]),), e)
        for k, v in kws:
            if k in bound or k not in callee.params:
                return self._gave_up(callee, e)
            bound[k] = v
        saved = self.cur_fn
        self.cur_fn = callee
        try:
            for p in callee.params:
                if p not in bound:
                    if p not in callee.defaults:
                        return self._gave_up(callee, e)
                    bound[p] = self.expr(callee.defaults[p], {})
            env2 = dict(cenv)
            env2.update(bound)
            self._inline_stack.append(callee)
            self._inline_exits.append([])
            self.inlined.append((callee, e))
            try:
                body = callee.node.body
                if isinstance(callee.node, ast.Lambda):
                    body = [ast.Return(value=callee.node.body, lineno=getattr(callee.node, 'lineno', 0), col_offset=0)]
                env_out, ret = self.block(body, env2)
            finally:
                self._inline_stack.pop()
                exits = self._inline_exits.pop()
        finally:
            self.cur_fn = saved
        # a helper that updates an argument in place (x[i] = ..., x /= ...) updates the caller's array: names of the caller that
        # denote the argument denote the updated value afterwards (single exit, or all exits agreeing)
        finals = exits + ([env_out] if env_out is not None else [])
        for p_, a_ in bound.items():
            if not isinstance(a_, T) or not finals:
                continue
            vals = [fe.get(p_) for fe in finals]
            if any(v is None for v in vals) or any(v is not vals[0] for v in vals[1:]):
                continue
            v = vals[0]
            if v is not a_ and self._rooted_at(v, a_):
                for k in list(env):
                    if env[k] is a_:
                        env[k] = v
        # ... and a local function that updates a captured array in place (features[:, f] = ...) updates the array of the enclosing function
        if live_capture is not None and finals:
            for k_, a_ in live_capture.items():
                if not isinstance(a_, T) or k_ in bound:
                    continue
                vals = [fe.get(k_) for fe in finals]
                if any(v is None for v in vals) or any(v is not vals[0] for v in vals[1:]):
                    continue
                v = vals[0]
                if v is not a_ and self._rooted_at(v, a_) and env.get(k_) is a_:
                    env[k_] = v
        out = subst_fall(ret, const(None, e, self.fn))
        if memoised:
            # evaluated in place for its VALUE; the marker keeps the fact that every call with equal arguments is handed the same object
            out = self._libcall('pbv.memoised', (out, const(callee.qual, e, self.fn)), e)
        return out

    @staticmethod
    def _list_valued(t):
        """a list comprehension, or a concatenation that starts with one / with a list literal"""
        for _ in range(20):
            if not isinstance(t, T):
                return False
            if t.op == 'comp':
                return t.args[0] == 'list'
            if t.op == 'list':
                return True
            if t.op == 'call' and t.args[0].op == 'ref' and t.args[0].args[0] == ('builtin', 'list'):
                return True          # list(x) is a fresh list
            if t.op == 'binop' and t.args[0] == 'Add':
                t = t.args[1]
                continue
            return False
        return False

    @staticmethod
    def _rooted_at(t, a, depth=0):
        """t is `a` after in-place updates (stores / augmented assignments / loop-carried versions of them)"""
        while isinstance(t, T) and depth < 50:
            depth += 1
            if t is a:
                return True
            if t.op == 'store':
                t = t.args[0]
            elif t.op == 'iop':
                t = t.args[1]
            elif t.op == 'mu':
                t = t.args[0]
            elif t.op == 'gamma':
                return FuncGraph._rooted_at(t.args[1], a, depth) or FuncGraph._rooted_at(t.args[2], a, depth)
            else:
                return False
        return False

    def ex_BinOp(self, e, env):
        a, b = self.expr(e.left, env), self.expr(e.right, env)
        # literal tuples / lists: (None,) * 2 is (None, None); (..., None) + (slice(None),) is (..., None, :)
        if isinstance(e.op, ast.Mult):
            for u, v in ((a, b), (b, a)):
                if u.op in ('tuple', 'list') and v.op == 'const' and isinstance(v.args[0], int) and not isinstance(v.args[0], bool) and 0 <= v.args[0] <= 8 \
                        and not any(x.op == 'star' for x in u.args[0]):
                    return self.mk(u.op, (tuple(u.args[0]) * v.args[0],), e)
        if isinstance(e.op, ast.Add) and a.op == b.op and a.op in ('tuple', 'list') and not any(x.op == 'star' for x in tuple(a.args[0]) + tuple(b.args[0])):
            return self.mk(a.op, (tuple(a.args[0]) + tuple(b.args[0]),), e)
        if isinstance(e.op, ast.Add):
            # string literals: 'a' + 'b' is 'ab'; a literal selected by a test stays a literal selected by that test
            def dead(x):
                return x.op == 'raise' or (x.op == 'unknown' and x.args == ('keyerror',))

            def cat(x, y, depth=0):
                if dead(x):
                    return x
                if dead(y):
                    return y
                if x.op == 'const' and y.op == 'const' and isinstance(x.args[0], str) and isinstance(y.args[0], str):
                    return const(x.args[0] + y.args[0], e, self.fn)
                if depth < 8 and x.op == 'gamma':
                    p, q = cat(x.args[1], y, depth + 1), cat(x.args[2], y, depth + 1)
                    return self.mk('gamma', (x.args[0], p, q), e) if p is not None and q is not None else None
                if depth < 8 and y.op == 'gamma':
                    p, q = cat(x, y.args[1], depth + 1), cat(x, y.args[2], depth + 1)
                    return self.mk('gamma', (y.args[0], p, q), e) if p is not None and q is not None else None
                return None
            if 'gamma' in (a.op, b.op) and {a.op, b.op} <= {'gamma', 'const'}:
                c_ = cat(a, b)
                if c_ is not None:
                    return c_
        if isinstance(e.op, ast.Pow) and b.op == 'const' and b.args[0] == 0.5 and not isinstance(b.args[0], bool):
            return self._libcall('numpy.sqrt', (a,), e)          # x ** 0.5 is np.sqrt(x)
        if isinstance(e.op, ast.Add):
            # -b + a  and  a + (-b)  are  a - b
            if a.op == 'unop' and a.args[0] == 'USub' and not (b.op == 'unop' and b.args[0] == 'USub'):
                return self.mk('binop', ('Sub', b, a.args[1]), e)
            if b.op == 'unop' and b.args[0] == 'USub' and not (a.op == 'unop' and a.args[0] == 'USub'):
                return self.mk('binop', ('Sub', a, b.args[1]), e)
        if isinstance(e.op, ast.MatMult):
            mm = self._matmul_form(a, b, e)
            if mm is not None:
                return mm
        if isinstance(e.op, ast.Mult):
            # a[..., :, None] * b[..., None, :]  is the outer product einsum('...d,...D->...dD', a, b)
            ka, kb = self._outer_kind_conj(a, e), self._outer_kind_conj(b, e)
            if ka is not None and kb is not None and {ka[0], kb[0]} == {'col', 'row'}:
                col, row = (ka[1], kb[1]) if ka[0] == 'col' else (kb[1], ka[1])
                return self._libcall('numpy.einsum', (const('...d,...D->...dD', e, self.fn), col, row), e)
            # x * 0.5 / 0.5 * x is x / 2
            for u, v in ((a, b), (b, a)):
                if v.op == 'const' and isinstance(v.args[0], float) and v.args[0] == 0.5 and u.op != 'const':
                    return self.mk('binop', ('Div', u, const(2, e, self.fn)), e)
        return self.mk('binop', (type(e.op).__name__, a, b), e)

    def _matmul_form(self, a, b, e):
        """a @ b / np.matmul(a, b) as the einsum it is, when the operands are written so that their last axes can be named:
             swapaxes(A, -1, -2) @ B                  einsum('...nd,...nD->...dD', A, B)          (also with one weight per row / column multiplied in)
             (m[..., :, None, :] * conj(x)[..., None, :, :]) @ swapaxes(x, -1, -2)[..., None, :, :]
                                                      einsum('...kt,...dt,...et->...kde', m, conj(x), x)   (broadcast factors with explicit unit axes)"""
        general = self._matmul_by_labels(a, b, e)
        if general is not None:
            return general
        sa, sb = self._last_two_swapped(a), self._last_two_swapped(b)
        if (sa is None) != (sb is None):
            if sa is not None:
                letters, ops = ['nd', 'nD'], [sa, b]
            else:
                letters, ops = ['dn', 'Dn'], [a, sb]
            # an operand scaled by one weight per row / column (w[..., None] * y) is a further operand of the contraction
            extra = []
            for k_, o_ in enumerate(list(ops)):
                if o_.op == 'binop' and o_.args[0] == 'Mult':
                    for w_, y_ in ((o_.args[1], o_.args[2]), (o_.args[2], o_.args[1])):
                        if w_.op == 'sub' and w_.args[1].op == 'tuple' and len(w_.args[1].args[0]) == 2 and w_.args[1].args[0][0].op == 'const' \
                                and w_.args[1].args[0][0].args[0] is Ellipsis and w_.args[1].args[0][1].op == 'const' and w_.args[1].args[0][1].args[0] is None:
                            extra.append((letters[k_][0], w_.args[0]))
                            ops[k_] = y_
                            break
                        # w[..., None, :] / np.expand_dims(w, -2): one weight per entry of the LAST axis
                        wl_ = None
                        if w_.op == 'sub' and w_.args[1].op == 'tuple' and len(w_.args[1].args[0]) == 3 and w_.args[1].args[0][0].op == 'const' \
                                and w_.args[1].args[0][0].args[0] is Ellipsis and w_.args[1].args[0][1].op == 'const' and w_.args[1].args[0][1].args[0] is None \
                                and w_.args[1].args[0][2].op == 'slice' and all(z_.op == 'const' and z_.args[0] is None for z_ in w_.args[1].args[0][2].args):
                            wl_ = w_.args[0]
                        elif w_.op == 'call' and w_.args[0].op == 'ref' and isinstance(w_.args[0].args[0], Lib) and w_.args[0].args[0].dotted == 'numpy.expand_dims' \
                                and len(w_.args[1]) == 2 and not w_.args[2] and w_.args[1][1].op == 'const' and w_.args[1][1].args[0] == -2:
                            wl_ = w_.args[1][0]
                        if wl_ is not None:
                            extra.append((letters[k_][1], wl_))
                            ops[k_] = y_
                            break
            sub_ = ','.join(['...' + l_ for l_, _ in extra] + ['...' + l_ for l_ in letters]) + '->...dD'
            return self._libcall('numpy.einsum', (const(sub_, e, self.fn),) + tuple(w_ for _, w_ in extra) + tuple(ops), e)
        return None

    def _matmul_by_labels(self, a, b, e):
        """the general case: both operands of the matrix product are products of factors whose trailing axes are spelled out with `[..., None, :, :]` patterns of ONE
        common length n >= 3 (so that the batch axes in front of the matrix axes are aligned by the source, not by broadcasting rules the terms do not show)"""
        def is_full(x):
            return x.op == 'slice' and all(y.op == 'const' and y.args[0] is None for y in x.args)

        def is_none(x):
            return x.op == 'const' and x.args[0] is None

        def pattern(t):
            # t = x[..., <None / :> * n]  ->  (x, [True for a kept axis / False for an inserted one]); else None
            if t.op != 'sub' or t.args[1].op != 'tuple':
                return None
            items = t.args[1].args[0]
            if len(items) < 2 or not (items[0].op == 'const' and items[0].args[0] is Ellipsis) or not all(is_full(x) or is_none(x) for x in items[1:]):
                return None
            return t.args[0], [is_full(x) for x in items[1:]]

        def factors(t, labels, conj, out, depth=0, in_mult=False, named=False):
            # decompose t (trailing axes named by `labels`) into [(base term, letters of its trailing axes, conjugated?)]; False when a factor cannot be named
            if depth > 8:
                return False
            if t.op == 'binop' and t.args[0] == 'Mult':
                return factors(t.args[1], labels, conj, out, depth + 1, True, False) and factors(t.args[2], labels, conj, out, depth + 1, True, False)
            if t.op == 'call' and not t.args[2] and len(t.args[1]) == 1 and t.args[0].op == 'ref' and isinstance(t.args[0].args[0], Lib) \
                    and t.args[0].args[0].dotted in ('numpy.conj', 'numpy.conjugate'):
                return factors(t.args[1][0], labels, not conj, out, depth + 1, in_mult, named)
            if t.op == 'call' and not t.args[1] and not t.args[2] and t.args[0].op == 'attr' and t.args[0].args[1] in ('conj', 'conjugate') and t.args[0].args[0].op != 'ref':
                return factors(t.args[0].args[0], labels, not conj, out, depth + 1, in_mult, named)
            sw = self._last_two_swapped(t)
            if sw is not None and len(labels) >= 2:
                return factors(sw, labels[:-2] + [labels[-1], labels[-2]], conj, out, depth + 1, in_mult, True)          # (swapping the last two axes needs two axes: named)
            pt = pattern(t)
            if pt is not None:
                base, kept = pt
                if len(kept) != len(labels):
                    return False
                sub_labels = [l for l, k in zip(labels, kept) if k]
                if not sub_labels:
                    return False
                return factors(base, sub_labels, conj, out, depth + 1, in_mult, True)
            if t.op in ('const',):
                return False
            if in_mult and not named:
                return False          # a bare factor of a product may have fewer axes than the product (a broadcast weight): its letters are not known
            out.append((t, ''.join(labels), conj))
            return True

        def width(t, depth=0):
            # the length of the `[..., None, :]` patterns in t (all equal), 0 when there is none, -1 when they differ
            if depth > 8:
                return -1
            if t.op == 'binop' and t.args[0] == 'Mult':
                ws = {w for w in (width(t.args[1], depth + 1), width(t.args[2], depth + 1)) if w != 0}
                return -1 if (-1 in ws or len(ws) > 1) else (ws.pop() if ws else 0)
            if t.op == 'call' and len(t.args[1]) == 1 and not t.args[2] and t.args[0].op == 'ref' and isinstance(t.args[0].args[0], Lib) \
                    and t.args[0].args[0].dotted in ('numpy.conj', 'numpy.conjugate'):
                return width(t.args[1][0], depth + 1)
            if t.op == 'call' and not t.args[1] and not t.args[2] and t.args[0].op == 'attr' and t.args[0].args[1] in ('conj', 'conjugate'):
                return width(t.args[0].args[0], depth + 1)
            pt = pattern(t)
            if pt is not None:
                return len(pt[1])
            sw = self._last_two_swapped(t)
            if sw is not None:
                return width(sw, depth + 1)
            return 0
        wa, wb = width(a), width(b)
        if -1 in (wa, wb) or max(wa, wb) < 2 or (wa and wb and wa != wb) or max(wa, wb) > 4:
            return None
        n = max(wa, wb)
        if n >= 3 and (not wa or not wb):
            return None          # one side without explicit unit axes: how its batch axes line up with the other side is not written down
        if n == 2 and not ((a.op == 'binop' and a.args[0] == 'Mult') or (b.op == 'binop' and b.args[0] == 'Mult')):
            return None          # plain A @ B without weights: left to the forms below / to the rules that read `@`
        batch = ['b', 'c'][:n - 2]
        fa, fb = [], []
        if not factors(a, batch + ['i', 'j'], False, fa) or not factors(b, batch + ['j', 'k'], False, fb):
            return None
        # every factor must have been named through a pattern of width n (a bare array among them has an unknown number of axes)
        ops, subs = [], []
        for base, letters, cj in fa + fb:
            ops.append(self._libcall('numpy.conj', (base,), e) if cj else base)
            subs.append('...' + letters)
        sub_ = ','.join(subs) + '->...' + ''.join(batch) + 'ik'
        return self._libcall('numpy.einsum', (const(sub_, e, self.fn),) + tuple(ops), e)

    @staticmethod
    def _index_kinds(idx):
        items = idx.args[0] if idx.op == 'tuple' else (idx,)
        out = ''
        for x in items:
            if x.op == 'const' and x.args[0] is Ellipsis:
                out += 'E'
            elif x.op == 'const' and x.args[0] is None:
                out += 'N'
            elif x.op == 'const' and x.args[0] == 0 and isinstance(x.args[0], int) and not isinstance(x.args[0], bool):
                out += '0'
            elif x.op == 'slice' and all(y.op == 'const' and y.args[0] is None for y in x.args):
                out += ':'
            else:
                out += '?'
        return out

    def _matvec_form(self, base, idx, e):
        """(M @ v[..., None])[..., 0]  (also with explicit full slices instead of `...`)  ->  einsum('...dD,...D->...d', M, v): the matrix-vector product"""
        import re
        if not (base.op == 'binop' and base.args[0] == 'MatMult'):
            return None
        m, v = base.args[1], base.args[2]
        def conj_inside(t):
            # conj(v[..., None, :]) is conj(v)[..., None, :]
            if t.op == 'call' and not t.args[2] and len(t.args[1]) == 1 and t.args[0].op == 'ref' and isinstance(t.args[0].args[0], Lib) and \
                    t.args[0].args[0].dotted in ('numpy.conj', 'numpy.conjugate') and t.args[1][0].op == 'sub':
                return self.mk('sub', (self._libcall('numpy.conj', (t.args[1][0].args[0],), e), t.args[1][0].args[1]), e)
            return t
        m, v = conj_inside(m), conj_inside(v)
        if re.fullmatch(r'(E|:+)0:', self._index_kinds(idx)) and m.op == 'sub' and re.fullmatch(r'(E|:+)N:', self._index_kinds(m.args[1])):
            # (v[..., None, :] @ M)[..., 0, :]  ->  einsum('...d,...dD->...D', v, M): the row vector times the matrix
            return self._libcall('numpy.einsum', (const('...d,...dD->...D', e, self.fn), m.args[0], v), e)
        if not re.fullmatch(r'(E|:+)0', self._index_kinds(idx)):
            return None
        if v.op != 'sub' or not re.fullmatch(r'(E|:+)N|E:N', self._index_kinds(v.args[1])):          # v[..., None] / v[:, None] / v[..., :, None]
            return None
        return self._libcall('numpy.einsum', (const('...dD,...D->...d', e, self.fn), m, v.args[0]), e)

    @staticmethod
    def _last_two_swapped(t):
        """np.swapaxes(x, -1, -2) / x.swapaxes(-2, -1) / np.moveaxis(x, -1, -2)  ->  x, else None"""
        if t.op != 'call' or t.args[2]:
            return None
        f = t.args[0]
        def axes(xs):
            vs = [x.args[0] for x in xs if x.op == 'const' and isinstance(x.args[0], int) and not isinstance(x.args[0], bool)]
            return set(vs) == {-1, -2} and len(xs) == 2
        if f.op == 'ref' and isinstance(f.args[0], Lib) and f.args[0].dotted in ('numpy.swapaxes', 'numpy.moveaxis') and len(t.args[1]) == 3 and axes(t.args[1][1:]):
            return t.args[1][0]
        if f.op == 'attr' and f.args[1] == 'swapaxes' and f.args[0].op != 'ref' and len(t.args[1]) == 2 and axes(t.args[1]):
            return f.args[0]
        return None

    def _outer_kind_conj(self, t, e):
        """_outer_kind, also below a conjugation: conj(x[..., None, :]) -> ('row', conj(x))"""
        k = self._outer_kind(t)
        if k is None and t.op == 'call' and not t.args[2] and len(t.args[1]) == 1 and t.args[0].op == 'ref' and \
                isinstance(t.args[0].args[0], Lib) and t.args[0].args[0].dotted in ('numpy.conj', 'numpy.conjugate'):
            k = self._outer_kind(t.args[1][0])
            if k is not None:
                return k[0], self._libcall('numpy.conj', (k[1],), e)
        return k

    @staticmethod
    def _outer_kind(t):
        """x[..., :, None] / x[..., None] -> ('col', x);  x[..., None, :] -> ('row', x)"""
        if t.op != 'sub' or t.args[1].op != 'tuple':
            return None
        items = t.args[1].args[0]
        def kind(x):
            if x.op == 'const' and x.args[0] is Ellipsis:
                return 'E'
            if x.op == 'const' and x.args[0] is None:
                return 'N'
            if x.op == 'slice' and all(y.op == 'const' and y.args[0] is None for y in x.args):
                return ':'
            return '?'
        ks = ''.join(kind(x) for x in items)
        if ks in ('E:N', 'EN'):
            return 'col', t.args[0]
        if ks == 'EN:':
            return 'row', t.args[0]
        return None

    def ex_UnaryOp(self, e, env):
        v = self.expr(e.operand, env)
        if isinstance(e.op, ast.USub) and v.op == 'const' and isinstance(v.args[0], (int, float, complex)) and not isinstance(v.args[0], bool):
            return const(-v.args[0], e, self.fn)
        if isinstance(e.op, ast.Not) and v.op == 'unop' and v.args[0] == 'Not':
            return v.args[1] if v.args[1].op in ('cmp', 'bool', 'unop') else self.mk('unop', ('Not', v), e)
        return self.mk('unop', (type(e.op).__name__, v), e)

    def ex_BoolOp(self, e, env):
        return self.mk('bool', (type(e.op).__name__, tuple(self.expr(v, env) for v in e.values)), e)

    def ex_Compare(self, e, env):
        left = self.expr(e.left, env)
        parts = []
        for op, c in zip(e.ops, e.comparators):
            r = self.expr(c, env)
            opn = type(op).__name__
            if opn in NEGATED_CMP:
                parts.append(self.mk('unop', ('Not', self.mk('cmp', (NEGATED_CMP[opn], left, r), e)), e))
            else:
                parts.append(self.mk('cmp', (opn, left, r), e))
            left = r
        if len(parts) == 1:
            return parts[0]
        return self.mk('bool', ('And', tuple(parts)), e)

    def ex_IfExp(self, e, env):
        c = self.expr(e.test, env)
        body, orelse = e.body, e.orelse
        while c.op == 'unop' and c.args[0] == 'Not':
            c = c.args[1]
            body, orelse = orelse, body
        self._guards.append((c, True))
        a = self.expr(body, env)
        self._guards.pop()
        self._guards.append((c, False))
        b = self.expr(orelse, env)
        self._guards.pop()
        return self.mk('gamma', (c, a, b), e)

    def ex_Subscript(self, e, env):
        if isinstance(e.value, ast.Name) and e.value.id in self.record_names() and isinstance(e.slice, ast.Constant) and e.value.id in env:
            v = env.get(('$rec', e.value.id, e.slice.value))
            return v if v is not None else self.mk('unknown', ('keyerror',), e)
        base, idx = self.expr(e.value, env), self.index(e.slice, env)
        shape_of = _display_item(base)
        if shape_of.op == 'attr' and shape_of.args[1] == 'shape' and shape_of is not base and (idx.op == 'slice' or (idx.op == 'binop' and idx.args[0] == 'Sub')) and any(
                self._rank_source(x) is not None for x in ((idx.args[0], idx.args[1]) if idx.op == 'slice' else (idx.args[1],)) for x in ([x.args[1]] if x.op == 'binop' else [x])):
            base = shape_of          # shape_A, shape_B = A.shape, B.shape ... shape_A[len(shape_A) - 2:]: read as A.shape[...] for the rank arithmetic below
        if base.op == 'attr' and base.args[1] == 'shape' and idx.op == 'binop' and idx.args[0] == 'Sub' and self._rank_source(idx.args[1]) is not None \
                and _rank_root(self._rank_source(idx.args[1])) is _rank_root(base.args[0]) and idx.args[2].op == 'const' and isinstance(idx.args[2].args[0], int) and idx.args[2].args[0] >= 1:
            idx = const(-idx.args[2].args[0], e, self.fn)          # x.shape[x.ndim - k] is x.shape[-k]
        if base.op == 'attr' and base.args[1] == 'shape' and idx.op == 'slice':
            # ... and x.shape[x.ndim - k:] is x.shape[-k:]
            def neg(b):
                if b.op == 'binop' and b.args[0] == 'Sub' and self._rank_source(b.args[1]) is not None and _rank_root(self._rank_source(b.args[1])) is _rank_root(base.args[0]) \
                        and b.args[2].op == 'const' and isinstance(b.args[2].args[0], int) and b.args[2].args[0] >= 1:
                    return const(-b.args[2].args[0], e, self.fn)
                return b
            lo2, hi2 = neg(idx.args[0]), neg(idx.args[1])
            if lo2 is not idx.args[0] or hi2 is not idx.args[1]:
                idx = self.mk('slice', (lo2, hi2, idx.args[2]), idx.node)
        return self._sub(base, idx, e)

    def _sub(self, base, idx, e):
        """base[idx] in its canonical form (also used by the forms that are built as a subscript: np.expand_dims, np.take, reshapes that only insert unit axes)"""
        composed = self._compose_subscripts(base, idx, e)
        if composed is not None:
            base, idx = composed
        if base.op == 'call' and not base.args[2] and (
                (base.args[0].op == 'ref' and isinstance(base.args[0].args[0], Lib) and base.args[0].args[0].dotted in ('numpy.conj', 'numpy.conjugate') and len(base.args[1]) == 1) or
                (base.args[0].op == 'attr' and base.args[0].args[1] in ('conj', 'conjugate') and not base.args[1])):
            # conj(x)[idx] is conj(x[idx]): the conjugation is kept outermost, where the contraction rules look for it
            inner = base.args[1][0] if base.args[1] else base.args[0].args[0]
            return self._libcall('numpy.conj', (self.mk('sub', (inner, idx), e),), e)
        if idx.op == 'const' and isinstance(idx.args[0], str) and base.op == 'gamma':
            # (d1 if c else d2)['key'] with dict displays: d1['key'] if c else d2['key']
            def pick(b, depth=0):
                if b.op == 'gamma' and depth < 6:
                    x, y = pick(b.args[1], depth + 1), pick(b.args[2], depth + 1)
                    return self.mk('gamma', (b.args[0], x, y), e) if x is not None and y is not None else None
                if b.op == 'dict':
                    for k, v in zip(b.args[0], b.args[1]):
                        if k.op == 'const' and k.args[0] == idx.args[0]:
                            return v
                    return self.mk('unknown', ('keyerror',), e) if all(k.op == 'const' for k in b.args[0]) else None
                if b.op == 'raise' or (b.op == 'unknown' and b.args == ('keyerror',)):
                    return b
                return None
            got = pick(base)
            if got is not None:
                return got
        if idx.op == 'gamma' and self._tuple_tree(idx):
            # x[sel] with sel = (...,) if c else (..., -1): one subscript per alternative
            def dist(i, depth=0):
                if i.op == 'gamma' and depth < 4:
                    return self.mk('gamma', (i.args[0], dist(i.args[1], depth + 1), dist(i.args[2], depth + 1)), e)
                sub_ = self._keepdims_form(base, i, e) or self._matvec_form(base, i, e)
                return sub_ if sub_ is not None else self.mk('sub', (base, i), e)
            return dist(idx)
        kd = self._keepdims_form(base, idx, e)
        if kd is not None:
            return kd
        # reduce(x, axis=-1, keepdims=True)[..., 0]  is  reduce(x, axis=-1): the kept axis is taken out again
        if base.op == 'call' and idx.op == 'tuple' and len(idx.args[0]) == 2 and idx.args[0][0].op == 'const' and idx.args[0][0].args[0] is Ellipsis \
                and idx.args[0][1].op == 'const' and idx.args[0][1].args[0] == 0 and isinstance(idx.args[0][1].args[0], int) and not isinstance(idx.args[0][1].args[0], bool):
            bf, bkw = base.args[0], dict((k, v) for k, v in base.args[2] if k is not None)
            is_red = (bf.op == 'ref' and isinstance(bf.args[0], Lib) and bf.args[0].dotted in self.KEEPDIMS_REDUCERS) or \
                (bf.op == 'attr' and bf.args[1] in self.KEEPDIMS_METHODS and bf.args[0].op != 'ref')
            if is_red and len(bkw) == len(base.args[2]) and 'out' not in bkw:
                pos_axis = self.KEEPDIMS_REDUCERS[bf.args[0].dotted] if bf.op == 'ref' else self.KEEPDIMS_METHODS[bf.args[1]]
                kdv, ax = bkw.get('keepdims'), bkw.get('axis', base.args[1][pos_axis] if len(base.args[1]) > pos_axis else None)
                if kdv is not None and kdv.op == 'const' and kdv.args[0] is True and ax is not None and ax.op == 'const' and ax.args[0] == -1 and not isinstance(ax.args[0], bool):
                    new = self.mk('call', (bf, base.args[1], tuple(kv for kv in base.args[2] if kv[0] != 'keepdims')), base.node)
                    self.event('call', new, e)
                    return new
        mv = self._matvec_form(base, idx, e)
        if mv is not None:
            return mv
        dd = self._dict_dispatch(base, idx, None, e)
        if dd is not None:
            return dd
        return self.mk('sub', (base, idx), e)

    def _compose_subscripts(self, base, idx, e):
        """x[:, f, :][p] is x[p, f, :]: an index applied to a view that was cut out with full slices and integer loop indices addresses the axes the slices left.  Only when
        the integer / array indices of the result stay next to each other (NumPy moves separated advanced indices to the front) and nothing is an Ellipsis or None."""
        if base.op != 'sub':
            return None
        inner = list(base.args[1].args[0]) if base.args[1].op == 'tuple' else [base.args[1]]
        outer = list(idx.args[0]) if idx.op == 'tuple' else [idx]
        is_full = lambda x: x.op == 'slice' and all(y.op == 'const' and y.args[0] is None for y in x.args)

        def int_scalar(x, depth=0):
            # an integer by construction: a literal, the index of a loop over a range, sums / differences of those
            if depth > 3:
                return False
            if x.op == 'const':
                return isinstance(x.args[0], int) and not isinstance(x.args[0], bool)
            if x.op == 'elem' and x.args and isinstance(x.args[0], T):
                it = x.args[0]
                while it.op == 'call' and it.args[0].op == 'ref' and it.args[0].args[0] == ('builtin', 'reversed') and len(it.args[1]) == 1:
                    it = it.args[1][0]
                return it.op == 'call' and it.args[0].op == 'ref' and it.args[0].args[0] == ('builtin', 'range')
            if x.op == 'binop' and x.args[0] in ('Add', 'Sub'):
                return int_scalar(x.args[1], depth + 1) and int_scalar(x.args[2], depth + 1)
            return False
        if not inner or not all(is_full(x) or int_scalar(x) for x in inner) or not any(is_full(x) for x in inner) or not any(int_scalar(x) for x in inner):
            return None
        if not outer or any(x.op == 'star' or x.op == 'slice' and not is_full(x) or (x.op == 'const' and (x.args[0] is None or x.args[0] is Ellipsis)) for x in outer):
            return None
        if idx.op not in ('tuple', 'param', 'elem', 'mu', 'call', 'unpack', 'const', 'gamma', 'refine', 'binop', 'sub'):
            return None
        if idx.op == 'gamma':
            return None
        free = sum(1 for x in inner if is_full(x))
        if len(outer) > free:
            return None
        items, k = [], 0
        for x in inner:
            if is_full(x) and k < len(outer):
                items.append(outer[k])
                k += 1
            else:
                items.append(x)
        # the positions that are not full slices must be contiguous
        pos = [i for i, x in enumerate(items) if not is_full(x)]
        if not pos or pos != list(range(pos[0], pos[-1] + 1)):
            return None
        while len(items) > 1 and is_full(items[-1]) and len(items) > len(inner):
            items.pop()
        return base.args[0], self.mk('tuple', (tuple(items),), e)

    def _dict_dispatch(self, base, key, default, e):
        """{k1: v1, k2: v2}[key]  ->  v1 if key == k1 else (v2 if key == k2 else <KeyError>): a literal dispatch table is the if / elif chain it abbreviates
        (a callee or operand tuple selected this way is then distributed over the call like any other conditional selection)"""
        if base.op != 'dict' or not base.args[0] or len(base.args[0]) > 12:
            return None
        keys, vals = base.args[0], base.args[1]
        if not all(isinstance(k, T) and k.op == 'const' and isinstance(k.args[0], (str, int, bool, type(None))) for k in keys):
            return None
        kv = {k.args[0]: v for k, v in zip(keys, vals)}
        if len(keys) == 2 and all(isinstance(k.args[0], bool) for k in keys) and set(kv) == {True, False} and key.op in ('cmp', 'bool', 'unop'):
            return self.mk('gamma', (key, kv[True], kv[False]), e)          # {True: a, False: b}[test] is a if test else b
        if key.op == 'const':
            for k, v in zip(keys, vals):
                if k.args[0] == key.args[0] and type(k.args[0]) is type(key.args[0]):
                    return v
            return default
        out = default if default is not None else self.mk('unknown', ('keyerror',), e)
        for k, v in reversed(list(zip(keys, vals))):
            out = self.mk('gamma', (self.mk('cmp', ('Eq', key, k), e), v, out), e)
        return out

    KEEPDIMS_REDUCERS = {'numpy.sum': 1, 'numpy.mean': 1, 'numpy.amax': 1, 'numpy.max': 1, 'numpy.amin': 1, 'numpy.min': 1, 'numpy.prod': 1, 'numpy.linalg.norm': 2,
                         'numpy.any': 1, 'numpy.all': 1, 'numpy.std': 1, 'numpy.var': 1}
    ELEMENTWISE_UNARY = ('numpy.sqrt', 'numpy.abs', 'numpy.absolute', 'numpy.exp', 'numpy.log', 'numpy.real', 'numpy.conj', 'numpy.conjugate', 'numpy.log10')
    KEEPDIMS_REDUCERS_ARG = dict(KEEPDIMS_REDUCERS, **{'numpy.argmax': 1, 'numpy.argmin': 1})
    KEEPDIMS_METHODS_ARG = ('sum', 'mean', 'max', 'min', 'prod', 'any', 'all', 'std', 'var', 'argmax', 'argmin')
    KEEPDIMS_METHODS = {'sum': 0, 'mean': 0, 'max': 0, 'min': 0, 'prod': 0, 'any': 0, 'all': 0, 'std': 0, 'var': 0}

    def _keepdims_form(self, base, idx, e):
        """reduce(x, axis=-k)[..., None, <k-1 full slices>]  ->  reduce(x, axis=-k, keepdims=True): the reduced axis is put back where it was"""
        if base.op != 'call' or any(k is None for k, _ in base.args[2]) or any(a.op == 'star' for a in base.args[1]):
            return None
        if idx.op == 'const' and idx.args[0] is None:
            items = (idx,)
        elif idx.op == 'tuple':
            items = idx.args[0]
        else:
            return None
        is_full = lambda x: x.op == 'slice' and all(y.op == 'const' and y.args[0] is None for y in x.args)
        is_none = lambda x: x.op == 'const' and x.args[0] is None
        if len(items) >= 2 and items[0].op == 'const' and items[0].args[0] is Ellipsis and is_none(items[1]) and all(is_full(x) for x in items[2:]):
            k = -(len(items) - 1)
        else:
            # counted from the front: reduce(x, axis=j)[:, None] / reduce(x, axis=0)[None, :] / reduce(x, axis=0)[None]
            j = 0
            while j < len(items) and is_full(items[j]):
                j += 1
            if j == len(items) or not is_none(items[j]) or not all(is_full(x) for x in items[j + 1:]):
                return None
            k = j
        f = base.args[0]
        if f.op == 'ref' and isinstance(f.args[0], Lib) and f.args[0].dotted in self.ELEMENTWISE_UNARY and len(base.args[1]) == 1 and not base.args[2]:
            # an elementwise function commutes with putting the axis back: sqrt(sum(x, -1))[..., None] is sqrt(sum(x, -1, keepdims=True))
            inner = self._keepdims_form(base.args[1][0], idx, e)
            if inner is None:
                return None
            new = self.mk('call', (f, (inner,), ()), base.node)
            for ev in self.events:
                if ev.term is base:
                    ev.term = new
            return new
        if f.op == 'ref' and isinstance(f.args[0], Lib) and f.args[0].dotted in ('numpy.maximum', 'numpy.minimum') and len(base.args[1]) == 2 and not base.args[2]:
            # a floor / ceiling by a SCALAR commutes with putting the axis back: maximum(norm(x, -1), tiny)[..., None] is maximum(norm(x, -1, keepdims=True), tiny)
            def scalar_like(t_):
                if t_.op == 'const' and isinstance(t_.args[0], (int, float)) and not isinstance(t_.args[0], bool):
                    return True
                return t_.op == 'attr' and t_.args[1] in ('tiny', 'eps', 'max', 'min', 'smallest_normal') and t_.args[0].op == 'call' and t_.args[0].args[0].op == 'ref' \
                    and isinstance(t_.args[0].args[0].args[0], Lib) and t_.args[0].args[0].args[0].dotted in ('numpy.finfo', 'numpy.iinfo')
            a_, b_ = base.args[1]
            for arr, sc, first in ((a_, b_, True), (b_, a_, False)):
                if scalar_like(sc) and not scalar_like(arr):
                    inner = self._keepdims_form(arr, idx, e)
                    if inner is None:
                        return None
                    new = self.mk('call', (f, (inner, sc) if first else (sc, inner), ()), base.node)
                    for ev in self.events:
                        if ev.term is base:
                            ev.term = new
                    return new
            return None
        if f.op == 'ref' and isinstance(f.args[0], Lib) and f.args[0].dotted in self.KEEPDIMS_REDUCERS:
            pos_axis = self.KEEPDIMS_REDUCERS[f.args[0].dotted]
        elif f.op == 'attr' and f.args[1] in self.KEEPDIMS_METHODS and not (f.args[0].op == 'ref'):
            pos_axis = self.KEEPDIMS_METHODS[f.args[1]]
        else:
            return None
        kwd = dict(base.args[2])
        if 'keepdims' in kwd or 'out' in kwd:
            return None
        ax = kwd.get('axis', base.args[1][pos_axis] if len(base.args[1]) > pos_axis else None)
        if ax is None or not (ax.op == 'const' and ax.args[0] == k) or isinstance(ax.args[0], bool):
            return None
        new = self.mk('call', (f, base.args[1], base.args[2] + (('keepdims', const(True, e, self.fn)),)), base.node)
        for ev in self.events:
            if ev.term is base:
                ev.term = new
        return new

    def ex_Slice(self, e, env):
        return self.mk('slice', (self.expr(e.lower, env), self.expr(e.upper, env), self.expr(e.step, env)), e)

    def ex_Tuple(self, e, env):
        return self.mk('tuple', (tuple(self._elts(e.elts, env)),), e)

    def ex_List(self, e, env):
        return self.mk('list', (tuple(self._elts(e.elts, env)),), e)

    def ex_Set(self, e, env):
        return self.mk('set', (tuple(self._elts(e.elts, env)),), e)

    def _elts(self, elts, env):
        out = []
        for x in elts:
            if isinstance(x, ast.Starred):
                v = self.expr(x.value, env)
                if v.op in ('tuple', 'list') and not any(y.op == 'star' for y in v.args[0]):
                    out += list(v.args[0])          # (a, *(b, c)) is (a, b, c)
                else:
                    out.append(self.mk('star', (v,), x))
            else:
                out.append(self.expr(x, env))
        return out

    def ex_Dict(self, e, env):
        ks = tuple(self.expr(k, env) if k is not None else const(None) for k in e.keys)
        vs = tuple(self.expr(v, env) for v in e.values)
        return self.mk('dict', (ks, vs), e)

    def ex_Starred(self, e, env):
        return self.mk('star', (self.expr(e.value, env),), e)

    def ex_JoinedStr(self, e, env):
        return self.mk('fstr', (tuple(self.expr(v, env) for v in e.values),), e)

    def ex_FormattedValue(self, e, env):
        return self.expr(e.value, env)

    def ex_NamedExpr(self, e, env):
        v = self.expr(e.value, env)
        self.assign(e.target, v, env, e)
        return v

    def ex_Lambda(self, e, env):
        fd = ast.FunctionDef(name='<lambda>', args=e.args, body=[ast.Return(value=e.body, lineno=e.lineno, col_offset=e.col_offset)],
                             decorator_list=[], returns=None, lineno=e.lineno, col_offset=e.col_offset, type_params=[])
        ast.fix_missing_locations(fd)
        f = self.prog.nested_func(self.cur_fn, fd)
        t = self.mk('closure', (f,), e)
        t.extra = dict(env)
        t.extra[('$scope',)] = (id(self.cur_fn), len(self._inline_stack))
        return t

    def _comp(self, e, env, kind, elts):
        # [f(x) for x in (p, q)] over a short display is the display [f(p), f(q)]
        if kind in ('list', 'gen', 'dict') and len(e.generators) == 1 and not e.generators[0].ifs and not e.generators[0].is_async and not self._loops:
            g0 = e.generators[0]
            n_ev = len(self.events)
            it0 = self.expr(g0.iter, env)
            if it0.op in ('tuple', 'list') and 1 <= len(it0.args[0]) <= 6 and not any(x.op == 'star' for x in it0.args[0]):
                vals, keys = [], []
                for item in it0.args[0]:
                    env2 = dict(env)
                    self._assign_display(g0.target, item, env2, e)
                    if kind == 'dict':
                        keys.append(self.expr(elts[0], env2))
                        vals.append(self.expr(elts[1], env2))
                    else:
                        vals.append(self.expr(elts[0], env2))
                if kind == 'dict':
                    return self.mk('dict', (tuple(keys), tuple(vals)), e)          # {k: f(v) for k, v in <display>} is the dict display
                return self.mk('list' if kind == 'list' else 'tuple', (tuple(vals),), e)
            del self.events[n_ev:]          # (the iterable is evaluated again below, under the comprehension guard)
        env2 = dict(env)
        iters, conds = [], []
        self._guards.append((self.nondet(e, 'comprehension'), True))
        for g in e.generators:
            it = self.expr(g.iter, env2)
            iters.append(it)
            el = self.mk('elem', (it,), g.target)
            lp = Loop(g, 'comp')          # a comprehension generator is a loop for the purpose of "the i-th element" roles
            lp.iter = it
            el.extra = lp
            self.assign(g.target, el, env2, e)
            for c in g.ifs:
                conds.append(self.expr(c, env2))
        vals = tuple(self.expr(x, env2) for x in elts)
        self._guards.pop()
        if kind in ('list', 'gen') and len(iters) == 1 and not conds and len(vals) == 1 and vals[0].op == 'elem' and vals[0].extra is lp:
            # [a for a in X] / (a for a in X) (also after the element was reduced to itself: an axis normalised to the front and back): the items of X
            return self.mk('call', (self.mk('ref', (('builtin', 'list' if kind == 'list' else 'tuple'),), e), (iters[0],), ()), e)
        return self.mk('comp', (kind, vals, tuple(iters), tuple(conds)), e)

    def ex_ListComp(self, e, env):
        return self._comp(e, env, 'list', [e.elt])

    def ex_SetComp(self, e, env):
        return self._comp(e, env, 'set', [e.elt])

    def ex_GeneratorExp(self, e, env):
        return self._comp(e, env, 'gen', [e.elt])

    def ex_DictComp(self, e, env):
        return self._comp(e, env, 'dict', [e.key, e.value])

    def ex_Yield(self, e, env):
        v = self.expr(e.value, env) if e.value is not None else const(None)
        self.event('yield', v, e)
        return self.mk('unknown', ('yield',), e)

    ex_YieldFrom = ex_Await = ex_Yield


def subst_fall(ret, rest):
    """replace FALL leaves of a return gamma-tree by `rest`"""
    if ret is FALL:
        return rest
    if isinstance(ret, T) and ret.op == 'gamma' and _has_fall(ret):
        c, a, b = ret.args
        t = T('gamma', (c, subst_fall(a, rest), subst_fall(b, rest)), ret.node, ret.fn)
        return t
    return ret


def _has_fall(t):
    if t is FALL:
        return True
    if isinstance(t, T) and t.op == 'gamma':
        return _has_fall(t.args[1]) or _has_fall(t.args[2])
    return False


class Graphs:
    """Cache of function graphs for a Program."""

    def __init__(self, prog):
        self.prog = prog
        self._g = {}

    def get(self, fn, closure_env=None):
        g = self._g.get(fn.qual)
        if g is None:
            g = self._g[fn.qual] = FuncGraph(self.prog, fn, closure_env)
        return g

    def build_all(self):
        for f in self.prog.all_funcs():
            self.get(f)
        return self._g


def walk_terms(root, seen=None, into_mu=True):
    """iterate over all terms reachable from root (through args, kwargs, mu.next)"""
    seen = seen if seen is not None else set()
    stack = [root]
    while stack:
        t = stack.pop()
        if not isinstance(t, T) or t.id in seen:
            continue
        seen.add(t.id)
        yield t
        for a in t.args:
            _push(a, stack)
        if t.op == 'mu' and into_mu and t.next is not None:
            stack.append(t.next)


def _push(a, stack):
    if isinstance(a, T):
        stack.append(a)
    elif isinstance(a, tuple):
        for x in a:
            _push(x, stack)
