"""R-EIN: einsum conformance.  Enumerates every np.einsum call of the package, resolves its
subscript set through the constant domain, and provides the generic sesquilinear rules plus
structure queries used by the per-property contract tables.

All comparisons are on the contraction structure (which operand holds which letter at which
position, which letters are contracted / kept), never on the subscript text: renaming letters
or reordering operands does not matter.
"""
from .model import AnalysisError
from .terms import T
from .absint import TOP
from .walk import call_parts, is_conj, same_value, strip_views, const_val, NOVAL
from .nptable import einsum_parse


class Site:
    def __init__(self, fn, graph, event, term):
        self.fn, self.graph, self.event, self.term = fn, graph, event, term
        _, pos, kw = call_parts(term)
        self.sub_term = pos[0] if pos else None
        self.operands = list(pos[1:])
        self.subs = None          # set of subscript strings or None (unresolved)
        self.parsed = []          # [(ops letters list, out letters, ell flags)]

    @property
    def loc(self):
        return self.fn.loc(self.term.node)

    def key(self):
        return f'{self.fn.qual}::einsum@{",".join(sorted(self.subs or ["?"]))}'


def enumerate_sites(A):
    """all einsum call sites of the package with resolved subscripts"""
    cached = A.cache.get('einsum_sites')
    if cached is not None:
        return cached
    sites = []
    ev = A.ev
    for fn in A.prog.all_funcs():
        g = A.graphs.get(fn)
        evs = [e for e in g.events if e.kind == 'call' and call_parts(e.term)[0] == 'numpy.einsum']
        if not evs:
            continue
        ctx = None
        for e in evs:
            s = Site(fn, g, e, e.term)
            c = const_val(s.sub_term) if s.sub_term is not None else NOVAL
            if isinstance(c, str):
                s.subs = {c}
            else:
                if ctx is None:
                    ctx = ev.entry(fn)
                v = ev.eval(s.sub_term, ctx)
                cs = v.consts()
                if cs and all(isinstance(x, str) for x in cs):
                    s.subs = set(cs)
            if s.subs:
                for sub in sorted(s.subs):
                    try:
                        ins, out = einsum_parse(sub)
                        s.parsed.append((sub, [o.replace('...', '') for o in ins], out.replace('...', ''), ['...' in o for o in ins]))
                    except Exception:
                        s.subs = None
                        s.parsed = []
                        break
            sites.append(s)
    A.cache['einsum_sites'] = sites
    return sites


def letter_roles(ins, out):
    """per letter: 'batch' (in every operand and in the output), 'kept' (in the output), 'contracted'"""
    roles = {}
    letters = set(''.join(ins))
    for c in letters:
        if c in out:
            roles[c] = 'batch' if all(c in o for o in ins) and len(ins) > 1 else 'kept'
        else:
            roles[c] = 'contracted'
    return roles


def operand_info(site):
    """[(base term, conjugated?, raw term)] for each operand"""
    out = []
    for t in site.operands:
        b, cj = is_conj(t)
        out.append((b, cj, t))
    return out


def is_complex_model_site(site):
    """einsum sites of the models whose observations are complex by definition (complex Watson / Bingham / angular central Gaussian / circular Gaussian)"""
    return site.fn.mod.name.rsplit('.', 1)[-1].startswith('complex_')


def check_generic(run, site, rule='R-EIN', hermitian=None):
    """(b1) X / conj(X) pairs: the conjugated copy supplies the second free index;
       (b2) for complex data (`hermitian`; default: the complex_* model files) a scatter / outer product of a tensor WITH ITSELF conjugates exactly one
            of the two copies: x x^T is not Hermitian, its eigen-decomposition is not the one of the covariance;
       (b3) a full inner product of two different operands where one side is explicitly conjugated has exactly one conjugated side."""
    info = operand_info(site)
    n_checked = 0
    if hermitian is None:
        hermitian = is_complex_model_site(site)
    if hermitian:
        for sub, ins, out, ells in site.parsed:
            if len(ins) != len(info):
                continue
            for i in range(len(info)):
                for j in range(i + 1, len(info)):
                    (bi, ci, _), (bj, cj, _) = info[i], info[j]
                    if ci != cj or not same_value(bi, bj):
                        continue
                    fi = [c for c in ins[i] if c in out and c not in ins[j]]
                    fj = [c for c in ins[j] if c in out and c not in ins[i]]
                    if len(fi) == 1 and len(fj) == 1:
                        n_checked += 1
                        run.violation(rule, f'{site.fn.qual.split("::")[1]} {sub!r}: scatter of complex data conjugates one copy', site.loc,
                                      f'{sub!r}: both copies of the same complex tensor are {"conjugated" if ci else "unconjugated"}: the result is x x^T, not the Hermitian '
                                      f'outer product x x^H', construct=f'{rule}::{site.fn.qual}::hermitian-scatter')
    for sub, ins, out, ells in site.parsed:
        if len(ins) != len(info):
            run.unresolved(rule, f'{site.fn.qual.split("::")[1]} einsum {sub!r}', site.loc, 'operand count differs from subscript')
            continue
        roles = letter_roles(ins, out)
        # (b1)
        for i in range(len(info)):
            for j in range(len(info)):
                if i >= j:
                    continue
                (bi, ci, _), (bj, cj, _) = info[i], info[j]
                if ci == cj or not same_value(bi, bj):
                    continue
                plain, conj = (i, j) if cj else (j, i)
                fp = [c for c in ins[plain] if c in out and c not in ins[conj]]
                fc = [c for c in ins[conj] if c in out and c not in ins[plain]]
                if len(fp) == 1 and len(fc) == 1:
                    n_checked += 1
                    ok = out.index(fp[0]) < out.index(fc[0])
                    run.check(ok, rule, f'{site.fn.qual.split("::")[1]} {sub!r}: conj factor supplies the second index', site.loc,
                              f'x[{fp[0]}] conj(x)[{fc[0]}] -> [{out}]',
                              f'outer/scatter product of a tensor with its conjugate puts the conjugated factor on the FIRST output index '
                              f'({sub!r}: plain letter {fp[0]!r}, conjugated letter {fc[0]!r}, output {out!r}); the result is the transpose (complex conjugate) of x x^H',
                              construct=f'{rule}::{site.fn.qual}::conj-second-index')
    return n_checked


def structure(site, idx=0):
    """structure of the idx-th subscript alternative: dict with ins, out, roles"""
    sub, ins, out, ells = site.parsed[idx]
    return dict(sub=sub, ins=ins, out=out, roles=letter_roles(ins, out), ells=ells)


def find_sites(A, fn_qual):
    fn = A.prog.func(fn_qual)
    return [s for s in enumerate_sites(A) if s.fn is fn]


def operand_index(site, pred):
    """index of the first operand whose (base term, conj flag, raw term) satisfies pred"""
    for i, (b, cj, raw) in enumerate(operand_info(site)):
        if pred(b, cj, raw):
            return i
    return None


def is_self_field(t, name):
    t = strip_views(t)
    return isinstance(t, T) and t.op == 'attr' and t.args[1] == name and t.args[0].op == 'param' and t.args[0].args[0] == 'self'


def derives_from_param(t, name, depth=0):
    """does the term mention parameter `name` (through arithmetic / indexing)?"""
    from .terms import walk_terms
    return any(x.op == 'param' and x.args[0] == name for x in walk_terms(t, into_mu=False))
