"""R-SEL: direction and completeness of selections (eigenpairs, arg-max / arg-min, exhaustive searches)."""
from .terms import T, walk_terms
from .walk import call_parts, call_arg, is_call_to, const_val, NOVAL, strip_views, unwrap_gamma

EIGH = ('numpy.linalg.eigh', 'scipy.linalg.eigh')
EIG = ('numpy.linalg.eig', 'scipy.linalg.eig')


def eig_calls(graph):
    """[(call term, sorted?)] of eigen-decompositions in a function; `solver = eig if use_eig else eigh` is followed"""
    out = []
    for e in graph.events:
        if e.kind != 'call':
            continue
        t = e.term
        n = call_parts(t)[0]
        if n in EIGH:
            out.append((t, True))
        elif n in EIG:
            out.append((t, False))
        elif n is None:
            f = t.args[0]
            alts = unwrap_gamma(f)
            names = {getattr(a.args[0], 'dotted', None) for a in alts if isinstance(a, T) and a.op == 'ref'}
            if names and names <= set(EIGH) | set(EIG):
                # `solver = eig if use_eig else eigh`: the result is ordered only if every alternative orders it
                out.append((t, names <= set(EIGH)))
    return out


def component_sources(t):
    """which eigen call / component a term denotes: set of (call term, component index)"""
    out = set()
    for a in unwrap_gamma(t):
        a = strip_views(a)
        if isinstance(a, T) and a.op == 'unpack' and a.args[2] == 2:
            src = strip_views(a.args[0])
            for s in unwrap_gamma(src):
                out.add((strip_views(s), a.args[1]))
        elif isinstance(a, T) and a.op == 'attr' and a.args[1] == 'real':
            out |= component_sources(a.args[0])
    return out


def selections(graph):
    """single-eigenpair selections: dict(call, comp, index items, term)"""
    calls = {id(c): (c, srt) for c, srt in eig_calls(graph)}
    # decompositions that only run inside an exception handler (fallback after a failed eigh) are exempt from the ordering rule
    in_handler = {id(e.term) for e in graph.events if e.kind == 'call' and any(c.op == 'caught' for c, _ in e.guards)}
    sels = []
    seen = set()
    roots = [graph.ret] + [e.term for e in graph.events if e.term is not None]
    for r in roots:
        for t in walk_terms(r, seen):
            if t.op != 'sub':
                continue
            srcs = component_sources(t.args[0])
            hit = [(c, comp) for c, comp in srcs if id(c) in calls]
            if not hit:
                continue
            idx = t.args[1]
            items = list(idx.args[0]) if idx.op == 'tuple' else [idx]
            regular = [c for c, _ in hit if id(c) not in in_handler]
            # (a selection that only ever sees the fallback decomposition - written inside the handler itself - is exempt like the shared one after the try)
            sels.append(dict(term=t, sources=hit, items=items, sorted=all(calls[id(c)][1] for c in regular)))
    return sels


def last_axis_choice(items):
    """classify the index applied to the LAST axis: ('const', v) | ('argmax', term) | ('argmin', term) | ('other', term) | None (last axis not indexed)"""
    if not items:
        return None
    last = items[-1]
    if last.op == 'slice':
        return None
    if last.op == 'const' and last.args[0] is Ellipsis:
        return None
    v = const_val(last)
    if v is not NOVAL and isinstance(v, int):
        return ('const', v)
    l0 = strip_views(last)
    if l0.op == 'binop' and l0.args[0] == 'Sub' and const_val(l0.args[2]) == 1:
        from .walk import shape_dim
        sd = shape_dim(l0.args[1])
        if sd is not None and sd[1] in (-1, -2):
            return ('const', -1)          # x[..., D - 1] with D the length of the (square) core axes is x[..., -1]
    if is_call_to(last, 'numpy.argmax'):
        return ('argmax', last)
    if is_call_to(last, 'numpy.argmin'):
        return ('argmin', last)
    return ('other', last)


def check_principal(run, A, fn_qual, rule='R-SEL', min_sites=1, label=None):
    """every single-eigenpair selection in fn takes the principal pair: eigh is ascending, so index -1 on the last
    axis of the eigenvector array (column), or the arg-max of the eigenvalues"""
    fn = A.prog.func(fn_qual)
    g = A.graphs.get(fn)
    sels = selections(g)
    n = 0
    short = label or fn_qual.split('::')[1]
    for s in sels:
        comps = {comp for _, comp in s['sources']}
        ch = last_axis_choice(s['items'])
        where = fn.loc(s['term'].node)
        if ch is None:
            # the last axis is sliced: for the eigenvector array this selects rows / keeps all columns -> not a single-pair selection
            nonlast = [it for it in s['items'][:-1] if it.op not in ('slice',) and not (it.op == 'const' and it.args[0] is Ellipsis)]
            if 1 in comps and nonlast and any(const_val(it) is not NOVAL or is_call_to(it, 'numpy.argmax', 'numpy.argmin') for it in nonlast):
                n += 1
                run.violation(rule, f'{short}: eigenvector selected along the wrong axis', where,
                              'a fixed index is applied to the row axis of the eigenvector matrix; eigenvectors are its COLUMNS (last axis)',
                              construct=f'{rule}::{fn_qual}::eigvec-axis')
            continue
        n += 1
        what = 'eigenvector' if 1 in comps else 'eigenvalue'
        if ch[0] == 'const':
            ok = ch[1] == -1 and s['sorted']
            why = f'{what} selected with index {ch[1]} on the last axis; eigh returns eigenvalues in ascending order, the principal pair is index -1'
            if ch[1] == -1 and not s['sorted']:
                why = (f'{what} selected with the fixed index -1 although the decomposition may come from an unordered solver (eig): '
                       f'the last eigenpair is then arbitrary; select by arg-max of the eigenvalues')
            run.check(ok, rule, f'{short}: principal {what} is the last of the ascending eigh result', where, f'index {ch[1]}', why,
                      construct=f'{rule}::{fn_qual}::{what}-index')
        elif ch[0] == 'argmax':
            arg = call_arg(ch[1], 0)
            oka = any(comp == 0 for _, comp in component_sources(arg)) if arg is not None else False
            run.check(oka, rule, f'{short}: principal {what} by arg-max of the eigenvalues', where, '',
                      'arg-max is not taken over the eigenvalues of the same decomposition', construct=f'{rule}::{fn_qual}::{what}-argmax-operand')
        elif ch[0] == 'argmin':
            run.violation(rule, f'{short}: principal {what}', where, f'{what} selected with arg-MIN of the eigenvalues (smallest instead of largest eigenpair)',
                          construct=f'{rule}::{fn_qual}::{what}-argmin')
        else:
            run.unresolved(rule, f'{short}: {what} selection', where, 'index expression not recognised')
    if n < min_sites:
        from .model import AnalysisError
        raise AnalysisError(f'{fn_qual}: eigenpair selection not found (anchor lost)')
    return n


def argext_calls(graph):
    """all np.argmax / np.argmin / .argmax() / .argmin() calls: (term, 'max'|'min')"""
    out = []
    for e in graph.events:
        if e.kind == 'call':
            n = call_parts(e.term)[0]
            if n in ('numpy.argmax', 'method:argmax', 'numpy.nanargmax'):
                out.append((e.term, 'max'))
            elif n in ('numpy.argmin', 'method:argmin', 'numpy.nanargmin'):
                out.append((e.term, 'min'))
    return out


# ------------------------------------------------------------------------------------------------ exhaustive arg-max loops
def _is_neg_inf_term(t):
    t = strip_views(t)
    v = const_val(t)
    if v is not NOVAL and isinstance(v, float) and v == float('-inf'):
        return True
    if is_call_to(t, 'builtin.float') and const_val(call_arg(t, 0)) in ('-inf', '-Inf', '-infinity'):
        return True
    if t.op == 'unop' and t.args[0] == 'USub':
        x = strip_views(t.args[1])
        if x.op == 'ref' and getattr(x.args[0], 'dotted', None) in ('numpy.inf', 'math.inf', 'numpy.Inf', 'numpy.infty'):
            return True
        if is_call_to(x, 'builtin.float') and const_val(call_arg(x, 0)) in ('inf', 'Inf', 'infinity'):
            return True
    return False


def _mentions(t, pred):
    return any(pred(x) for x in walk_terms(t, into_mu=False))


def exhaustive_searches(graph):
    """loops of the shape   for p in <candidates>: c = f(p); if c > best: best, arg = c, p    recognised on the term graph:
    loop-carried values (mu) whose next value is gamma(cmp, new, old) are grouped by their comparison.  Independent of variable
    names, of the statement order inside the branch and of whether the candidate is computed inline or in temporaries."""
    out = []
    for L in graph.loops:
        if L.kind != 'for':
            continue
        groups = {}
        for name, mu in L.mus.items():
            nx = getattr(mu, 'next', None)
            if nx is None:
                continue
            nx = strip_views(nx)
            if not (isinstance(nx, T) and nx.op == 'gamma'):
                continue
            cond, pol = nx.args[0], True
            while cond.op == 'unop' and cond.args[0] == 'Not':
                cond, pol = cond.args[1], not pol
            if cond.op != 'cmp' or cond.args[0] not in ('Gt', 'GtE', 'Lt', 'LtE'):
                continue
            new, old = (nx.args[1], nx.args[2]) if pol else (nx.args[2], nx.args[1])
            if strip_views(old) is not mu:
                continue
            groups.setdefault(id(cond), dict(cond=cond, pol=pol, items=[]))['items'].append((name, mu, new))
        for grp in groups.values():
            cond, pol = grp['cond'], grp['pol']
            op, a, b = cond.args
            if not pol:
                op = {'Gt': 'LtE', 'GtE': 'Lt', 'Lt': 'GtE', 'LtE': 'Gt'}[op]
            sa, sb = strip_views(a), strip_views(b)

            def from_loop(x):
                return _mentions(x, lambda y: y.op == 'elem' and y.extra is L)
            # the running best is the side that does not depend on the loop variable (a loop-carried value or the start value)
            if from_loop(sa) and not from_loop(sb):
                cand, best, direction = a, sb, 'max' if op in ('Gt', 'GtE') else 'min'
            elif from_loop(sb) and not from_loop(sa):
                cand, best, direction = b, sa, 'max' if op in ('Lt', 'LtE') else 'min'
            else:
                cand, best, direction = a, sb, 'max' if op in ('Gt', 'GtE') else 'min'
            rep = dict(loop=L, cond=cond, direction=direction, strict=op in ('Gt', 'Lt'), cand=cand, best=best, iter=L.iter)
            best_items = [(n, m, new) for n, m, new in grp['items'] if m is best]
            rep['best_updated_with_candidate'] = bool(best_items) and all(strip_views(new) is strip_views(cand) for _, _, new in best_items)
            args = [(n, m, new) for n, m, new in grp['items'] if m is not best and strip_views(new).op == 'elem' and strip_views(new).extra is L]
            rep['arg_updated_with_loop_var'] = bool(args)
            rep['arg_mu'] = args[0][1] if args else None
            rep['arg_name'] = args[0][0] if args else None
            rep['candidate_from_loop_var'] = from_loop(strip_views(cand))
            init = best.args[0] if best.op == 'mu' else best
            # nested search: the start value of the inner loop is what the enclosing loop body assigned before it
            rep['init_neg_inf'] = direction == 'max' and _is_neg_inf_term(init)
            rep['early_exit'] = bool(L.breaks or L.continues) or any(e.kind == 'return' for e in L.body_events)
            out.append(rep)
    return out


def enumeration_domain(iter_term):
    """iter_term == [np.asarray / list / tuple of] itertools.permutations(range(X)) -> (permutations call, X term, complete?)
    `complete` is False when the enumerated set is sliced / filtered or permutations gets an `r` argument."""
    t = strip_views(iter_term)
    while is_call_to(t, 'builtin.list', 'builtin.tuple') and len(call_parts(t)[1]) == 1 and not call_parts(t)[2]:
        t = strip_views(call_parts(t)[1][0])
    if not is_call_to(t, 'itertools.permutations'):
        inner = [x for x in walk_terms(t, into_mu=False) if is_call_to(x, 'itertools.permutations')]
        return (inner[0], None, False) if inner else (None, None, False)
    _, pos, kw = call_parts(t)
    if len(pos) != 1 or kw:
        return t, None, False
    r = strip_views(pos[0])
    if is_call_to(r, 'builtin.range') and len(call_parts(r)[1]) == 1 and not call_parts(r)[2]:
        return t, strip_views(call_parts(r)[1][0]), True
    return t, None, False
