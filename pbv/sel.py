"""R-SEL: direction and completeness of selections (eigenpairs, arg-max / arg-min, exhaustive searches)."""
from .terms import T, walk_terms
from .walk import call_parts, call_arg, is_call_to, const_val, NOVAL, strip_views, unwrap_gamma

EIGH = ('numpy.linalg.eigh', 'scipy.linalg.eigh')
EIG = ('numpy.linalg.eig', 'scipy.linalg.eig')


def eig_calls(graph):
    """[(call term, sorted?)] of eigen-decompositions in a function; `solver = eig if use_eig else eigh` is followed"""
    out = []
    for e in graph.events:
        if e.kind != 'call':
            continue
        t = e.term
        n = call_parts(t)[0]
        if n in EIGH:
            out.append((t, True))
        elif n in EIG:
            out.append((t, False))
        elif n is None:
            f = t.args[0]
            alts = unwrap_gamma(f)
            names = {getattr(a.args[0], 'dotted', None) for a in alts if isinstance(a, T) and a.op == 'ref'}
            if names and names <= set(EIGH) | set(EIG):
                # `solver = eig if use_eig else eigh`: the result is ordered only if every alternative orders it
                out.append((t, names <= set(EIGH)))
    return out


def component_sources(t):
    """which eigen call / component a term denotes: set of (call term, component index)"""
    out = set()
    for a in unwrap_gamma(t):
        a = strip_views(a)
        if isinstance(a, T) and a.op == 'unpack' and a.args[2] == 2:
            src = strip_views(a.args[0])
            for s in unwrap_gamma(src):
                out.add((strip_views(s), a.args[1]))
        elif isinstance(a, T) and a.op == 'attr' and a.args[1] == 'real':
            out |= component_sources(a.args[0])
    return out


def selections(graph):
    """single-eigenpair selections: dict(call, comp, index items, term)"""
    calls = {id(c): (c, srt) for c, srt in eig_calls(graph)}
    # decompositions that only run inside an exception handler (fallback after a failed eigh) are exempt from the ordering rule
    in_handler = {id(e.term) for e in graph.events if e.kind == 'call' and any(c.op == 'caught' for c, _ in e.guards)}
    sels = []
    seen = set()
    roots = [graph.ret] + [e.term for e in graph.events if e.term is not None]
    for r in roots:
        for t in walk_terms(r, seen):
            if t.op != 'sub':
                continue
            srcs = component_sources(t.args[0])
            hit = [(c, comp) for c, comp in srcs if id(c) in calls]
            if not hit:
                continue
            idx = t.args[1]
            items = list(idx.args[0]) if idx.op == 'tuple' else [idx]
            regular = [c for c, _ in hit if id(c) not in in_handler] or [c for c, _ in hit]
            sels.append(dict(term=t, sources=hit, items=items, sorted=all(calls[id(c)][1] for c in regular)))
    return sels


def last_axis_choice(items):
    """classify the index applied to the LAST axis: ('const', v) | ('argmax', term) | ('argmin', term) | ('other', term) | None (last axis not indexed)"""
    if not items:
        return None
    last = items[-1]
    if last.op == 'slice':
        return None
    if last.op == 'const' and last.args[0] is Ellipsis:
        return None
    v = const_val(last)
    if v is not NOVAL and isinstance(v, int):
        return ('const', v)
    if is_call_to(last, 'numpy.argmax'):
        return ('argmax', last)
    if is_call_to(last, 'numpy.argmin'):
        return ('argmin', last)
    return ('other', last)


def check_principal(run, A, fn_qual, rule='R-SEL', min_sites=1, label=None):
    """every single-eigenpair selection in fn takes the principal pair: eigh is ascending, so index -1 on the last
    axis of the eigenvector array (column), or the arg-max of the eigenvalues"""
    fn = A.prog.func(fn_qual)
    g = A.graphs.get(fn)
    sels = selections(g)
    n = 0
    short = label or fn_qual.split('::')[1]
    for s in sels:
        comps = {comp for _, comp in s['sources']}
        ch = last_axis_choice(s['items'])
        where = fn.loc(s['term'].node)
        if ch is None:
            # the last axis is sliced: for the eigenvector array this selects rows / keeps all columns -> not a single-pair selection
            nonlast = [it for it in s['items'][:-1] if it.op not in ('slice',) and not (it.op == 'const' and it.args[0] is Ellipsis)]
            if 1 in comps and nonlast and any(const_val(it) is not NOVAL or is_call_to(it, 'numpy.argmax', 'numpy.argmin') for it in nonlast):
                n += 1
                run.violation(rule, f'{short}: eigenvector selected along the wrong axis', where,
                              'a fixed index is applied to the row axis of the eigenvector matrix; eigenvectors are its COLUMNS (last axis)',
                              construct=f'{rule}::{fn_qual}::eigvec-axis')
            continue
        n += 1
        what = 'eigenvector' if 1 in comps else 'eigenvalue'
        if ch[0] == 'const':
            ok = ch[1] == -1 and s['sorted']
            why = f'{what} selected with index {ch[1]} on the last axis; eigh returns eigenvalues in ascending order, the principal pair is index -1'
            if ch[1] == -1 and not s['sorted']:
                why = (f'{what} selected with the fixed index -1 although the decomposition may come from an unordered solver (eig): '
                       f'the last eigenpair is then arbitrary; select by arg-max of the eigenvalues')
            run.check(ok, rule, f'{short}: principal {what} is the last of the ascending eigh result', where, f'index {ch[1]}', why,
                      construct=f'{rule}::{fn_qual}::{what}-index')
        elif ch[0] == 'argmax':
            arg = call_arg(ch[1], 0)
            oka = any(comp == 0 for _, comp in component_sources(arg)) if arg is not None else False
            run.check(oka, rule, f'{short}: principal {what} by arg-max of the eigenvalues', where, '',
                      'arg-max is not taken over the eigenvalues of the same decomposition', construct=f'{rule}::{fn_qual}::{what}-argmax-operand')
        elif ch[0] == 'argmin':
            run.violation(rule, f'{short}: principal {what}', where, f'{what} selected with arg-MIN of the eigenvalues (smallest instead of largest eigenpair)',
                          construct=f'{rule}::{fn_qual}::{what}-argmin')
        else:
            run.unresolved(rule, f'{short}: {what} selection', where, 'index expression not recognised')
    if n < min_sites:
        from .model import AnalysisError
        raise AnalysisError(f'{fn_qual}: eigenpair selection not found (anchor lost)')
    return n


def argext_calls(graph):
    """all np.argmax / np.argmin / .argmax() / .argmin() calls: (term, 'max'|'min')"""
    out = []
    for e in graph.events:
        if e.kind == 'call':
            n = call_parts(e.term)[0]
            if n in ('numpy.argmax', 'method:argmax', 'numpy.nanargmax'):
                out.append((e.term, 'max'))
            elif n in ('numpy.argmin', 'method:argmin', 'numpy.nanargmin'):
                out.append((e.term, 'min'))
    return out
