"""C02 - EM iterations never decrease the mixture log-likelihood (structural necessary conditions).

  1. R-DEP/R-AXIS  CACGMM.log_likelihood is sum_n log sum_k pi_k p_k(y_n): its value depends on the stored
                   weights *and* on the component log-pdf, combined by a log-sum over the class axis.
  2. R-LOOP        MM pairing: the quadratic form handed to the cACG M-step and the affiliation come from the
                   same E-step call of the same iteration (after the optional aligner applied to both); the
                   first iteration uses ones.
  3. R-DEP         weights and component parameters of one iteration are computed from the same affiliation
                   (every _m_step); the E-step uses the current model's own weights (C01-1, shared instances).
Monotonicity itself is a numerical statement about trajectories and is not decided.
"""
from ..model import AnalysisError
from ..terms import T, walk_terms
from ..walk import call_parts, call_arg, is_call_to, const_val, strip_views, unwrap_gamma, callee_func, gamma_paths, compatible, norm_stmt
from .. import loop as LP
from . import c01, c07, c08

D = 'pb_bss.distribution.'
MMU = D + 'mixture_model_utils::'


def check_log_likelihood(run, A):
    prog, ev = A.prog, A.ev
    ll = prog.func(D + 'cacgmm::CACGMM.log_likelihood')
    ctx = ev.entry(ll)
    res = ctx.result
    fd = {d[1] for d in res.deps if d[0] == 'field'}
    has_w = 'self.weight' in fd
    has_c = any(f.startswith('self.cacg.') for f in fd)
    has_y = ('param', 'y') in res.deps
    run.check(has_w and has_c and has_y, 'R-DEP', 'CACGMM.log_likelihood depends on the weights, the component parameters and the data', ll.loc(),
              f'depends on {sorted(fd)}',
              f'the returned log-likelihood depends on {sorted(fd)} and y: {has_y}; the mixture log-likelihood sum_n log sum_k pi_k p_k(y_n) must include the stored mixture weights',
              construct='R-DEP::CACGMM.log_likelihood::weights')
    # log-sum over the class axis of the log-pdf, summed over everything else
    inner = prog.func(D + 'cacgmm::CACGMM._log_likelihood')
    g = A.graphs.get(inner)
    lse = [e.term for e in g.events if e.kind == 'call' and is_call_to(e.term, 'scipy.special.logsumexp')]
    if not lse:
        run.unresolved('R-AXIS', 'CACGMM._log_likelihood: log-sum over classes', inner.loc(), 'no scipy.special.logsumexp call (different formulation)')
        return
    t = lse[0]
    ax = const_val(call_arg(t, 1, 'axis'))
    opnd = call_arg(t, 0, 'a')
    ok_op = any(x.op == 'param' and x.args[0] == 'log_pdf' for x in walk_terms(opnd))
    run.check(ax == -2 and ok_op, 'R-AXIS', 'CACGMM._log_likelihood: logsumexp over the class axis of the log-pdf', inner.loc(t.node), f'axis={ax}',
              f'logsumexp over axis {ax!r} (class axis of the documented (..., K, N) log_pdf is -2); operand derives from log_pdf: {ok_op}',
              construct='R-AXIS::CACGMM._log_likelihood::class-axis')
    ret = strip_views(g.ret)
    ok_sum = is_call_to(ret, 'numpy.sum') and call_arg(ret, 0) is t and call_arg(ret, 1, 'axis') is None
    run.check(ok_sum, 'R-AXIS', 'CACGMM._log_likelihood: total over all observations', inner.loc(), '', 'the per-observation values are not summed into one scalar',
              construct='R-AXIS::CACGMM._log_likelihood::total')
    # log_pdf fed in is the component log-pdf of the same E-step (third component of _predict)
    gl = A.graphs.get(ll)
    calls = [e.term for e in gl.events if e.kind == 'call' and call_parts(e.term)[0] == 'method:_log_likelihood']
    if calls:
        lp = call_arg(calls[0], 2, 'log_pdf')
        okp = lp is not None and strip_views(lp).op == 'unpack' and call_parts(strip_views(strip_views(lp).args[0]))[0] == 'method:_predict' and (strip_views(lp).args[1] == 2 if strip_views(lp).args[3] is None else (strip_views(lp).args[1] > strip_views(lp).args[3] and strip_views(lp).args[1] == strip_views(lp).args[2] - 1))
        run.check(okp, 'R-DEP', 'CACGMM.log_likelihood: uses the component log-pdf of its own E-step', ll.loc(calls[0].node), '', 'log_pdf passed on is not the third result of self._predict(y)',
                  construct='R-DEP::CACGMM.log_likelihood::log_pdf-source')


def check_pairing(run, A):
    n = 0
    for cname in ('CACGMM', 'GCACGMM', 'VMFCACGMM'):
        L = LP.recognise(A, cname)
        fn = L.fn
        short = fn.qual.split('::')[1]
        aff = LP.m_step_arg(L, 'affiliation')
        # quadratic form is positional (second / third argument)
        n_, pos, kw = call_parts(L.m_call)
        qf = kw.get('quadratic_form')
        ms = L.cls.methods.get(n_[7:]) if n_ and n_.startswith('method:') else None
        if qf is None and ms is not None and 'quadratic_form' in ms.params:
            i = ms.params.index('quadratic_form')      # params[0] is self == pos[0] (receiver)
            qf = pos[i] if i < len(pos) else None
        if aff is None or qf is None or not L.e_calls:
            raise AnalysisError(f'{fn.qual}: affiliation / quadratic_form arguments of the M-step not found')
        e_call = L.e_calls[0].term

        def origin(t):
            """(source call, component) alternatives of the in-iteration value"""
            t = strip_views(t)
            outs = []
            sp = LP.split_by_iteration(L, t)
            if sp is not None:
                then_b = sp[0]
                for x in unwrap_gamma(then_b):
                    x = strip_views(x)
                    if x.op == 'unpack':
                        outs.append((strip_views(x.args[0]), x.args[1]))
                    else:
                        outs.append((x, None))
            return outs
        oa, oq = origin(aff), origin(qf)
        ok = bool(oa) and bool(oq) and len(oa) == len(oq)
        why = ''
        if ok:
            for (ca, ia), (cq, iq) in zip(oa, oq):
                if ca is not cq:
                    ok, why = False, 'affiliation and quadratic form come from different calls'
                elif ca is e_call:
                    if (ia, iq) != (0, 1):
                        ok, why = False, f'E-step results used in the wrong roles (components {ia}, {iq})'
                else:
                    nn, pp, kk = call_parts(ca)
                    if nn != MMU + 'apply_inline_permutation_alignment':
                        ok, why = False, f'unexpected transformation {nn}'
                    else:
                        a0, q0 = strip_views(kk.get('affiliation')), strip_views(kk.get('quadratic_form'))
                        if not (a0.op == 'unpack' and q0.op == 'unpack' and strip_views(a0.args[0]) is e_call and strip_views(q0.args[0]) is e_call
                                and (a0.args[1], q0.args[1]) == (0, 1) and (ia, iq) == (0, 1)):
                            ok, why = False, 'the aligner is not applied to (affiliation, quadratic_form) of the same E-step'
        else:
            why = 'affiliation / quadratic form handed to the M-step are not the paired results of this iteration\'s E-step'
        n += 1
        run.check(ok, 'R-LOOP', f'{short}: quadratic form and affiliation come from the same E-step call', fn.loc(L.m_call.node), '', why,
                  construct=f'R-LOOP::{fn.qual}::mm-pairing')
        # first iteration: quadratic form of ones
        qs = strip_views(qf)
        inits = []
        sp = LP.split_by_iteration(L, qs)
        if sp is not None:
            else_b = sp[1]
            for x in unwrap_gamma(else_b):
                x = strip_views(x)
                if x.op == 'mu':
                    inits += [strip_views(y) for y in unwrap_gamma(x.args[0])]
                else:
                    inits.append(x)         # a start value used directly in the first iteration
        inits = [x for x in inits if x.op not in ('undef', 'raise') and not (x.op == 'const' and x.args[0] is None)]
        # (an E-step hoisted in front of the loop may supply the start value as well: the start-pairing rule below decides that case)
        ok1 = bool(inits) and all(is_call_to(x, 'numpy.ones', 'numpy.ones_like') or (x.op == 'unpack' and (call_parts(strip_views(x.args[0]))[0] or '').endswith('predict'))
                                  for x in inits)
        run.check(ok1, 'R-LOOP', f'{short}: first iteration uses a quadratic form of ones', fn.loc(), '', 'the start value of the quadratic form is not np.ones / np.ones_like',
                  construct=f'R-LOOP::{fn.qual}::quadratic-form-start')
        # start of the loop (model given / not given): whenever the start affiliation is the posterior of an E-step call, the start
        # quadratic form is the quadratic form of THAT call - a posterior of the given model combined with a quadratic form of ones
        # is the plain weighted covariance, not the MM update relative to the given model
        def start_paths(v):
            v = strip_views(v)
            alts = []
            if v.op == 'gamma':
                for x in unwrap_gamma(v.args[1]) + unwrap_gamma(v.args[2]):
                    x = strip_views(x)
                    if x.op == 'mu':
                        alts += gamma_paths(x.args[0])
            elif v.op == 'mu':
                alts += gamma_paths(v.args[0])
            return alts

        def estep_of(leaf):
            leaf = strip_views(leaf)
            if leaf.op == 'unpack' and strip_views(leaf.args[0]).op == 'call':
                c = strip_views(leaf.args[0])
                nm = call_parts(c)[0] or ''
                if nm.startswith('method:') and nm.endswith('predict'):
                    return c, leaf.args[1]
            return None
        bad = ''
        for ca_, la in start_paths(aff):
            ea = estep_of(la)
            if ea is None:
                continue
            for cq_, lq in start_paths(qf):
                if not compatible(ca_, cq_):
                    continue
                eq = estep_of(lq)
                if eq is None or eq[0] is not ea[0] or (ea[1], eq[1]) != (0, 1):
                    bad = (f'on the path where the start affiliation is the posterior of `{norm_stmt(ea[0].node)[:70]}` the start quadratic form is '
                           f'`{norm_stmt(strip_views(lq).node)[:50]}`, not the quadratic form of that E-step')
        run.check(not bad, 'R-LOOP', f'{short}: a start posterior taken from a model comes with that model\'s quadratic form', fn.loc(), '', bad,
                  construct=f'R-LOOP::{fn.qual}::start-pairing')
    run.floor('cACG-based EM loops', n, 3)


def check(run):
    A = run.A
    run.explanation = (
        'Necessary structural conditions of EM monotonicity decided on the source: the reported log-likelihood includes the stored mixture weights and is a log-sum over the '
        'class axis of the component log-pdf; in the three cACG-based trainers the MM surrogate weight (quadratic form) and the posterior come from the same E-step call of the '
        'same iteration (aligner applied to both), starting from ones; weights and component parameters of an iteration come from the same affiliation (saliency weighted); '
        'the E-step uses the current model\'s own weights; the Gaussian / cACG log-densities have the right sign / whitening structure. Monotonicity along trajectories is a '
        'numerical statement and is not decided.')
    run.trusted = ['MM derivation of the cACG update (Ito et al. 2016): weight gamma / (z^H B_old^-1 z)']
    check_log_likelihood(run, A)
    check_pairing(run, A)
    c08.check_plumbing(run, A)
    c08.check_alternation(run, A)
    c01.check_models(run, A)
    ck = c07.Checker(run, A)
    c07.check_gaussians(ck)
    c07.check_cacg(ck)
    c07.check_watson(ck)          # cWMM is in the property's scope: the E-step density is the one whose normaliser the M-step inverts
    c07.close_terms(ck)
    # the M-step of the Gaussian components is the maximiser of the auxiliary function: the weighted mean and the weighted scatter divided by the mass, nothing added
    c08.check_estimators(run, A)          # (the closed-form estimators of the component trainers: weighted scatter over the observation mass, Tyler update, mean / resultant)
    c08.check_mass_rank(run, A)
    c08.check_gaussian_dispatch(run, A)
    # the model whose likelihood is reported is the model that was fitted: no parameter assigned to an instance that cached quantities of the old one
    from .. import opt
    opt.check_frozen_models(run, A, ['pb_bss.distribution'])
    opt.check_derived_fields(run, A, ['pb_bss.distribution'])
    # an M-step sum that is accumulated block by block over the observations takes every observation: with the last partial block left out the update is not the maximiser of the
    # auxiliary function the E-step (over ALL observations) defines, and the likelihood can fall
    opt.check_block_partitions(run, A, ['pb_bss.distribution.'])
