"""C05 - mixture training is equivariant under relabelling of the classes (structural parts).

  R-CLASS  in every mixture trainer / model and in mixture_model_utils no subscript puts an integer literal on the class
           axis of an affiliation / weight / parameter array (shape-only templates such as ones_like(x[..., 0, :]) and
           x.shape[...] excepted); no loop runs over class indices; no branch tests a class index.
  R-AXIS   every reduction that acts on the class axis is a symmetric function of the classes (sum, mean, max,
           logsumexp, L1/L2 norm, einsum contraction); order-sensitive ones (argmax, cumsum, sort ...) are not allowed there.
  R-BCAST  per-class work is broadcast over an explicit class axis inserted with y[..., None, :, :].
Known, recorded, not flagged: arg-max ties of the inline-PA search and deflationSeed (outside the statement).
"""
from ..model import AnalysisError
from ..terms import T, walk_terms
from ..absint import TOP, Shape, is_bot
from ..walk import (inserted_singleton_axes, data_derives, ret_alts, call_parts, call_arg, is_call_to, const_val, NOVAL, strip_views, unwrap_gamma, axis_uses, norm_stmt,
                    callee_func)
from ..nptable import index_items
from .. import loop as LP

D = 'pb_bss.distribution.'
CLASS_LABELS = {'K', 'k', 'num_classes', 'K_'}
SYMMETRIC = {'numpy.sum', 'numpy.mean', 'numpy.amax', 'numpy.max', 'numpy.amin', 'numpy.min', 'scipy.special.logsumexp', 'numpy.linalg.norm', 'numpy.prod', 'numpy.nansum',
             'method:sum', 'method:mean', 'method:max', 'method:min', 'numpy.all', 'numpy.any', 'method:all', 'method:any', 'numpy.squeeze', 'numpy.expand_dims', 'method:squeeze'}
ORDER_SENSITIVE = {'numpy.argmax', 'numpy.argmin', 'numpy.cumsum', 'numpy.cumprod', 'numpy.sort', 'numpy.argsort', 'numpy.diff', 'numpy.flip', 'method:argmax', 'method:argmin',
                   'method:cumsum', 'method:cumprod', 'numpy.take_along_axis', 'numpy.delete'}


def scope_functions(A):
    out = []
    for cname, mod in LP.TRAINERS.items():
        m = A.prog.mods[D + mod]
        for c in m.classes.values():
            if c.name in (cname, cname + 'Trainer'):
                out += [f for f in c.methods.values()]
    mm = A.prog.mods[D + 'mixture_model_utils']
    out += [f for f in mm.funcs.values() if not f.name.startswith('_estimate_mixture_weight_with_dirichlet')]
    return out


def class_axis(shape):
    """negative index of the dim carrying a class label, or None"""
    if shape is None:
        return None
    hits = [i - len(shape.dims) for i, d in enumerate(shape.dims) if d & CLASS_LABELS]
    return hits[0] if len(hits) == 1 else None


def hit_dims(shape, items):
    """[(negative axis, int value)] for integer index items, given the operand shape"""
    if shape is None or any(k[0] in ('adv', 'unk') for k in items):
        return None
    n_ell = sum(1 for k in items if k[0] == 'ell')
    if n_ell > 1:
        return None
    out = []
    if n_ell == 1:
        pos = next(j for j, k in enumerate(items) if k[0] == 'ell')
        right = [k for k in items[pos + 1:] if k[0] in ('int', 'slice')]
        for j, k in enumerate(right):
            if k[0] == 'int':
                out.append((j - len(right), k[1]))
        left = [k for k in items[:pos] if k[0] in ('int', 'slice')]
        if not shape.ell:
            for j, k in enumerate(left):
                if k[0] == 'int':
                    out.append((j - len(shape.dims), k[1]))
        elif any(k[0] == 'int' for k in left):
            out.append((None, None))
    else:
        cons = [k for k in items if k[0] in ('int', 'slice')]
        if shape.ell:
            return None
        for j, k in enumerate(cons):
            if k[0] == 'int':
                out.append((j - len(shape.dims), k[1]))
    return out


def template_only(g, sub_term):
    """is the subscript used only as a shape template (argument of ones_like / zeros_like / empty_like, or .shape)?"""
    users = []
    seen = set()
    roots = [g.ret] + [e.term for e in g.events if e.term is not None]
    for r in roots:
        for t in walk_terms(r, seen):
            if t is sub_term:
                continue
            direct = []
            for a in t.args:
                if a is sub_term:
                    direct.append(a)
                elif isinstance(a, tuple):
                    for x in a:
                        if x is sub_term or (isinstance(x, tuple) and any(y is sub_term for y in x)):
                            direct.append(x)
            if direct:
                users.append(t)
    if not users:
        return True
    for u in users:
        if is_call_to(u, 'numpy.ones_like', 'numpy.zeros_like', 'numpy.empty_like', 'numpy.full_like'):
            continue
        if u.op == 'attr' and u.args[1] in ('shape', 'dtype', 'ndim'):
            continue
        return False
    return True


def check_flat_indices(run, A):
    """a flat index: np.take(x, i) without an axis / x.item(i) addresses the flattened array - entry i of a stack of per-class parameters belongs to one particular class
    (the last one for -1).  Examined in every function of the distribution modules (the component models hold the per-class parameters as stacks)."""
    ev = A.ev
    n = 0
    for fn in A.prog.all_funcs():
        if not fn.mod.name.startswith('pb_bss.distribution.'):
            continue
        g = A.graphs.get(fn)
        calls = [e_ for e_ in g.events if e_.kind == 'call' and e_.term is not None and e_.term.fn is fn and call_parts(e_.term)[0] in ('numpy.take', 'method:item')]
        if not calls:
            continue
        try:
            ctx = ev.entry(fn)
        except Exception:
            ctx = None
        short = fn.qual.split('::')[1]
        for e_ in calls:
            t_ = e_.term
            nm_, pos_, kw_ = call_parts(t_)
            arr_ = idx_ = None
            if nm_ == 'numpy.take' and 'axis' not in kw_ and len(pos_) == 2:
                arr_, idx_ = pos_
            elif nm_ == 'method:item' and len(pos_) == 2:
                arr_, idx_ = pos_
            if arr_ is None or not (isinstance(const_val(idx_), int) and not isinstance(const_val(idx_), bool)):
                continue
            n += 1
            bv_ = ev.eval(arr_, ctx) if ctx is not None else None
            if bv_ is not None and not is_bot(bv_):
                if bv_.kind is not TOP and not (bv_.kind & {'array'}):
                    continue
                if bv_.shape is not None and not bv_.shape.ell and len(bv_.shape.dims) <= 1:
                    continue          # a vector: entry i of it
                if bv_.meta is not None and isinstance(bv_.meta, tuple) and bv_.meta and bv_.meta[0] in ('shape_of', 'dims'):
                    continue
            run.violation('R-CLASS', f'{short}: flat index into a stacked array', fn.loc(t_.node),
                          f'`{norm_stmt(t_.node)[:90]}` takes entry {const_val(idx_)} of the FLATTENED array (no axis): with stacked per-class / per-frequency parameters this is a value of one '
                          f'particular class (the last class for -1), used for all of them - relabelling the classes changes the result',
                          construct=f'R-CLASS::{fn.qual}::flat-index')
    run.count('flat indices (np.take without axis, item) examined in the distribution modules', n)


def check(run):
    A = run.A
    ev = A.ev
    run.explanation = (
        'Class-axis parametricity decided with the named-axis shape domain: every subscript and every axis-consuming call in the seven mixture models / trainers and in '
        'mixture_model_utils is evaluated with abstract shapes (documented (..., K, N) layouts, shape unpackings, einsum outputs); an integer literal on the class axis, a loop or branch '
        'over class indices, or an order-sensitive reduction over the class axis is a violation; per-class work must be broadcast over an explicit class axis. Rounding-level equality of '
        'relabelled runs is not decided.')
    run.trusted = ['documented class axis: -2 of affiliations / weights, leading axis of component parameters']
    fns = scope_functions(A)
    n_sub = n_res = n_ax = 0
    # analysis contexts: every scope function as its own entry, plus the contexts reached from the public fit / predict
    # entries (there the documented (..., K, N) shapes of the arguments are known inside the private helpers)
    from ..walk import ctx_tree
    pairs = []
    seen_ctx = set()
    fn_set = {f.qual for f in fns}
    for fn in fns:
        c0 = ev.entry(fn)
        cands = [c0]
        if fn.name in ('fit', 'predict', 'fit_predict', 'log_likelihood'):
            cands = list(ctx_tree(c0))
        for c in cands:
            if c.fn.qual in fn_set and c.id not in seen_ctx:
                seen_ctx.add(c.id)
                pairs.append((c.fn, c))
    reported = set()
    for fn, ctx in pairs:
        g = ctx.graph
        short = fn.qual.split('::')[1]
        seen = set()
        roots = [g.ret] + [e.term for e in g.events if e.term is not None]
        for r in roots:
            for t in walk_terms(r, seen):
                if t.op != 'sub' or t.fn is not fn:
                    continue
                bv = ev.eval(t.args[0], ctx)
                if is_bot(bv) or (bv.kind is not TOP and not (bv.kind & {'array'})):
                    continue
                if bv.meta is not None and isinstance(bv.meta, tuple) and bv.meta and bv.meta[0] in ('shape_of', 'dims'):
                    continue
                iv = ev.eval(t.args[1], ctx)
                items = index_items(iv)
                ints = [k for k in items if k[0] == 'int' and k[1] is not None]
                if not ints:
                    continue
                n_sub += 1
                ca = class_axis(bv.shape)
                hd = hit_dims(bv.shape, items)
                if bv.shape is None or hd is None or ca is None:
                    continue
                n_res += 1
                lit = [(ax, v) for ax, v in hd if ax == ca and v is not None]
                if (fn.qual, t.id) in reported:
                    continue
                reported.add((fn.qual, t.id))
                if lit and not template_only(g, t):
                    run.violation('R-CLASS', f'{short}: literal class index', fn.loc(t.node),
                                  f'`{norm_stmt(t.node)}` selects class {lit[0][1]} on the class axis ({ca}) of an array of shape {bv.shape}: a preferred class index breaks relabelling equivariance',
                                  construct=f'R-CLASS::{fn.qual}::literal-class-index')
                else:
                    run.ok('R-CLASS', f'{short}: `{norm_stmt(t.node)[:60]}` does not single out a class', fn.loc(t.node))
        # reductions over the class axis
        for t, opnd, ax, cname, e in axis_uses(g):
            if ax is None or opnd is None:
                continue
            av = ev.eval(ax, ctx)
            ov = ev.eval(opnd, ctx)
            ca = class_axis(ov.shape)
            if ov.shape is None or ca is None or not av.is_const:
                continue
            axes = av.cval if isinstance(av.cval, tuple) else (av.cval,)
            if not all(isinstance(a, int) for a in axes):
                continue
            neg = [ov.shape.neg_axis(a) for a in axes]
            if ca not in neg:
                continue
            if (fn.qual, t.id, 'ax') in reported:
                continue
            reported.add((fn.qual, t.id, 'ax'))
            n_ax += 1
            if cname in ORDER_SENSITIVE:
                run.violation('R-AXIS', f'{short}: {cname.split(".")[-1]} over the class axis', fn.loc(t.node),
                              f'`{norm_stmt(t.node)}` is an order-sensitive operation along the class axis', construct=f'R-AXIS::{fn.qual}::order-sensitive::{cname}')
            else:
                run.ok('R-AXIS', f'{short}: {cname.split(".")[-1].split(":")[-1]} over the class axis is symmetric', fn.loc(t.node))
        # loops over class indices
        for L in g.loops:
            if L.kind != 'for' or L.iter is None:
                continue
            itv = ev.eval(L.iter, ctx)
            n_, pos, kw = call_parts(L.iter)
            over_class = False
            if n_ == 'builtin.range' and pos:
                a = ev.eval(pos[-1] if len(pos) <= 2 else pos[1], ctx)
                m = a.meta
                if m is not None and isinstance(m, tuple) and m and m[0] == 'dim' and (m[1] & CLASS_LABELS):
                    over_class = True
                if any(x.op == 'param' and x.args[0] == 'num_classes' for x in walk_terms(pos[-1] if len(pos) <= 2 else pos[1])):
                    over_class = True
            if over_class and (fn.qual, L.id) not in reported:
                # a symmetric reduction written as a loop - every use of the class index selects the k-th slice that is ADDED to (multiplied into / max-ed with) an accumulator
                # carried around the loop - treats all classes alike (up to the order of a floating-point sum)
                body = [e_ for e_ in L.body_events if e_.term is not None]
                def uses_index(t_):
                    return any(y.op == 'elem' and y.extra is L for y in walk_terms(t_, into_mu=False))
                symmetric = bool(body)
                for e_ in body:
                    t_ = e_.term
                    if not uses_index(t_):
                        continue
                    t0 = strip_views(t_)
                    ok_acc = False
                    if t0.op in ('iop', 'binop') and t0.args[0] in ('Add', 'Mult'):
                        for acc, x_ in ((t0.args[1], t0.args[2]), (t0.args[2], t0.args[1])):
                            a0, x0 = strip_views(acc), strip_views(x_)
                            if isinstance(a0, T) and a0.op == 'mu' and not uses_index(a0) and isinstance(x0, T) and x0.op == 'sub' and not uses_index(x0.args[0]):
                                ok_acc = True
                    if e_.kind in ('inplace', 'call', 'store') and not ok_acc:
                        symmetric = False
                reported.add((fn.qual, L.id))
                if symmetric:
                    run.ok('R-CLASS', f'{short}: loop over class indices is a symmetric accumulation', fn.loc(L.node), 'the k-th slice is only added to / multiplied into a running total')
                    continue
                run.violation('R-CLASS', f'{short}: loop over class indices', fn.loc(L.node), 'a loop enumerates class indices (per-class special treatment is possible)',
                              construct=f'R-CLASS::{fn.qual}::class-loop')
    check_flat_indices(run, A)
    # a lookup table filled inside the loop over the (frequency, class) entries hands the value of the first class that reaches a cell to the others: relabelling changes which
    from . import c20 as _c20
    _c20.check_instance_tables(run, A, ('pb_bss.distribution.',))
    run.count('subscripts with integer literals examined', n_sub)
    run.floor('subscripts with a resolved class axis', n_res, 6)
    run.floor('reductions over a resolved class axis', n_ax, 6)
    # explicit class axis for the per-class broadcast
    n_b = 0
    for cname, mod in LP.TRAINERS.items():
        for owner, meth in ((cname, '_predict' if cname not in ('GMM',) else 'predict'), (cname + 'Trainer', '_m_step')):
            cls = A.prog.cls(f'{D}{mod}::{owner}')
            f = cls.methods.get(meth)
            if f is None:
                continue
            g = A.graphs.get(f)
            found = False
            for e in g.events:
                if e.kind != 'call':
                    continue
                n_, pos, kw = call_parts(e.term)
                if not n_ or not n_.startswith('method:') or n_[7:] not in ('log_pdf', '_log_pdf', '_fit'):
                    continue
                args = list(pos[1:]) + [v for k, v in kw.items() if k in ('y',)]
                for a in args:
                    for x in walk_terms(a, into_mu=False):
                        if x.op == 'sub' and x.args[1].op == 'tuple':
                            its = [const_val(i) if i.op != 'slice' else 'slice' for i in x.args[1].args[0]]
                            if its == [Ellipsis, None, 'slice', 'slice']:
                                found = True
                        if inserted_singleton_axes(x) == {-3}:
                            found = True          # the same axis inserted elsewhere and moved into place
                        if is_call_to(x, 'numpy.reshape') and const_val(call_arg(x, 1).args[0][0] if call_arg(x, 1) is not None and call_arg(x, 1).op == 'tuple' else None) == 1:
                            found = True
            n_b += 1
            run.check(found, 'R-BCAST', f'{owner}.{meth}: observations get an explicit (broadcast) class axis', f.loc(), 'y[..., None, :, :] / reshape(1, ...)',
                      'the component model is not called on observations with an inserted singleton class axis', construct=f'R-BCAST::{f.qual}::class-axis')
    from .. import reshape as _rs
    _n = _rs.check_reshapes(run, A, [D + 'gcacgmm::GCACGMMTrainer.fit', D + 'vmfcacgmm::VMFCACGMMTrainer.fit', D + 'gcacgmm::GCACGMM.predict', D + 'vmfcacgmm::VMFCACGMM.predict'])
    run.floor('reshapes of the integration models with resolved axis order', _n, 4)
    run.floor('per-class broadcast sites', n_b, 14)
