"""C18 - oracle masks satisfy their defining identities in every axis layout (structural parts).

  R-AXIS  axis parametricity: every axis-consuming call of a mask function takes its axis from the
          source_axis / sensor_axis / axis parameter (literals only on the canonical 2-D working array between the
          moveaxis/reshape pair, which is restored with the same axes).
  FORM    ideal binary mask = (argmax over source_axis == arange on the same axis); ratio masks divide by the sum over
          source_axis plus a positive eps; PSM = |s| / (|y| + eps) * cos(angle s - angle y) with y the source sum;
          ideal complex mask = s / y (no guard, exempt by the statement).
  R-API   working dimensions of the flatten step are integers (np.prod of a possibly empty shape slice needs an
          integer dtype); sibling lorenz_mask is the reference.
  R-MUT   no mask function mutates its input.
"""
from ..model import AnalysisError
from ..terms import T, walk_terms
from ..absint import TOP
from ..walk import (data_derives, data_terms, ret_alts, call_parts, call_arg, is_call_to, const_val, NOVAL, strip_views, unwrap_gamma, axis_uses,
                    norm_stmt, ctx_tree)
from . import c20
from .c01 import _division_terms
from ..walk import mult_factors, indexed_values, index_extent, shape_dim

F32_TINY = 1.1754943508222875e-38
M = 'pb_bss.extraction.mask_module::'
AXIS_PARAMS = {'source_axis', 'sensor_axis', 'axis', 'component_axis', 'frequency_axis'}
MASKS = ['ideal_binary_mask', 'wiener_like_mask', 'ideal_ratio_mask', 'ideal_amplitude_mask', 'phase_sensitive_mask', 'ideal_complex_mask',
         'lorenz_mask', 'quantile_mask', 'biased_binary_mask']


def axis_from_param(t):
    """does the axis expression derive from an axis parameter (directly, or through the tmp_axis tuple built from len(axis))?"""
    for x in walk_terms(t, into_mu=True):
        if x.op == 'param' and x.args[0] in AXIS_PARAMS:
            return True
    return False


def on_working_array(t):
    """operand derives from a 2-D working array produced by np.reshape(x, working_shape) (or a row of it inside a helper)"""
    for x in walk_terms(t, into_mu=True):
        if is_call_to(x, 'numpy.reshape') or (x.op == 'free'):
            return True
        if x.op == 'param' and x.fn is not None and x.fn.outer is not None:
            return True
    return False


def check_axis_parametricity(run, A):
    n = 0
    for name in MASKS:
        fn = A.prog.func(M + name)
        graphs = [(fn, A.graphs.get(fn))]
        # nested helpers (get_mask) are analysed with the outer function
        for t in walk_terms(A.graphs.get(fn).ret):
            pass
        for f_, g in graphs:
            for t, opnd, ax, cname, e in axis_uses(g):
                if ax is None:
                    # axis-less reduction: allowed only on the canonical working array
                    if cname in ('numpy.expand_dims', 'numpy.squeeze', 'numpy.concatenate', 'numpy.stack', 'numpy.split'):
                        continue
                    if opnd is not None and not any(x.op in ('param', 'free') for x in data_terms(opnd)):
                        continue     # arithmetic on shape tuples, not on data
                    n += 1
                    ok = opnd is not None and on_working_array(opnd)
                    run.check(ok, 'R-AXIS', f'{name}: {cname.split(".")[-1].split(":")[-1]}() without axis', f_.loc(t.node), 'on the 2-D working array',
                              f'`{norm_stmt(t.node)}` reduces over all axes of an array that still carries the caller\'s layout', construct=f'R-AXIS::{M + name}::axisless::{cname}')
                    continue
                n += 1
                if axis_from_param(ax):
                    run.ok('R-AXIS', f'{name}: {cname.split(".")[-1].split(":")[-1]} axis from a parameter', f_.loc(t.node))
                    continue
                v = const_val(ax)
                ok = opnd is not None and on_working_array(opnd)
                if not ok and opnd is not None and isinstance(v, int) and not isinstance(v, bool):
                    from ..walk import named_front_axes
                    ok = 0 <= v < named_front_axes(opnd)          # an axis the function itself brought to the front (np.swapaxes(x, source_axis, 0)): the caller's axis by another name
                run.check(ok, 'R-AXIS', f'{name}: literal axis {v!r} only on the canonical working array', f_.loc(t.node), '',
                          f'`{norm_stmt(t.node)}` uses the fixed axis {v!r} on an array in the caller\'s layout: moving source / sensor axes of the input would no longer move the computation with them',
                          construct=f'R-AXIS::{M + name}::literal-axis::{cname}')
    run.floor('axis-consuming calls in the mask functions', n, 20)


def sum_over_source(t, base_pred=None):
    """t == X.sum(source_axis, keepdims=True) / np.sum(X, axis=source_axis, keepdims=True) -> X"""
    t = strip_views(t)
    n, pos, kw = call_parts(t)
    if n in ('method:sum', 'numpy.sum'):
        ax = kw.get('axis', pos[1] if len(pos) > 1 else None)
        kd = kw.get('keepdims')
        if ax is not None and strip_views(ax).op == 'param' and strip_views(ax).args[0] == 'source_axis' and kd is not None and const_val(kd) is True:
            return pos[0]
    return None


def is_source_sum(t):
    """np.sum(X, axis=source_axis, keepdims=True) or X.sum(source_axis, keepdims=True)"""
    return sum_over_source(t) is not None


def eps_sum(den):
    """den == sum_over_source(X) + eps  ->  X"""
    den = strip_views(den)
    if den.op == 'binop' and den.args[0] == 'Add':
        for a, b in ((den.args[1], den.args[2]), (den.args[2], den.args[1])):
            if strip_views(b).op == 'param' and strip_views(b).args[0] == 'eps':
                return a
    return None


def not_followed_in(t):
    """a construct inside the term t that the FORM rules below do not read: an index that is computed (a tuple built at run time), a reordering / broadcast / reshape of an
    intermediate value.  A formula that does not match but contains one of these is written in another way - not decided; one that is made only of the operations the rules
    read and still does not match deviates."""
    if not isinstance(t, T):
        return None
    for x in walk_terms(t, into_mu=False):
        if x.op == 'sub':
            idx = x.args[1]
            items = list(idx.args[0]) if idx.op == 'tuple' else [idx]
            plain = all(i.op in ('slice', 'param', 'elem') or (i.op == 'const') for i in items)
            if not plain:
                return x
        if is_call_to(x, 'numpy.swapaxes', 'numpy.moveaxis', 'numpy.transpose', 'numpy.broadcast_to', 'numpy.reshape', 'numpy.rollaxis', 'method:swapaxes', 'method:transpose',
                      'numpy.take', 'numpy.take_along_axis', 'numpy.einsum'):
            return x
    return None


def sum_axes_in(t):
    """the kinds of axis the sums inside t run over: 'source' (the source_axis parameter), 'other' (a literal or another parameter), 'computed'; another reduction than a sum over
    source_axis (mean, max, prod, median) counts as 'other': the formulas of the masks sum over the sources"""
    kinds = set()
    for x in walk_terms(t, into_mu=False) if isinstance(t, T) else ():
        n, pos, kw = call_parts(x) if x.op == 'call' else (None, (), {})
        if n in ('numpy.mean', 'method:mean', 'numpy.amax', 'numpy.max', 'method:max', 'numpy.prod', 'method:prod', 'numpy.median', 'numpy.amin', 'numpy.min', 'method:min', 'numpy.average'):
            ax = kw.get('axis', pos[1] if len(pos) > 1 else None)
            if ax is not None and strip_views(ax).op == 'param' and strip_views(ax).args[0] == 'source_axis':
                kinds.add('other')
            continue
        if n in ('method:sum', 'numpy.sum'):
            ax = kw.get('axis', pos[1] if len(pos) > 1 else None)
            if ax is None:
                kinds.add('other')
                continue
            a0 = strip_views(ax)
            opnd_ = pos[0] if pos else None
            moved = opnd_ is not None and any(is_call_to(z, 'numpy.moveaxis', 'numpy.swapaxes', 'numpy.rollaxis', 'numpy.transpose', 'method:swapaxes', 'method:transpose')
                                              for z in walk_terms(opnd_, into_mu=True))
            if a0.op == 'param' and a0.args[0] == 'source_axis':
                kinds.add('source')
            elif a0.op == 'const' and moved:
                kinds.add('computed')          # a literal axis of an array whose axes were moved first (np.moveaxis(mask, source_axis, 0)): which axis of the input it is is not read here
            elif a0.op in ('const', 'param'):
                kinds.add('other')
            else:
                kinds.add('computed')
    return kinds


def form_verdict(run, ok, rule, title, where, expected, detail, construct, terms):
    """ok -> discharged; a formula made of the operations the rules read that does not match -> violation; one that contains a construct the rules do not read, or whose sums
    run over a computed axis -> undecided"""
    if ok:
        run.check(True, rule, title, where, expected, detail, construct=construct)
        return
    # a sum over the literal axis k of np.swapaxes / np.moveaxis(x, source_axis, k) that survived the builder (swap - reduce - swap back is np.sum(x, axis=source_axis)): the
    # reduced axis stays at position k and broadcasts against the wrong axis of the numerator
    for t in terms:
        for x in walk_terms(t, into_mu=False) if isinstance(t, T) else ():
            n_, pos_, kw_ = call_parts(x) if x.op == 'call' else (None, (), {})
            if n_ in ('numpy.sum', 'method:sum') and pos_:
                ax_ = kw_.get('axis', pos_[1] if len(pos_) > 1 else None)
                kd_ = kw_.get('keepdims')
                o_ = strip_views(pos_[0])
                if ax_ is not None and isinstance(const_val(ax_), int) and kd_ is not None and const_val(kd_) is True and is_call_to(o_, 'numpy.swapaxes', 'numpy.moveaxis') \
                        and len(call_parts(o_)[1]) == 3 and any(strip_views(z).op == 'param' and strip_views(z).args[0] == 'source_axis' for z in call_parts(o_)[1][1:]) \
                        and any(const_val(z) == const_val(ax_) for z in call_parts(o_)[1][1:]):
                    run.check(False, rule, title, where, expected, detail + f'; `{norm_stmt(x.node)[:90]}` sums the source axis at position {const_val(ax_)} and leaves the kept axis there', construct=construct)
                    return
    nf = next((not_followed_in(t) for t in terms if not_followed_in(t) is not None), None)
    kinds = set()
    for t in terms:
        kinds |= sum_axes_in(t)
    if 'other' not in kinds and (nf is not None or 'computed' in kinds or not kinds):
        why = f'`{norm_stmt(nf.node)[:80]}` is not one of the operations this rule reads' if nf is not None else \
            ('a sum over a computed axis' if 'computed' in kinds else 'no sum over an axis found in the formula')
        run.unresolved(rule, title, where, f'{detail}; {why}')
        return
    run.check(False, rule, title, where, expected, detail, construct=construct)


def check_forms(run, A):
    # ideal binary mask
    q = M + 'ideal_binary_mask'
    fn = A.prog.func(q)
    g = A.graphs.get(fn)
    am = [e.term for e in g.events if e.kind == 'call' and is_call_to(e.term, 'numpy.argmax')]
    ok = bool(am) and strip_views(call_arg(am[0], 1, 'axis')).op == 'param' and strip_views(call_arg(am[0], 1, 'axis')).args[0] == 'source_axis'
    ed = [e.term for e in g.events if e.kind == 'call' and is_call_to(e.term, 'numpy.expand_dims') and call_arg(e.term, 0) is (am[0] if am else None)]
    # (np.expand_dims(np.argmax(x, axis=a), a) is built as np.argmax(x, axis=a, keepdims=True))
    kept = bool(am) and call_arg(am[0], None, 'keepdims') is not None and const_val(call_arg(am[0], None, 'keepdims')) is True
    ok = ok and (kept or (bool(ed) and strip_views(call_arg(ed[0], 1, 'axis')).op == 'param' and strip_views(call_arg(ed[0], 1, 'axis')).args[0] == 'source_axis'))
    am_ok = bool(am) and strip_views(call_arg(am[0], 1, 'axis')).op == 'param' and strip_views(call_arg(am[0], 1, 'axis')).args[0] == 'source_axis'
    if not ok and am_ok and not kept and not ed:
        # the arg-max runs over source_axis, but the winner is not re-expanded with expand_dims / keepdims: the one-hot mask is built in another way.  One such way is decided:
        # one-hot on a new LAST axis, then np.transpose with a computed axis order - folded for every rank and every admissible source_axis (pbv/inteval.py): the new axis must
        # land at position source_axis of the result and the other axes keep their order
        from ..inteval import int_eval, UNKNOWN
        from ..walk import rank_sources_in
        verdict = None
        for r_ in ret_alts(g):
            for x in walk_terms(r_, into_mu=False):
                if not is_call_to(x, 'numpy.transpose', 'method:transpose'):
                    continue
                axes_t = call_arg(x, 1, 'axes')
                if axes_t is None or const_val(axes_t) is not NOVAL:
                    continue
                rank_terms = [y for y in walk_terms(axes_t, into_mu=False) if (y.op == 'attr' and y.args[1] == 'ndim') or is_call_to(y, 'numpy.ndim')]
                verdict = True
                for n_ in (1, 2, 3):
                    for a_ in range(-(n_ + 1), n_ + 1):
                        env_ = {('term', y.id): n_ for y in rank_terms}
                        env_['source_axis'] = a_
                        perm = int_eval(axes_t, env_)
                        if perm is UNKNOWN or not isinstance(perm, tuple):
                            verdict = None
                            break
                        want = list(range(n_))
                        want.insert(a_ % (n_ + 1), n_)
                        if list(perm) != want:
                            verdict = (n_, a_, perm, tuple(want))
                            break
                    if verdict is not True:
                        break
                break
            if verdict is not None:
                break
        if isinstance(verdict, tuple):
            n_, a_, perm, want = verdict
            run.violation('FORM', 'ideal_binary_mask: arg-max over source_axis, re-expanded on source_axis', fn.loc(),
                          f'the one-hot axis is put back with a computed axis order: for a signal of rank {n_ + 1} and source_axis={a_} the order is {perm}, the source axis of the result '
                          f'must be at position {a_ % (n_ + 1)} ({want})', construct=f'FORM::{q}::argmax-axis')
        elif verdict is True:
            run.ok('FORM', 'ideal_binary_mask: arg-max over source_axis, re-expanded on source_axis', fn.loc(), 'computed axis order folded for ranks 2..4 and every source_axis')
        else:
            run.unresolved('FORM', 'ideal_binary_mask: arg-max over source_axis, re-expanded on source_axis', fn.loc(), 'the winner index is turned into the mask in a form this rule does not read')
    else:
        run.check(ok, 'FORM', 'ideal_binary_mask: arg-max over source_axis, re-expanded on source_axis', fn.loc(), '', 'arg-max / expand_dims do not both use source_axis', construct=f'FORM::{q}::argmax-axis')
    st = [e for e in g.events if e.kind == 'store']
    oks = any(strip_views(e.term.args[1]).op == 'param' and strip_views(e.term.args[1]).args[0] == 'source_axis' for e in st)
    eqs = [t for e in g.events if e.term is not None for t in walk_terms(e.term) if t.op == 'cmp' and t.args[0] == 'Eq' and any(is_call_to(x, 'numpy.arange') for x in walk_terms(t.args[2]))]
    compared = [t for e in g.events if e.term is not None for t in walk_terms(e.term) if t.op == 'cmp' and t.args[0] == 'Eq' and am
                and any(y is am[0] for side in t.args[1:] if isinstance(side, T) for y in walk_terms(side))] + \
               [t for r_ in ret_alts(g) for t in walk_terms(r_) if t.op == 'cmp' and t.args[0] == 'Eq' and am and any(y is am[0] for side in t.args[1:] if isinstance(side, T) for y in walk_terms(side))]
    if am and not compared:
        run.violation('FORM', 'ideal_binary_mask: compared with arange laid out along source_axis', fn.loc(), 'the arg-max index is never compared with the source indices: what is returned is '
                      'the index of the winner, not a one-hot mask', construct=f'FORM::{q}::arange-axis')
        eqs = None
    reshaped_grid = eqs is not None and any(is_call_to(x, 'numpy.reshape') and any(is_call_to(y, 'numpy.arange') for y in walk_terms(call_arg(x, 0))) for t_ in eqs for x in walk_terms(t_.args[2]))
    if eqs is None:
        pass
    elif ((not st and eqs) or not eqs) and not reshaped_grid:
        # no shape list is filled in at all: the grid of class indices is laid out in another way (expand_dims over the other axes, ...) - not read here
        run.unresolved('FORM', 'ideal_binary_mask: compared with arange laid out along source_axis', fn.loc(), 'the class index grid is not built by filling a shape list at [source_axis]')
    else:
        run.check(oks and bool(eqs), 'FORM', 'ideal_binary_mask: compared with arange laid out along source_axis', fn.loc(), '', 'the class index grid is not reshaped along source_axis',
                  construct=f'FORM::{q}::arange-axis')
    no_argmin = not any(is_call_to(e.term, 'numpy.argmin') for e in g.events if e.kind == 'call')
    run.check(no_argmin and bool(am), 'R-SEL', 'ideal_binary_mask: source of MAXIMAL power', fn.loc(), '', 'arg-min instead of arg-max', construct=f'R-SEL::{q}::argmax')
    # ratio masks
    for name in ('wiener_like_mask', 'ideal_ratio_mask'):
        q = M + name
        fn = A.prog.func(q)
        g = A.graphs.get(fn)
        ok = False
        dens = []
        for dv in _division_terms(g):
            dens.append(dv.args[2])
            x = eps_sum(dv.args[2])
            if x is not None:
                base = sum_over_source(x)
                ok = base is not None and strip_views(base) is strip_views(dv.args[1])
        form_verdict(run, ok, 'FORM', f'{name}: divided by its own sum over source_axis plus eps', fn.loc(), '', 'mask /= mask.sum(source_axis, keepdims=True) + eps not found',
                     f'FORM::{q}::normalisation', dens)
    q = M + 'ideal_amplitude_mask'
    fn = A.prog.func(q)
    g = A.graphs.get(fn)
    r = [strip_views(x) for x in ret_alts(g)]
    ok = False
    for x in r:
        x = strip_views(x)
        while is_call_to(x, 'numpy.squeeze'):
            x = strip_views(call_arg(x, 0))
        if x.op == 'binop' and x.args[0] == 'Div':
            d = eps_sum(x.args[2])
            if d is not None and is_call_to(strip_views(d), 'numpy.abs'):
                inner = call_arg(strip_views(d), 0)
                ok = is_source_sum(inner) and is_call_to(strip_views(x.args[1]), 'numpy.abs')
    form_verdict(run, ok, 'FORM', 'ideal_amplitude_mask: |s| / (|sum over source_axis of s| + eps)', fn.loc(), '', 'form not recognised', f'FORM::{q}::form', r)
    # phase sensitive mask
    q = M + 'phase_sensitive_mask'
    fn = A.prog.func(q)
    g = A.graphs.get(fn)
    obs = [e.term for e in g.events if e.kind == 'call' and call_parts(e.term)[0] in ('numpy.sum', 'method:sum')]
    ok_obs = bool(obs) and is_source_sum(obs[0])
    # the returned value is a product (in place or not, either operand order) of the magnitude ratio and the cosine
    ok_div = ok_cos = False
    for r_ in ret_alts(g):
        for f, _c in mult_factors(strip_views(r_)):
            f = strip_views(f)
            if f.op in ('binop', 'iop') and f.args[0] == 'Div':
                d = eps_sum(f.args[2])
                ok_div = d is not None and is_call_to(strip_views(d), 'numpy.abs') and bool(obs) and call_arg(strip_views(d), 0) is obs[0] and is_call_to(strip_views(f.args[1]), 'numpy.abs') \
                    and data_derives(call_arg(strip_views(f.args[1]), 0), 'signal')
            elif is_call_to(f, 'numpy.cos'):
                th = strip_views(call_arg(f, 0))
                if th.op in ('binop', 'iop') and th.args[0] == 'Sub':
                    a, b = strip_views(th.args[1]), strip_views(th.args[2])
                    ok_cos = is_call_to(a, 'numpy.angle') and is_call_to(b, 'numpy.angle') and data_derives(call_arg(a, 0), 'signal') and bool(obs) and call_arg(b, 0) is obs[0]
    form_verdict(run, ok_obs and ok_div and ok_cos, 'FORM', 'phase_sensitive_mask: |s| / (|y| + eps) * cos(angle s - angle y), y = sum over source_axis', fn.loc(), '',
                 f'observed signal over source_axis: {ok_obs}; magnitude ratio with eps: {ok_div}; cosine of (angle s - angle y): {bool(ok_cos)}', f'FORM::{q}::form', list(ret_alts(g)))
    q = M + 'ideal_complex_mask'
    fn = A.prog.func(q)
    g = A.graphs.get(fn)
    r = [strip_views(x) for x in ret_alts(g)]
    ok = len(r) == 1 and r[0].op == 'binop' and r[0].args[0] == 'Div' and data_derives(r[0].args[1], 'signal') and is_source_sum(r[0].args[2]) \
        and data_derives(sum_over_source(r[0].args[2]), 'signal')
    form_verdict(run, ok, 'FORM', 'ideal_complex_mask: s / sum over source_axis of s', fn.loc(), '', 'form not recognised', f'FORM::{q}::form', r)
    # eps defaults are positive
    for name in ('wiener_like_mask', 'ideal_ratio_mask', 'ideal_amplitude_mask', 'phase_sensitive_mask'):
        fn = A.prog.func(M + name)
        ctx = A.ev.entry(fn)
        d = A.ev.default_av(fn, 'eps', ctx) if 'eps' in fn.defaults else None
        run.check(d is not None and d.sign == 'POS', 'R-SIGN', f'{name}: default eps is positive', fn.loc(), '', 'the eps guard defaults to a non-positive value', construct=f'R-SIGN::{M + name}::eps-default')
        # ... and stays positive when it is added to single-precision powers: the guard is a Python float that takes the dtype of the array it
        # is added to, so a value below the smallest float32 (1.2e-38; e.g. finfo(float64).tiny) is 0 for complex64 input and 0 / 0 is back
        if d is not None and d.sign == 'POS':
            if d.is_const and isinstance(d.cval, (int, float)):
                small = d.cval < F32_TINY
            elif isinstance(d.meta, tuple) and d.meta and d.meta[0] in ('finfo.tiny', 'finfo.eps'):
                small = d.meta[0] == 'finfo.tiny' and (len(d.meta) < 2 or d.meta[1] not in ('float32', 'single', 'float16', 'half', 'complex64'))
            else:
                raise AnalysisError(f'{name}: the default of eps is not resolvable to a constant')
            run.check(not small, 'R-SIGN', f'{name}: default eps is a positive number in single precision too', fn.loc(), '',
                      'the eps default is below the smallest float32: added to the float32 powers of a complex64 input it is 0 and silent points give 0 / 0',
                      construct=f'R-SIGN::{M + name}::eps-default-float32')


def check_pooled_power(run, A):
    """FORM: sensors are pooled in the power domain.  Every reduction over `sensor_axis` in a mask function sums |s|^2 (abs_square(signal) or a
    spelled-out |x|^2); the arg-max / ratio is then taken of the pooled POWER as the statement says.  A sum of magnitudes ranks sources
    differently as soon as a source is spread unevenly over the sensors ((3, 0) vs (2, 2))."""
    from ..walk import abs_square_operand
    n = 0
    for name in ('ideal_binary_mask', 'wiener_like_mask', 'lorenz_mask'):          # the masks the statement defines on POWER (quantile: magnitudes)
        fn = A.prog.func(M + name)
        if 'sensor_axis' not in fn.params:
            continue
        g = A.graphs.get(fn)
        for t, opnd, ax, cname, e in axis_uses(g):
            if ax is None or not (strip_views(ax).op == 'param' and strip_views(ax).args[0] == 'sensor_axis'):
                continue
            from ..walk import canon as canon_name
            if canon_name(cname) not in ('numpy.sum', 'numpy.mean'):
                continue
            n += 1
            x = strip_views(opnd)
            power = call_parts(x)[0] == 'pb_bss.utils::abs_square' or abs_square_operand(x) is not None
            run.check(power, 'FORM', f'{name}: the quantity pooled over the sensors is a power', fn.loc(t.node), '',
                      'the sum over sensor_axis is not taken of |signal|^2 (abs_square): pooled magnitudes rank / weight the sources differently from pooled power',
                      construct=f'FORM::{M + name}::pooled-power')
    run.floor('C18 reductions over sensor_axis examined', n, 3)


def check_flatten(run, A):
    for name in ('lorenz_mask', 'quantile_mask'):
        q = M + name
        fn = A.prog.func(q)
        g = A.graphs.get(fn)
        prods = [e.term for e in g.events if e.kind == 'call' and is_call_to(e.term, 'numpy.prod')]
        # the 2-D working shape groups exactly the moved axes: its extents derive from the NUMBER of requested axes
        # (len(axis) / len(tmp_axis)), not from a fixed count of trailing axes
        mv_all = [e.term for e in g.events if e.kind == 'call' and is_call_to(e.term, 'numpy.moveaxis')]
        rsh = [e.term for e in g.events if e.kind == 'call' and is_call_to(e.term, 'numpy.reshape') and any(strip_views(call_arg(e.term, 0)) is m_ for m_ in mv_all)]
        mv0 = [m_ for m_ in mv_all if rsh and strip_views(call_arg(rsh[0], 0)) is m_]
        if not mv0 or not rsh:
            raise AnalysisError(f'{name}: moveaxis / reshape to the 2-D working array not found')
        ws = strip_views(call_arg(rsh[0], 1, 'newshape'))
        while is_call_to(ws, 'builtin.tuple', 'builtin.list') and len(call_parts(ws)[1]) == 1:
            ws = strip_views(call_parts(ws)[1][0])
        elems = list(ws.args[0]) if ws.op in ('tuple', 'list') else None

        def counts_moved_axes(x):
            # a len(axis) / len(tmp_axis) that selects the extents - not one buried in how the array whose .shape is read was built
            stack, seen = [x], set()
            while stack:
                y = stack.pop()
                if not isinstance(y, T) or y.id in seen:
                    continue
                seen.add(y.id)
                if is_call_to(y, 'builtin.len') and data_derives(call_arg(y, 0), 'axis'):
                    return True
                if y.op == 'attr' and y.args[1] == 'shape':
                    continue
                for a in y.args:
                    if isinstance(a, T):
                        stack.append(a)
                    elif isinstance(a, tuple):
                        for z in a:
                            if isinstance(z, T):
                                stack.append(z)
                            elif isinstance(z, tuple):
                                stack.extend(w for w in z if isinstance(w, T))
            return False
        okw = elems is not None and len(elems) == 2 and all(counts_moved_axes(x) or const_val(x) == -1 for x in elems) and any(counts_moved_axes(x) for x in elems)
        run.check(okw, 'R-ELL', f'{name}: the flattened group is exactly the requested axes', fn.loc(rsh[0].node), '',
                  'the 2-D working shape does not derive from the number of requested axes (len(axis)): with a single axis or more than two axes a fixed count of '
                  'trailing axes groups the wrong extents, and the threshold is taken over several independent slices at once', construct=f'R-ELL::{q}::working-shape')
        for t in prods:
            arg = strip_views(call_arg(t, 0))
            leading = False
            if arg.op == 'sub' and arg.args[1].op == 'slice':
                lo, hi, st_ = arg.args[1].args
                leading = const_val(lo) is None      # shape[:-k] may be empty
            dt = call_arg(t, None, 'dtype')
            has_int = dt is not None and dt.op == 'ref' and getattr(dt.args[0], 'dotted', '') in ('numpy.int64', 'numpy.int32', 'numpy.intp') or \
                (dt is not None and dt.op == 'ref' and dt.args[0] == ('builtin', 'int'))
            if leading:
                run.check(has_int, 'R-API', f'{name}: product of the (possibly empty) leading shape is an integer', fn.loc(t.node), '',
                          'np.prod of an empty shape slice is the float 1.0; used as a reshape dimension it raises TypeError (sibling lorenz_mask passes dtype=np.int64)',
                          construct=f'R-API::{q}::prod-dtype')
        fwd = mv0[0]
        # the working shape is (prod(shape[:-n]), prod(shape[-n:])) of the moved array with n the number of requested axes: independent part first, the n TRAILING axes second
        if okw:
            def neg_count(x):
                x = strip_views(x)
                return x.op == 'unop' and x.args[0] == 'USub' and counts_moved_axes(x.args[1])
            verdicts = []
            for pos_, e_ in enumerate(elems):
                e_ = strip_views(e_)
                if const_val(e_) == -1:
                    verdicts.append(True)
                    continue
                pr = e_ if is_call_to(e_, 'numpy.prod', 'math.prod') else None
                a_ = strip_views(call_arg(pr, 0)) if pr is not None else None
                if a_ is None or a_.op != 'sub' or strip_views(a_.args[1]).op != 'slice' or not (strip_views(a_.args[0]).op == 'attr' and strip_views(a_.args[0]).args[1] == 'shape'
                                                                                                 and strip_views(strip_views(a_.args[0]).args[0]) is fwd):
                    verdicts.append(None)
                    continue
                lo, hi, st_ = strip_views(a_.args[1]).args
                if const_val(st_) is not None:
                    verdicts.append(None)
                elif pos_ == 0:
                    verdicts.append(True if const_val(lo) is None and neg_count(hi) else False if const_val(lo) is None and counts_moved_axes(hi) else None)
                else:
                    verdicts.append(True if neg_count(lo) and const_val(hi) is None else False if counts_moved_axes(lo) and const_val(hi) is None else None)
            if any(v is False for v in verdicts):
                run.violation('R-ELL', f'{name}: the flattened group is the n TRAILING axes of the moved array', fn.loc(rsh[0].node),
                              'the 2-D working shape is not (prod(shape[:-n]), prod(shape[-n:])): a slice counts the requested axes from the front (shape[:n] / shape[n:]) although the '
                              'requested axes were moved to the END - samples of different independent slices share one threshold', construct=f'R-ELL::{q}::working-shape-split')
            elif any(v is None for v in verdicts):
                run.unresolved('R-ELL', f'{name}: the flattened group is the n TRAILING axes of the moved array', fn.loc(rsh[0].node), 'the two extents are not np.prod of shape[:-n] / shape[-n:] of the moved array')
            else:
                run.ok('R-ELL', f'{name}: the flattened group is the n TRAILING axes of the moved array', fn.loc(rsh[0].node), '(prod(shape[:-n]), prod(shape[-n:]))')
        # the requested axes are moved to the LAST n positions: the destination is {-1, ..., -n} for every n
        dst = strip_views(call_arg(fwd, 2, 'destination'))
        while is_call_to(dst, 'builtin.tuple', 'builtin.list') and len(call_parts(dst)[1]) == 1:
            dst = strip_views(call_parts(dst)[1][0])
        decided = None

        def is_count(x):
            x = strip_views(x)
            return is_call_to(x, 'builtin.len') and len(call_parts(x)[1]) == 1 and data_derives(call_parts(x)[1][0], 'axis')

        def ev_(x, i, n_, it_=None):
            x = strip_views(x)
            if x.op == 'const' and isinstance(x.args[0], int) and not isinstance(x.args[0], bool):
                return x.args[0]
            if is_count(x):
                return n_
            if it_ is not None and x.op == 'elem' and x.args and x.args[0] is it_:
                return i
            if x.op == 'unop' and x.args[0] == 'USub':
                v_ = ev_(x.args[1], i, n_, it_)
                return None if v_ is None else -v_
            if x.op == 'binop' and x.args[0] in ('Add', 'Sub', 'Mult'):
                a_, b_ = ev_(x.args[1], i, n_, it_), ev_(x.args[2], i, n_, it_)
                if a_ is None or b_ is None:
                    return None
                return a_ + b_ if x.args[0] == 'Add' else a_ - b_ if x.args[0] == 'Sub' else a_ * b_
            return None

        def range_values(rg, n_):
            ra = [ev_(a_, 0, n_) for a_ in call_parts(rg)[1]]
            if not ra or any(v is None for v in ra) or len(ra) > 3 or (len(ra) == 3 and ra[2] == 0):
                return None
            return list(range(*ra))
        outcomes = []
        for n_ in (1, 2, 3):
            vals = None
            if dst.op == 'comp' and len(dst.args[1]) == 1 and len(dst.args[2]) == 1 and not dst.args[3] and is_call_to(strip_views(dst.args[2][0]), 'builtin.range'):
                idxs = range_values(strip_views(dst.args[2][0]), n_)
                if idxs is not None:
                    vals = [ev_(dst.args[1][0], i, n_, dst.args[2][0]) for i in idxs]
            elif is_call_to(dst, 'builtin.range'):
                vals = range_values(dst, n_)
            if vals is None or any(v is None for v in vals):
                outcomes = None
                break
            outcomes.append(sorted(vals) == sorted(-k for k in range(1, n_ + 1)))
        if outcomes is not None:
            decided = all(outcomes)
        if decided is None:
            run.unresolved('R-ELL', f'{name}: the requested axes are moved to the last n positions', fn.loc(fwd.node), 'the destination of the moveaxis is not a comprehension over range(len(axis)) of integer arithmetic')
        else:
            run.check(decided, 'R-ELL', f'{name}: the requested axes are moved to the last n positions', fn.loc(fwd.node), '',
                      'the destination axes of the moveaxis are not {-1, ..., -n}: the axes that are flattened and thresholded together are not the requested ones', construct=f'R-ELL::{q}::destination')
        # the mask is computed from the VALUES of the signal: some data path from the result to `signal` that is not only its shape / dtype (a buffer that is never filled has none)
        from ..walk import reaches_param_avoiding

        def shape_only(x):
            if x.op == 'attr' and x.args[1] in ('shape', 'ndim', 'dtype', 'size'):
                return True
            return is_call_to(x, 'numpy.zeros_like', 'numpy.ones_like', 'numpy.empty_like', 'numpy.full_like', 'builtin.len', 'numpy.shape', 'numpy.ndim')
        run.check(all(reaches_param_avoiding(r_, 'signal', shape_only) for r_ in ret_alts(g)), 'FORM', f'{name}: the mask depends on the values of the signal', fn.loc(), '',
                  'no data path from the returned mask to `signal` other than through its shape / dtype: the buffer of the mask is never filled with the comparison',
                  construct=f'FORM::{q}::filled')
        if name == 'lorenz_mask':
            # the high level is set by COMPARING the power with the threshold (strictly above): a selection by rank (positions of an argsort) splits points of equal power
            all_t = [x for e_ in g.events if e_.term is not None for x in walk_terms(e_.term)] + list(walk_terms(g.ret))
            by_rank = [e_ for e_ in g.events if e_.kind == 'store' and any(is_call_to(y, 'numpy.argsort', 'method:argsort', 'numpy.argpartition') for y in walk_terms(e_.term.args[1]))]
            gt = [x for x in all_t if x.op == 'cmp' and x.args[0] in ('Gt', 'Lt') and any(is_call_to(y, 'numpy.min', 'numpy.amin', 'method:min', 'numpy.max', 'numpy.amax', 'numpy.sort', 'method:sort')
                                                                                     for z in (x.args[1], x.args[2]) for y in walk_terms(z))]
            closures = [x for x in all_t if x.op == 'closure' or (x.op == 'call' and x.args[0].op == 'closure')]
            if by_rank:
                run.violation('FORM', 'lorenz_mask: points strictly stronger than the threshold get the high level', fn.loc(by_rank[0].node),
                              f'`{norm_stmt(by_rank[0].node)}` selects the strong points by their RANK in a sort: points whose power equals the threshold power are split between the two '
                              f'levels (the definition puts all of them at the low level)', construct=f'FORM::{q}::selected-by-rank')
            elif gt or closures:
                run.ok('FORM', 'lorenz_mask: points strictly stronger than the threshold get the high level', fn.loc(), 'the mask is a comparison with the threshold power')
            else:
                run.unresolved('FORM', 'lorenz_mask: points strictly stronger than the threshold get the high level', fn.loc(), 'no comparison of the power with a threshold found')
        # a row loop over the 2-D working array visits every row
        W2 = rsh[0]
        for idx_, val_, node_ in indexed_values(g):
            if len(idx_) != 1 or not any(x is W2 for x in walk_terms(val_, into_mu=False)):
                continue
            ext_ = index_extent(idx_[0])
            sd_ = shape_dim(ext_) if isinstance(ext_, T) else None

            def twin(x):
                # the working array, or a buffer created with its shape (zeros_like(W) ..., also while it is being filled)
                x = strip_views(x)
                for _ in range(6):
                    if isinstance(x, T) and x.op in ('mu', 'store'):
                        x = strip_views(x.args[0])
                    elif is_call_to(x, 'numpy.zeros_like', 'numpy.ones_like', 'numpy.empty_like', 'numpy.full_like'):
                        x = strip_views(call_arg(x, 0))
                    elif is_call_to(x, 'numpy.zeros', 'numpy.ones', 'numpy.empty', 'numpy.full') and call_arg(x, 0, 'shape') is not None and \
                            strip_views(call_arg(x, 0, 'shape')).op == 'attr' and strip_views(call_arg(x, 0, 'shape')).args[1] == 'shape':
                        x = strip_views(strip_views(call_arg(x, 0, 'shape')).args[0])
                    elif isinstance(x, T) and x.op == 'call' and const_val(call_arg(x, None, 'axis')) in (-1, 1) and call_arg(x, 0) is not None and \
                            any(y is W2 for y in walk_terms(call_arg(x, 0), into_mu=False)):
                        x = strip_views(call_arg(x, 0))          # one value per row: percentile / sum / max ... of the working array over its last axis
                    elif isinstance(x, T) and x.op == 'gamma':
                        alts_ = [strip_views(a_) for a_ in unwrap_gamma(x)]
                        return bool(alts_) and all(twin(a_) for a_ in alts_)
                    else:
                        break
                return x is W2
            full_ = (sd_ is not None and twin(sd_[0]) and sd_[1] == 0) or (isinstance(ext_, tuple) and ext_[0] == 'len' and isinstance(ext_[1], T) and twin(ext_[1])) or \
                (isinstance(ext_, tuple) and ext_[0] == 'len' and isinstance(ext_[1], tuple) and bool(ext_[1]) and all(isinstance(x, T) and twin(x) for x in ext_[1]))
            if sd_ is None and not isinstance(ext_, tuple):
                run.unresolved('R-ELL', f'{name}: the row loop visits every row of the working array', fn.loc(node_), 'extent of the loop not recognised')
            else:
                run.check(full_, 'R-ELL', f'{name}: the row loop visits every row of the working array', fn.loc(node_), '',
                          'the loop that fills the mask row by row does not run over shape[0] (the independent slices) of the 2-D working array', construct=f'R-ELL::{q}::row-loop')
        # restore: moveaxis(mask.reshape(shape), tmp_axis, axis) mirrors moveaxis(x, axis, tmp_axis)
        def names_axis(x):
            # the caller's axis numbers themselves (not merely their count)
            stack, seen = [x], set()
            while stack:
                y = stack.pop()
                if not isinstance(y, T) or y.id in seen:
                    continue
                seen.add(y.id)
                if y.op == 'param' and y.args[0] == 'axis':
                    return True
                if is_call_to(y, 'builtin.len'):
                    continue
                for a in y.args:
                    for z in (a if isinstance(a, tuple) else (a,)):
                        for w in (z if isinstance(z, tuple) else (z,)):
                            if isinstance(w, T):
                                stack.append(w)
            return False
        backs = [m_ for m_ in mv_all if call_arg(m_, 2) is not None and names_axis(call_arg(m_, 2)) and not names_axis(call_arg(m_, 1))]
        n_restore = 0
        for back in backs:
            rs = strip_views(call_arg(back, 0))
            mirrored = strip_views(call_arg(fwd, 1)) is strip_views(call_arg(back, 2)) and strip_views(call_arg(fwd, 2)) is strip_views(call_arg(back, 1))
            if is_call_to(rs, 'method:reshape', 'numpy.reshape'):
                shp = call_arg(rs, 1)
                ok = mirrored and shp is not None and strip_views(shp).op == 'attr' and strip_views(shp).args[1] == 'shape' and strip_views(shp).args[0] is fwd
                n_restore += 1
                run.check(ok, 'R-ELL', f'{name}: flatten is restored (reshape to the saved shape, axes moved back)', fn.loc(back.node), '',
                          'the result is not reshaped to the shape saved after moveaxis and moved back with the swapped (tmp_axis, axis) pair', construct=f'R-ELL::{q}::restore')
            elif rs.op in ('list', 'tuple', 'comp') or (is_call_to(rs, 'numpy.array', 'numpy.stack', 'numpy.asarray') and strip_views(call_arg(rs, 0)).op in ('list', 'tuple', 'comp')):
                ax_ = call_arg(rs, None, 'axis') if rs.op == 'call' else None
                run.violation('R-ELL', f'{name}: axes are moved back on an array of the rank they were given for', fn.loc(back.node),
                              f'`{norm_stmt(back.node)}` moves axes to the positions named by the caller on a STACK of results: the stack has one more '
                              f'{"leading " if ax_ is None else ""}axis than the input, every non-negative entry of `axis` now names the axis before the one that was meant',
                              construct=f'R-ELL::{q}::restore-on-stack')
            else:
                run.unresolved('R-ELL', f'{name}: axes are moved back on an array of the rank they were given for', fn.loc(back.node),
                               f'`{norm_stmt(back.node)}`: the operand is not the working array reshaped to the saved shape')
        if not n_restore:
            run.check(False, 'R-ELL', f'{name}: flatten is restored (reshape to the saved shape, axes moved back)', fn.loc(), '',
                      'the result is not reshaped to the shape saved after moveaxis and moved back with the swapped (tmp_axis, axis) pair', construct=f'R-ELL::{q}::restore')
        # levels 0.5 +/- weight / 2
        lv = [t for e in g.events if e.term is not None for t in walk_terms(e.term) if t.op == 'binop' and t.args[0] == 'Add' and const_val(t.args[1]) == 0.5]
        okl = False
        for t in lv:
            m = strip_views(t.args[2])
            if m.op == 'binop' and m.args[0] == 'Mult':
                a, b = strip_views(m.args[1]), strip_views(m.args[2])
                w, rest = (a, b) if (a.op == 'param' and a.args[0] == 'weight') else (b, a)
                okl = w.op == 'param' and w.args[0] == 'weight' and rest.op == 'binop' and rest.args[0] == 'Sub' and const_val(rest.args[2]) == 0.5
        run.check(okl, 'FORM', f'{name}: levels 0.5 + weight * (mask - 0.5)', fn.loc(), '', 'affine map to 0.5 +/- weight/2 not found', construct=f'FORM::{q}::levels')
    # quantile direction: q >= 0 -> above the (1 - q) quantile ; q < 0 -> below the |q| quantile
    q = M + 'quantile_mask'
    fn = A.prog.func(q)
    g = A.graphs.get(fn)
    from ..walk import gamma_paths, cond_polarity
    pcs = [e for e in g.events if e.kind == 'call' and is_call_to(e.term, 'numpy.percentile')]
    # the quantile level: (1 - q) * 100 where quantile >= 0 holds, |q| * 100 where it does not (two guarded calls, or one call whose level is selected)
    levels = []
    ok = bool(pcs)
    for e in pcs:
        ok = ok and const_val(call_arg(e.term, None, 'axis')) == -1
        for conds, leaf in gamma_paths(call_arg(e.term, 1, 'q')):
            tests = list(conds.values()) + [cond_polarity(c, p) for c, p in e.guards]
            pol = [p for c, p in tests if c.op == 'cmp' and c.args[0] == 'GtE']
            upper = any(x.op == 'binop' and x.args[0] == 'Sub' and const_val(x.args[1]) == 1 for x in walk_terms(leaf))
            lower = any(is_call_to(x, 'builtin.abs', 'numpy.abs') for x in walk_terms(leaf))
            levels.append((pol[-1] if pol else None, 'upper' if upper and not lower else 'lower' if lower and not upper else '?'))
    ok = ok and set(levels) == {(True, 'upper'), (False, 'lower')}
    # every comparison that fills the mask: `>` where quantile >= 0 holds, `<` where it does not (as two guarded stores, one store of a
    # conditional comparison, or np.greater / np.less selected by the same test)
    found = []
    for e in g.events:
        if e.kind != 'store':
            continue
        for conds, leaf in gamma_paths(e.term.args[2]):
            leaf = strip_views(leaf)
            if leaf.op != 'cmp' or leaf.args[0] not in ('Gt', 'Lt', 'GtE', 'LtE'):
                continue
            tests = list(conds.values()) + [cond_polarity(c, p) for c, p in e.guards]
            pol = [p for c, p in tests if c.op == 'cmp' and c.args[0] == 'GtE']
            found.append((leaf.args[0], pol[-1] if pol else None))
    okc = {f for f in found} == {('Gt', True), ('Lt', False)}
    run.check(ok and okc, 'FORM', 'quantile_mask: q >= 0 marks points above the (1-q) quantile, q < 0 points below the |q| quantile', fn.loc(), '',
              f'percentile arguments ok: {ok}; comparison direction per branch ok: {okc}', construct=f'FORM::{q}::direction')
    # the quantile is one of MAGNITUDES: what is ranked and what is compared with the level is |signal| (complex numbers have no order; NumPy would rank them by real part)
    from ..walk import reaches_param_avoiding
    is_abs = lambda x: is_call_to(x, 'numpy.abs', 'numpy.absolute', 'builtin.abs')
    ranked = [call_arg(e.term, 0, 'a') for e in pcs]
    compared = []
    for e in g.events:
        if e.kind == 'store':
            for _c, leaf in gamma_paths(e.term.args[2]):
                leaf = strip_views(leaf)
                if leaf.op == 'cmp' and leaf.args[0] in ('Gt', 'Lt', 'GtE', 'LtE'):
                    compared += [leaf.args[1], leaf.args[2]]
    bare = [x for x in ranked + compared if x is not None and reaches_param_avoiding(x, 'signal', is_abs)]
    run.floor('quantile_mask: ranked / compared operands', len(ranked) + len(compared), 6)
    run.check(not bare, 'FORM', 'quantile_mask: the values ranked and compared with the quantile are magnitudes of the signal', fn.loc(getattr(bare[0], 'node', None) if bare else None), '',
              'the signal reaches np.percentile / the comparison without np.abs: a complex STFT is ranked by its real part', construct=f'FORM::{q}::magnitudes')


def check_no_mutation(run, A):
    ev = A.ev
    n = 0
    for name in MASKS:
        fn = A.prog.func(M + name)
        ctx = ev.entry(fn)
        bad = []
        for c in ctx_tree(ctx):
            for (e, tv, _v) in c.effects:
                kind, node = c20.effect_desc(e)
                if kind.startswith('container'):
                    continue
                n += 1
                certain, maybe = c20.effect_target_roots(tv)
                for r in certain:
                    if r[0] == 'param' and r[1] == fn.qual and c20.is_array_like(tv):
                        bad.append((r[2], c.fn.loc(node)))
        run.check(not bad, 'R-MUT', f'{name}: input arrays are not modified', fn.loc(), '', f'in-place effect on the caller\'s array: {bad}', construct=f'R-MUT::{M + name}::caller-arrays')
    run.count('in-place effects examined in mask functions', n)


def check(run):
    A = run.A
    from ..opt import check_axisless_squeeze, check_layout_dependent_flatten
    check_axisless_squeeze(run, A, ('pb_bss.extraction.mask_module',))
    check_layout_dependent_flatten(run, A, ('pb_bss.extraction.mask_module',))
    from ..opt import check_optional_truthiness, check_params_reach, check_forwarding, check_stale_loop_variables, check_argument_names, check_none_use
    check_none_use(run, A, ('pb_bss.extraction.mask_module',))
    check_argument_names(run, A, ('pb_bss.extraction.mask_module',))
    check_stale_loop_variables(run, A, ('pb_bss.extraction.mask_module',))
    from ..opt import check_extent_loops
    check_extent_loops(run, A, ('pb_bss.extraction.mask_module',))
    from ..opt import check_block_partitions
    check_block_partitions(run, A, ('pb_bss.extraction.mask_module',))
    from ..opt import check_result_buffers
    check_result_buffers(run, A, ('pb_bss.extraction.mask_module',))
    check_forwarding(run, A, ('pb_bss.extraction.mask_module',))
    check_params_reach(run, A, ('pb_bss.extraction.mask_module',))
    check_optional_truthiness(run, A, ('pb_bss.extraction.mask_module',))
    run.explanation = (
        'Axis parametricity of every axis-consuming call in the nine mask functions (axis from a parameter; literals only on the canonical 2-D working array, restored with the same axes), '
        'the defining forms of the binary / ratio / amplitude / phase-sensitive / complex masks on their term graphs, integer typing of the flatten dimensions (np.prod of a possibly empty '
        'shape slice), positive eps defaults and absence of caller mutation. Quantile / Lorenz threshold semantics on values and tie behaviour are not decided.')
    run.trusted = ['mask definitions in the property statement; sibling lorenz_mask as reference for the flatten idiom']
    check_axis_parametricity(run, A)
    check_forms(run, A)
    check_flatten(run, A)
    check_pooled_power(run, A)
    check_no_mutation(run, A)
