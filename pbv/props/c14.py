"""C14 - permutation alignment only reorders classes (structural parts).

  R-PERM  a small provenance type system: PERM sources are np.arange(K) (identity), the rows of
          itertools.permutations(range(K)), results of _mapping_from_score_matrix (justified by R-SEL c/d); PERM is
          closed under gathering a PERM column by a PERM index and under appending / repeating columns.
          calculate_mapping of the three aligners returns PERM columns; apply_mapping and everything between
          calculate_mapping and the returned affiliation in the inline EM alignment is a pure gather / transpose;
          one mapping reaches both apply_mapping calls (affiliation and quadratic form).
  R-SEL c exhaustive arg-max loops (optimal assignment, inline-PA search): complete enumeration of
          permutations(range(K)), candidate from the loop variable, strict `>` against a -inf start, best value and
          best argument updated together, no early exit.
  R-SEL d greedy retire loop: K picks, arg-max over the flattened matrix, both the chosen row and column are
          overwritten with the -inf surrogate, row -> column assignment, after the finiteness guard.
"""
import ast

from ..model import AnalysisError
from ..terms import T, walk_terms
from ..walk import (data_derives, ret_alts, call_parts, call_arg, is_call_to, const_val, NOVAL, strip_views, unwrap_gamma, norm_stmt, shape_dim, loop_role, newaxis_insertions, swaps_first_two_of_three, axis_reordering, index_chain, none_test)
from .. import loop as LP
from .. import sel

P = 'pb_bss.permutation_alignment::'
MMU = 'pb_bss.distribution.mixture_model_utils::'


def check_exhaustive(run, A, qual, label, class_dim_of, want_loops=1, rule='R-SEL'):
    """class_dim_of: {(parameter name, axis position from the right)} whose length is the class count K"""
    fn = A.prog.func(qual)
    g = A.graphs.get(fn)
    reps = [r for r in sel.exhaustive_searches(g) if sel.enumeration_domain(r['iter'])[0] is not None]
    if len(reps) < want_loops:
        raise AnalysisError(f'{qual}: exhaustive arg-max loop over permutations not found')
    for r in reps:
        where = fn.loc(r['loop'].node)
        call, dom, complete = sel.enumeration_domain(r['iter'])
        full = False
        why = 'the enumerated set is not permutations(range(K)) of the full class count'
        if not complete:
            why = 'the enumerated permutations are sliced / filtered or permutations(..., r) enumerates partial selections'
        else:
            d = shape_dim(dom)
            if d is not None and d[0].op == 'param':
                full = (d[0].args[0], d[1]) in class_dim_of
                why = f'range(n) where n is axis {d[1]} of {d[0].args[0]}.shape; expected one of {sorted(class_dim_of)}'
        run.check(full, rule, f'{label}: complete enumeration of the class permutations', where, norm_stmt(r['loop'].node.iter)[:80], why, construct=f'{rule}::{qual}::enumeration')
        run.check(r['direction'] == 'max', rule, f'{label}: keeps the LARGEST candidate', where, '', 'the comparison keeps the smaller candidate (arg-min)', construct=f'{rule}::{qual}::direction')
        run.check(r['strict'], rule, f'{label}: strict comparison (first maximiser wins, identity is never replaced by an equal permutation)', where, '',
                  'non-strict comparison: a later equal candidate replaces the identity permutation', construct=f'{rule}::{qual}::strict')
        run.check(r['init_neg_inf'], rule, f'{label}: running best starts at -inf', where, '', 'the running best value is not initialised with -inf before the loop',
                  construct=f'{rule}::{qual}::init')
        run.check(r['best_updated_with_candidate'] and r['arg_updated_with_loop_var'], rule, f'{label}: best value and best permutation updated together', where, '',
                  f'paired update broken (value := candidate: {r["best_updated_with_candidate"]}, argument := loop variable: {r["arg_updated_with_loop_var"]})',
                  construct=f'{rule}::{qual}::paired-update')
        cand0 = strip_views(r['cand']) if isinstance(r.get('cand'), T) else None
        if not r['candidate_from_loop_var'] and cand0 is not None and cand0.op == 'mu':
            # the candidate is accumulated by an inner loop (score = score + matrix[row, column] over enumerate(permutation)): its dependence on the permutation runs through
            # that loop - not read here
            run.unresolved(rule, f'{label}: candidate value computed from the enumerated permutation', where, 'the candidate is accumulated in an inner loop')
        else:
            run.check(r['candidate_from_loop_var'], rule, f'{label}: candidate value computed from the enumerated permutation', where, '', 'the candidate does not depend on the loop variable',
                      construct=f'{rule}::{qual}::candidate')
        run.check(not r['early_exit'], rule, f'{label}: no early exit from the search', where, '', 'break / continue / return inside the exhaustive search', construct=f'{rule}::{qual}::early-exit')
    return reps


# ------------------------------------------------------------------------------------------------ greedy retire loop
def _is_unravel(t):
    """(row, column) of a flat index into a (K, K) matrix: np.unravel_index(flat, matrix.shape) or divmod(flat, K) with K the unpacked class count"""
    if is_call_to(t, 'numpy.unravel_index'):
        return True
    if is_call_to(t, 'builtin.divmod') and len(call_parts(t)[1]) == 2:
        k = strip_views(call_arg(t, 1))
        if k.op == 'unpack' and strip_views(k.args[0]).op == 'attr' and strip_views(k.args[0]).args[1] == 'shape':
            return k.args[1] >= k.args[2] - 2 and (k.args[3] is not None or k.args[2] == 2)          # one of the last two entries of `*F, K, K_ = shape`
        return k.op == 'sub' and strip_views(k.args[0]).op == 'attr' and strip_views(k.args[0]).args[1] == 'shape' and const_val(k.args[1]) in (-1, -2)
    return False


def check_greedy(run, A):
    q = P + '_mapping_from_score_matrix'
    fn = A.prog.func(q)
    g = A.graphs.get(fn)
    # finiteness guard dominates everything
    raises = [e for e in g.events if e.kind == 'raise' and e.guards and any(is_call_to(x, 'numpy.isfinite') for c, _ in e.guards for x in walk_terms(c))]
    first_store = min([e.seq for e in g.events if e.kind == 'store'], default=None)
    okg = bool(raises) and first_store is not None and raises[0].seq < first_store and len(raises[0].guards) == 1
    run.check(okg, 'R-SEL', '_mapping_from_score_matrix: finiteness guard precedes every assignment', fn.loc(), '', 'no `raise` on non-finite scores before the selection',
              construct=f'R-SEL::{q}::finite-guard')
    # every returned mapping is computed from the VALUES of the scores (a buffer of zeros that is never filled is not a permutation for K > 1)
    from ..walk import reaches_param_avoiding

    def shape_only(x):
        if x.op == 'attr' and x.args[1] in ('shape', 'ndim', 'dtype', 'size'):
            return True
        return is_call_to(x, 'numpy.zeros_like', 'numpy.ones_like', 'numpy.empty_like', 'builtin.len', 'numpy.shape', 'numpy.ndim')
    def depends_on_scores(t_):
        # data AND control dependence (the arg-max search selects a permutation by comparing scores), loop-carried values followed
        seen_, stack_ = set(), [t_]
        while stack_:
            x = stack_.pop()
            if not isinstance(x, T) or x.id in seen_:
                continue
            seen_.add(x.id)
            if shape_only(x):
                continue
            if x.op == 'param':
                if x.args[0] == 'score_matrix':
                    return True
                continue
            if x.op == 'mu' and isinstance(getattr(x, 'next', None), T):
                stack_.append(x.next)
            for a in x.args:
                for b in (a if isinstance(a, tuple) else (a,)):
                    for c in (b if isinstance(b, tuple) else (b,)):
                        if isinstance(c, T):
                            stack_.append(c)
        return False
    from ..walk import dead_leaf as _dead
    alts_ = [r_ for r_ in ret_alts(g) if not _dead(r_)]
    run.check(bool(alts_) and all(depends_on_scores(r_) for r_ in alts_), 'R-SEL', '_mapping_from_score_matrix: every returned mapping depends on the scores',
              fn.loc(), '', 'a returned mapping has no data path to the values of `score_matrix` (only to its shape): the buffer of the mapping is never filled with the picks',
              construct=f'R-SEL::{q}::filled')
    greedy = [e for e in g.events if e.kind == 'store' and any(const_val(c.args[2]) is not NOVAL or True for c, p in e.guards if c.op == 'cmp' and p and
                                                                 any(const_val(x) == 'greedy' for x in walk_terms(c.args[2])))]
    if len(greedy) < 1:
        raise AnalysisError('_mapping_from_score_matrix: greedy branch stores not found')
    unravel = None
    retire_row = retire_col = assign = None
    for e in greedy:
        base, idx, val = e.term.args
        items = list(idx.args[0]) if idx.op == 'tuple' else [idx]
        kinds = []
        for it in items:
            it = strip_views(it)
            if it.op == 'unpack' and _is_unravel(strip_views(it.args[0])):
                kinds.append(('rc', it.args[1], strip_views(it.args[0])))
            elif is_call_to(it, 'builtin.slice') or it.op == 'slice':
                kinds.append(('all',))
            elif it.op == 'star':
                kinds.append(('f',))
            else:
                kinds.append(('?',))
        rc = [k for k in kinds if k[0] == 'rc']
        v = strip_views(val)
        if v.op == 'unpack' and _is_unravel(strip_views(v.args[0])):
            assign = (e, kinds, v.args[1])
            unravel = strip_views(v.args[0])
        elif len(rc) == 1 and kinds[-1][0] == 'all' and rc[0][1] == 0:
            retire_row = (e, val)
        elif len(rc) == 1 and kinds[-1][0] == 'rc' and rc[0][1] == 1 and kinds[-2][0] == 'all':
            retire_col = (e, val)
    ok_ret = retire_row is not None and retire_col is not None
    run.check(ok_ret, 'R-SEL', 'greedy assignment: chosen row AND column are retired', fn.loc(greedy[0].node), '',
              f'after a pick the {"row" if retire_row is None else "column"} of the chosen entry is not overwritten with the -inf surrogate: it can be picked again (non-bijective mapping)',
              construct=f'R-SEL::{q}::retire')
    if ok_ret:
        for nm, (e, val) in (('row', retire_row), ('column', retire_col)):
            alts = [strip_views(x) for x in unwrap_gamma(val)]
            okv = all((is_call_to(x, 'builtin.float') and const_val(call_arg(x, 0)) == '-inf') or (x.op == 'attr' and x.args[1] == 'min' and is_call_to(x.args[0], 'numpy.iinfo')) or
                      (const_val(x) is not NOVAL and const_val(x) == float('-inf')) for x in alts)
            run.check(okv, 'R-SEL', f'greedy assignment: {nm} retired with -inf (integer: iinfo.min)', fn.loc(e.node), '', 'retired entries are not set to the smallest representable score',
                      construct=f'R-SEL::{q}::retire-value-{nm}')
    if assign is not None and unravel is not None:
        e, kinds, comp = assign
        rc = [k for k in kinds if k[0] == 'rc']
        ok_as = len(rc) == 1 and rc[0][1] == 0 and comp == 1 and kinds[0][0] == 'rc'
        if not ok_as and len(rc) == 1 and rc[0][1] == 0 and comp == 1 and kinds[-1][0] == 'rc' and getattr(e, 'node', None) is not None and not (fn.node.lineno <= e.node.lineno <= fn.node.end_lineno):
            # campaign 13: a helper builds the mapping with the class axis LAST and its caller moves it to the front - the conversion is not followed
            run.unresolved('R-SEL', 'greedy assignment: mapping[row] = column', fn.loc(e.node),
                           'the pick is recorded as mapping[..., i] = j in a helper (class axis last); that the caller returns it class-first is not followed')
        else:
            run.check(ok_as, 'R-SEL', 'greedy assignment: mapping[row] = column', fn.loc(e.node), '', 'the pick (row i, column j) is not recorded as mapping[i] = j', construct=f'R-SEL::{q}::row-to-column')
        am = call_arg(unravel, 0)
        if is_call_to(am, 'builtin.int'):
            am = call_arg(am, 0)          # divmod(int(flat), K)
        ok_am = is_call_to(am, 'numpy.argmax') and const_val(call_arg(am, None, 'axis')) == -1
        run.check(ok_am, 'R-SEL', 'greedy assignment: picks the arg-MAX of the remaining scores', fn.loc(unravel.node), '', 'the pick is not np.argmax over the flattened remaining matrix',
                  construct=f'R-SEL::{q}::argmax')
        # flattened view of the very matrix that is retired
        flat_src = call_arg(am, 0)
        ok_view = False
        if flat_src is not None and flat_src.op == 'sub':
            fl = flat_src.args[0]
            if is_call_to(fl, 'method:reshape'):
                recv = call_arg(fl, 0)          # NOT stripped: a .copy() here would decouple the view
                ok_view = retire_row is not None and _view_root(retire_row[0].term.args[0]) is recv
                # `reshape(*F, K * K)` merges the last two axes without copying only for a C-contiguous matrix; for anything else (a `.T`
                # view, a slice, the einsum output of a caller) numpy silently returns a COPY and the retired entries never reach the
                # flattened array.  Hence on every path the reshaped matrix is a fresh C-ordered array.
                if ok_view:
                    alts = unwrap_gamma(recv)
                    def c_ordered(x):
                        # ndarray.copy() defaults to order='C'; np.copy / np.array default to order='K' (keep the layout of the source).
                        # (the raw callee name is needed here: is_call_to identifies the method with the function)
                        raw = call_parts(x)[0]
                        order = call_arg(x, 1 if raw in ('method:copy', 'numpy.copy') else None, 'order')
                        ov = const_val(order) if order is not None else NOVAL
                        if raw == 'method:copy':
                            return order is None or ov == 'C'
                        if raw in ('numpy.copy', 'numpy.array'):
                            return ov == 'C'
                        return raw == 'numpy.ascontiguousarray'
                    loose = [x for x in alts if not c_ordered(x)]
                    run.check(not loose, 'R-SEL', 'greedy assignment: the flattened matrix is a view (the reshaped matrix is C-contiguous on every path)', fn.loc(fl.node), '',
                              'on some path the matrix that is reshaped to (..., K*K) is not a fresh C-ordered array (e.g. the caller\'s array when a copy flag is off): '
                              'reshape of a non-contiguous array copies, so retired rows / columns are not seen by argmax and the same pair is picked K times',
                              construct=f'R-SEL::{q}::view-contiguous')
        run.check(ok_view, 'R-SEL', 'greedy assignment: arg-max sees the retired entries (flattened view of the same matrix)', fn.loc(unravel.node), '',
                  'the matrix searched by argmax is not a view of the matrix in which rows / columns are retired', construct=f'R-SEL::{q}::view')
    # K picks per matrix
    inner = [l for l in g.loops if l.kind == 'for' and l.iter is not None and is_call_to(l.iter, 'builtin.range')]
    ok_k = False
    for l in inner:
        a = strip_views(call_arg(l.iter, 0))
        if a.op == 'unpack' and a.args[0].op == 'attr' and a.args[0].args[1] == 'shape' and a.args[4] == 'K' and any(e.node.lineno >= l.node.lineno for e in greedy):
            ok_k = len(call_parts(l.iter)[1]) == 1
    run.check(ok_k, 'R-SEL', 'greedy assignment: exactly K picks per matrix', fn.loc(), '', 'the pick loop does not run range(K) times', construct=f'R-SEL::{q}::k-picks')
    # works on a copy of the score matrix
    ok_copy = retire_row is not None and any(is_call_to(x, 'method:copy', 'numpy.copy', 'numpy.array') for x in walk_terms(retire_row[0].term.args[0]))
    run.check(ok_copy, 'R-MUT', 'greedy assignment: scores are retired in a copy', fn.loc(), '', 'the caller\'s score matrix is overwritten', construct=f'R-MUT::{q}::copy')
    # ... a copy of the scores AS GIVEN: the greedy search takes the global arg-max of the whole matrix, which is not invariant to offsets per row / column or to rescaling
    # of single rows (the optimal assignment is) - a "reduced" or normalised matrix makes it pick other pairs
    if ok_copy:
        copies = [x for x in walk_terms(retire_row[0].term.args[0]) if is_call_to(x, 'method:copy', 'numpy.copy', 'numpy.array')]
        src = strip_views(call_parts(copies[-1])[1][0]) if copies and call_parts(copies[-1])[1] else None
        while src is not None and (is_call_to(src, 'numpy.asarray', 'numpy.ascontiguousarray', 'numpy.reshape') or src.op == 'refine'):
            src = strip_views(call_arg(src, 0)) if src.op != 'refine' else strip_views(src.args[0])
        if src is not None:
            given = src.op == 'param' and src.args[0] == 'score_matrix'
            arith = src.op in ('binop', 'iop') and any(x.op == 'param' and x.args[0] == 'score_matrix' for x in walk_terms(src, into_mu=False))
            if given or arith:
                run.check(given, 'R-SEL', 'greedy assignment: the scores searched are the scores given', fn.loc(getattr(src, 'node', None)), '',
                          f'the matrix the greedy search works on is `{norm_stmt(src.node)[:80]}`: the global arg-max is not invariant to such a transformation of the scores',
                          construct=f'R-SEL::{q}::scores-as-given')


# ------------------------------------------------------------------------------------------------ provenance of mappings
def is_identity_columns(t):
    """np.repeat(np.arange(K)[:, None], F, axis=1) / np.arange(K)[:, None]"""
    t = strip_views(t)
    if is_call_to(t, 'numpy.repeat'):
        return is_identity_columns(call_arg(t, 0)) and const_val(call_arg(t, None, 'axis')) in (1, -1)
    if is_call_to(t, 'numpy.tile'):
        # np.tile(arange(K)[:, None], (1, F)): repeated along the second axis only
        reps = const_val(call_arg(t, 1, 'reps'))
        r = strip_views(call_arg(t, 1, 'reps'))
        along_second = (r.op in ('tuple', 'list') and len(r.args[0]) == 2 and const_val(r.args[0][0]) == 1)
        return is_identity_columns(call_arg(t, 0)) and along_second
    if is_call_to(t, 'numpy.broadcast_to'):
        # np.broadcast_to(arange(K)[:, None], (K, F)): the column repeated along the second axis
        shp = strip_views(call_arg(t, 1, 'shape'))
        return is_identity_columns(call_arg(t, 0)) and shp.op in ('tuple', 'list') and len(shp.args[0]) == 2
    if is_call_to(t, 'numpy.reshape'):
        # np.arange(K).reshape(K, 1) / .reshape(-1, 1): the column written as a reshape of the 1-D range
        x0 = strip_views(call_arg(t, 0))
        shp = list(call_parts(t)[1][1:])
        if len(shp) == 1 and strip_views(shp[0]).op in ('tuple', 'list'):
            shp = list(strip_views(shp[0]).args[0])
        if is_call_to(x0, 'numpy.arange') and len(call_parts(x0)[1]) == 1 and len(shp) == 2 and const_val(strip_views(shp[1])) == 1:
            first = strip_views(shp[0])
            return const_val(first) == -1 or first is strip_views(call_parts(x0)[1][0])
        return False
    if t.op == 'sub':
        ins = newaxis_insertions(t)
        if ins is not None and ins[1] in ([1], [-1]):
            return is_call_to(strip_views(ins[0]), 'numpy.arange') and len(call_parts(strip_views(ins[0]))[1]) >= 1 and \
                len([x for x in call_parts(strip_views(ins[0]))[1]]) == 1
        return False
    return False


def check_apply_mapping(run, A):
    q = P + 'apply_mapping'
    fn = A.prog.func(q)
    g = A.graphs.get(fn)
    rets = [strip_views(r) for r in ret_alts(g)]
    ok = len(rets) == 1 and rets[0].op == 'sub' and strip_views(rets[0].args[0]).op == 'param' and strip_views(rets[0].args[0]).args[0] == 'mask'
    if ok:
        idx = rets[0].args[1]
        items = idx.args[0] if idx.op == 'tuple' else ()
        cols = strip_views(items[1]) if len(items) == 2 else None
        ins_ = newaxis_insertions(cols) if cols is not None else None
        if ins_ is not None and ins_[1] == [0]:
            cols = strip_views(ins_[0])         # arange(F)[None, :] broadcasts exactly like arange(F) against the (K, F) mapping
        ok = len(items) == 2 and strip_views(items[0]).op == 'param' and strip_views(items[0]).args[0] == 'mapping' and is_call_to(cols, 'builtin.range', 'numpy.arange') \
            and len(call_parts(cols)[1]) == 1 and not call_parts(cols)[2]
        if ok:
            d = shape_dim(call_arg(cols, 0))
            # all frequencies: the length of the second (= last) axis of the (K, F) mapping
            ok = d is not None and d[0].op == 'param' and d[0].args[0] == 'mapping' and d[1] in (1, -1)
    if not ok and len(rets) == 1 and is_call_to(rets[0], 'numpy.take_along_axis'):
        # np.take_along_axis(mask, mapping[..., None ...], axis=0): out[k, f, ...] = mask[mapping[k, f], f, ...] - the same gather along the class axis
        r0 = rets[0]
        src, ind, ax = strip_views(call_arg(r0, 0, 'arr')), strip_views(call_arg(r0, 1, 'indices')), const_val(call_arg(r0, 2, 'axis'))
        base_ = ind
        if is_call_to(ind, 'numpy.expand_dims'):
            base_ = strip_views(call_arg(ind, 0))
        elif newaxis_insertions(ind) is not None:
            base_ = strip_views(newaxis_insertions(ind)[0])
        ok = src.op == 'param' and src.args[0] == 'mask' and ax == 0 and base_.op == 'param' and base_.args[0] == 'mapping' and base_ is not ind
        if not ok and src.op == 'param' and src.args[0] == 'mask' and ax == 0 and is_call_to(ind, 'numpy.reshape') and strip_views(call_arg(ind, 0)).op == 'param' \
                and strip_views(call_arg(ind, 0)).args[0] == 'mapping':
            # the mapping reshaped to trailing unit axes with a shape that is computed ((K, F) + (1,) * (mask.ndim - 2)): the same gather if the shape is what it seems - not decided
            run.unresolved('R-PERM', 'apply_mapping: pure gather mask[mapping, range(F)]', fn.loc(), 'take_along_axis(mask, mapping.reshape(<computed shape>), axis=0): the index layout is not folded')
            return
    def _sub_root(x):
        x = strip_views(x)
        while x.op == 'sub':
            x = strip_views(x.args[0])
        return x
    recognised_form = len(rets) == 1 and ((rets[0].op == 'sub' and _sub_root(rets[0]).op == 'param') or is_call_to(rets[0], 'numpy.take_along_axis', 'numpy.take'))
    if not ok and not recognised_form:
        run.unresolved('R-PERM', 'apply_mapping: pure gather mask[mapping, range(F)]', fn.loc(), 'the returned value is neither an index expression on the mask nor a take_along_axis of it')
    else:
      run.check(ok, 'R-PERM', 'apply_mapping: pure gather mask[mapping, range(F)]', fn.loc(), '', 'apply_mapping is not the advanced-indexing gather of the mask rows by the mapping per frequency',
              construct=f'R-PERM::{q}::gather')
    n_eff = [e for e in g.events if e.kind in ('inplace', 'store')]
    run.check(not n_eff, 'R-PERM', 'apply_mapping: no value is modified', fn.loc(), '', 'apply_mapping modifies values in place', construct=f'R-PERM::{q}::pure')
    # the method and __call__
    m = A.prog.func(P + '_PermutationAlignment.apply_mapping')
    gm = A.graphs.get(m)
    r = strip_views(gm.ret)
    okm = call_parts(r)[0] == q and all(strip_views(a).op == 'param' for a in call_parts(r)[1])
    run.check(okm, 'R-PERM', '_PermutationAlignment.apply_mapping delegates unchanged', m.loc(), '', 'the method does not forward (mask, mapping) to apply_mapping', construct=f'R-PERM::{m.qual}::delegate')
    c = A.prog.func(P + '_PermutationAlignment.__call__')
    gc = A.graphs.get(c)
    r = strip_views(gc.ret)
    n_, pos, kw = call_parts(r)
    okc = n_ == 'method:apply_mapping' and len(pos) == 3 and strip_views(pos[1]).op == 'param' and strip_views(pos[1]).args[0] == 'mask' \
        and call_parts(strip_views(pos[2]))[0] == 'method:calculate_mapping'
    run.check(okc, 'R-PERM', '_PermutationAlignment.__call__ = apply_mapping(mask, calculate_mapping(mask))', c.loc(), '', '__call__ does not apply the computed mapping to the same mask',
              construct=f'R-PERM::{c.qual}::compose')


def check_inline_em_alignment(run, A):
    q = MMU + 'apply_inline_permutation_alignment'
    fn = A.prog.func(q)
    g = A.graphs.get(fn)
    calls = [e.term for e in g.events if e.kind == 'call' and call_parts(e.term)[0] == 'method:apply_mapping']
    maps = [e.term for e in g.events if e.kind == 'call' and call_parts(e.term)[0] == 'method:calculate_mapping']
    if len(calls) < 1 or len(maps) < 1:
        raise AnalysisError('apply_inline_permutation_alignment: apply_mapping / calculate_mapping calls not found')
    same = len(maps) == 1 and all(strip_views(call_arg(c, 2)) is maps[0] for c in calls)
    run.check(same, 'R-PERM', 'inline EM alignment: one mapping reaches affiliation and quadratic form', fn.loc(calls[0].node), '',
              'affiliation and quadratic form are permuted with different mappings', construct=f'R-PERM::{q}::same-mapping')

    def value_preserving(t, pname, depth=0):
        """t is pname passed only through transposes and apply_mapping: returns (layout, number of gathers by the mapping) with layout 'FKT' (the
        caller's) or 'KFT' (the aligner's), 'none' for the None alternative of an optional stream, or None when something else touches the values"""
        t = strip_views(t)
        if t.op == 'param':
            return ('FKT', 0) if t.args[0] == pname else None
        if t.op == 'const':
            return 'none' if t.args[0] is None else None
        if t.op == 'gamma':
            alts = [value_preserving(x, pname, depth + 1) for x in (t.args[1], t.args[2])]
            if any(a is None for a in alts):
                return None
            c, is_none = none_test(t.args[0])
            if c is not None and c.op == 'param' and c.args[0] == pname:
                # `x if x is None else aligned(x)`: the alternative taken for None carries no values
                alts[0 if is_none else 1] = 'none'
            real = {a for a in alts if a != 'none'}
            if len(real) > 1:
                return None
            return real.pop() if real else 'none'
        sw = swaps_first_two_of_three(t)
        if sw is not None:
            st = value_preserving(sw, pname, depth + 1)
            if st in (None, 'none'):
                return st
            return ('KFT' if st[0] == 'FKT' else 'FKT', st[1])
        if call_parts(t)[0] == 'method:apply_mapping':
            st = value_preserving(call_arg(t, 1), pname, depth + 1)
            if st in (None, 'none'):
                return st
            # apply_mapping permutes axis 0 per index of axis 1: defined on the aligner's (K, F, T) layout
            return ('KFT', st[1] + 1) if st[0] == 'KFT' else None
        if t.op == 'sub' and _gather_by_mapping(t.args[1]):
            # x[arange(F)[:, None], mapping.T] on the (F, K, T) layout: out[f, k] = x[f, mapping[k, f]], the same gather as apply_mapping
            st = value_preserving(t.args[0], pname, depth + 1)
            if st in (None, 'none'):
                return st
            return ('FKT', st[1] + 1) if st[0] == 'FKT' else None
        if is_call_to(t, 'numpy.transpose', 'numpy.moveaxis', 'numpy.swapaxes', 'numpy.rollaxis', 'method:transpose', 'method:swapaxes', 'numpy.permute_dims') and depth < 12:
            # a pure reordering whose axis order is not one of the forms read above (built at run time, ...): the values are untouched, the layout is not known
            opnd = call_arg(t, 0) if not call_parts(t)[0].startswith('method:') else strip_views(t.args[0]).args[0]
            if opnd is not None and (value_preserving(opnd, pname, depth + 1) is not None or unfollowed):
                unfollowed.append(t)
        return None

    unfollowed = []

    def _gather_by_mapping(idx):
        idx = strip_views(idx)
        if idx.op != 'tuple' or len(idx.args[0]) != 2:
            return False
        a, b = strip_views(idx.args[0][0]), strip_views(idx.args[0][1])
        ins = newaxis_insertions(a)
        ok_a = ins is not None and ins[1] in ([1], [-1]) and is_call_to(strip_views(ins[0]), 'numpy.arange')
        ok_b = (b.op == 'attr' and b.args[1] == 'T' and strip_views(b.args[0]) is maps[0]) or \
            (is_call_to(b, 'numpy.transpose', 'numpy.swapaxes') and strip_views(call_arg(b, 0)) is maps[0])
        return ok_a and ok_b
    # a store INDEXED by the mapping is a scatter: out[f, mapping[k, f]] = x[f, k] applies the inverse permutation
    for e in g.events:
        if e.kind == 'store' and any(x is maps[0] for x in walk_terms(e.term.args[1])):
            run.violation('R-PERM', 'inline EM alignment: the mapping is used as a gather index only', fn.loc(e.node),
                          'a value is stored AT the positions given by the mapping (scatter): that applies the inverse of the permutation the aligner computed, '
                          'which differs from the gather applied to the posterior whenever a per-frequency permutation is not its own inverse (K >= 3)',
                          construct=f'R-PERM::{q}::scatter-by-mapping')
    rets = ret_alts(g)
    ok_a = ok_q = True
    why = []

    def aligned_once(t, pname, optional=False):
        st = value_preserving(t, pname)
        if st == ('FKT', 1) or (optional and st == 'none'):
            return True
        why.append(f'{pname}: ' + ('something else than transpose / apply_mapping touches the values' if st is None else
                                  f'returned in layout {st[0]} after {st[1]} gather(s) by the mapping' if st != 'none' else 'not returned'))
        return False
    for r in rets:
        r = strip_views(r)
        if r.op == 'tuple':
            ok_a = aligned_once(r.args[0][0], 'affiliation') and ok_a
            ok_q = aligned_once(r.args[0][1], 'quadratic_form', optional=True) and ok_q
        else:
            ok_a = aligned_once(r, 'affiliation') and ok_a
    if unfollowed and not (ok_a and ok_q):
        run.unresolved('R-PERM', 'inline EM alignment: every returned stream is its input, permuted exactly once by the mapping on the (K, F, T) layout and returned in the '
                       "caller's (F, K, T) layout", fn.loc(getattr(unfollowed[0], 'node', None)),
                       f'`{norm_stmt(unfollowed[0].node)[:90]}` reorders the axes in an order that is computed, not written: the layout cannot be followed')
    else:
        run.check(ok_a and ok_q, 'R-PERM', 'inline EM alignment: every returned stream is its input, permuted exactly once by the mapping on the (K, F, T) layout and returned in the '
                  "caller's (F, K, T) layout", fn.loc(), '', '; '.join(why), construct=f'R-PERM::{q}::value-preserving')
    # the mapping is computed from the (K, F, T)-transposed affiliation
    ok_in = swaps_first_two_of_three(call_arg(maps[0], 1)) is not None
    run.check(ok_in, 'R-PERM', 'inline EM alignment: aligner sees (K, F, T)', fn.loc(maps[0].node), '', 'calculate_mapping is not called on the (1, 0, 2)-transposed affiliation', construct=f'R-PERM::{q}::layout')


def check_calculate_mappings(run, A):
    # ---- DHTV
    q = P + 'DHTVPermutationAlignment.calculate_mapping'
    fn = A.prog.func(q)
    g = A.graphs.get(fn)
    rets = ret_alts(g)
    mu = [strip_views(r) for r in rets]
    ok_ret = len(mu) == 1 and mu[0].op == 'mu'
    init_ok = False
    if ok_ret:
        root = mu[0]
        while root.op == 'mu':
            root = strip_views(root.args[0])
        init_ok = is_identity_columns(root)
    run.check(ok_ret and init_ok, 'R-PERM', 'DHTV: mapping starts as the identity in every bin', fn.loc(), '', 'the returned mapping is not initialised with repeat(arange(K)[:, None], F, axis=1)',
              construct=f'R-PERM::{q}::identity-start')
    stores = [e for e in g.events if e.kind == 'store']
    map_st = [e for e in stores if _root_is(e.term.args[0], is_identity_columns)]
    feat_st = [e for e in stores if e not in map_st]
    okm = len(map_st) == 1
    why = ''
    if okm:
        e = map_st[0]
        base, idx, val = e.term.args
        v = strip_views(val)
        ok_self = v.op == 'sub' and strip_views(v.args[0]) is strip_views(base)
        items_w = idx.args[0] if idx.op == 'tuple' else ()
        items_r = v.args[1].args[0] if (v.op == 'sub' and v.args[1].op == 'tuple') else ()
        okm = ok_self and len(items_w) == 2 and len(items_r) == 2 and strip_views(items_w[1]) is strip_views(items_r[1]) and strip_views(items_w[0]).op == 'slice'
        perm = strip_views(items_r[0]) if items_r else None
        ok_src = perm is not None and call_parts(perm)[0] == 'method:_align_segment'
        okm = okm and ok_src
        why = f'self-gather mapping[:, f] = mapping[p, f]: {ok_self}; p from _align_segment: {ok_src}'
        # paired update of the features with the same index vector, bin and guard
        okp = False
        for fe in feat_st:
            fb, fi, fv = fe.term.args
            fv = strip_views(fv)
            fw = fi.args[0] if fi.op == 'tuple' else ()
            fr = fv.args[1].args[0] if (fv.op == 'sub' and fv.args[1].op == 'tuple') else ()
            if fv.op == 'sub' and strip_views(fv.args[0]) is strip_views(fb) and len(fw) == 3 and len(fr) == 3:
                okp = strip_views(fr[0]) is perm and strip_views(fr[1]) is strip_views(items_r[1]) and strip_views(fw[1]) is strip_views(items_w[1]) \
                    and [(id(c), p) for c, p in fe.guards] == [(id(c), p) for c, p in e.guards]
        run.check(okp, 'R-PERM', 'DHTV: features and mapping are permuted together (same index vector, same bin, same guard)', fn.loc(e.node), '',
                  'the permutation applied to the features of a bin is not applied identically to the mapping of that bin', construct=f'R-PERM::{q}::paired-update')
    run.check(okm, 'R-PERM', 'DHTV: mapping only self-gathered by a per-bin assignment', fn.loc(), '', why or 'mapping is written by something else than mapping[:, f] = mapping[p, f]',
              construct=f'R-PERM::{q}::self-gather')
    # _align_segment returns an assignment of the score matrix
    qa = P + 'DHTVPermutationAlignment._align_segment'
    ga = A.graphs.get(A.prog.func(qa))
    r = strip_views(ga.ret)
    run.check(call_parts(r)[0] == P + '_mapping_from_score_matrix', 'R-PERM', 'DHTV._align_segment returns an assignment of the score matrix', A.prog.func(qa).loc(), '',
              '_align_segment does not return _mapping_from_score_matrix(...)', construct=f'R-PERM::{qa}::assignment')
    # ---- greedy
    q = P + 'GreedyPermutationAlignment.calculate_mapping'
    fn = A.prog.func(q)
    g = A.graphs.get(fn)
    rets = [strip_views(r) for r in ret_alts(g)]
    ok = len(rets) == 1 and rets[0].op == 'mu'
    ok_app = ok_chain = False
    if ok:
        root = strip_views(rets[0].args[0])
        if is_call_to(root, 'numpy.concatenate'):          # (np.append(a, b, axis) is built as this form)
            seq = strip_views(call_arg(root, 0, 'arrays'))
            parts = list(seq.args[0]) if seq.op in ('tuple', 'list') else []
            if len(parts) == 2:
                first, second = parts
                ok_app = is_identity_columns(first) and call_parts(strip_views(second))[0] == P + '_mapping_from_score_matrix' and const_val(call_arg(root, None, 'axis')) in (-1, 1)
        st = [e for e in g.events if e.kind == 'store']
        pre = [e for e in st if not e.loops]
        root0 = root
        while isinstance(root0, T) and root0.op == 'store':
            root0 = strip_views(root0.args[0])
        if not ok_app and is_call_to(root0, 'numpy.empty', 'numpy.zeros', 'numpy.empty_like', 'numpy.zeros_like') and len(pre) == 2:
            # mapping = np.empty((K, F)); mapping[:, 0] = arange(K); mapping[:, 1:] = <adjacent-bin assignments>: the identity column prepended by two stores
            def col_index(e_):
                ix = e_.term.args[1]
                its = list(ix.args[0]) if ix.op == 'tuple' else []
                return its if len(its) == 2 and its[0].op == 'slice' and all(const_val(y) is None for y in its[0].args) else None
            first = [e_ for e_ in pre if col_index(e_) is not None and const_val(col_index(e_)[1]) == 0 and is_call_to(strip_views(e_.term.args[2]), 'numpy.arange')]
            tail_ = [e_ for e_ in pre if col_index(e_) is not None and col_index(e_)[1].op == 'slice' and const_val(col_index(e_)[1].args[0]) == 1
                     and const_val(col_index(e_)[1].args[1]) is None and const_val(col_index(e_)[1].args[2]) is None
                     and call_parts(strip_views(e_.term.args[2]))[0] == P + '_mapping_from_score_matrix']
            if len(first) == 1 and len(tail_) == 1:
                ok_app = True
                st = [e for e in st if e.loops]
        if len(st) == 1:
            base, idx, val = st[0].term.args
            v = strip_views(val)
            iw = idx.args[0] if idx.op == 'tuple' else ()
            if v.op == 'sub' and strip_views(v.args[0]) is strip_views(base) and v.args[1].op == 'tuple' and len(iw) == 2:
                inner, fcol = v.args[1].args[0]
                inner = strip_views(inner)
                f = strip_views(iw[1])
                ok_chain = strip_views(fcol) is f and inner.op == 'sub' and strip_views(inner.args[0]) is strip_views(base) and inner.args[1].op == 'tuple' \
                    and strip_views(inner.args[1].args[0][1]).op == 'binop' and strip_views(inner.args[1].args[0][1]).args[0] == 'Sub' \
                    and strip_views(inner.args[1].args[0][1]).args[1] is f and const_val(strip_views(inner.args[1].args[0][1]).args[2]) == 1
                if not ok_chain and strip_views(fcol) is f and inner.op == 'mu' and inner.next is not None and strip_views(inner.next) is v:
                    # the composed predecessor column is carried in a variable instead of being read back: previous = mapping[previous, f]; mapping[:, f] = previous,
                    # started with column 0 of the same mapping
                    init = strip_views(inner.args[0])
                    ok_chain = init.op == 'sub' and init.args[1].op == 'tuple' and len(init.args[1].args[0]) == 2 and const_val(strip_views(init.args[1].args[0][1])) == 0 \
                        and strip_views(init.args[1].args[0][0]).op == 'slice' and _chain_root(strip_views(init.args[0])) is _chain_root(strip_views(base))
                L = f.extra if f.op == 'elem' else None
                if ok_chain and L is not None:
                    rng = L.iter
                    ok_chain = is_call_to(rng, 'builtin.range') and const_val(call_arg(rng, 0)) == 1 and len(call_parts(rng)[1]) == 2
    if True:
        run.check(ok and ok_app, 'R-PERM', 'Greedy aligner: identity column prepended to the adjacent-bin assignments', fn.loc(), '',
                  'mapping is not np.append(arange(K)[:, None], _mapping_from_score_matrix(...), axis=-1)', construct=f'R-PERM::{q}::append-identity')
        run.check(ok_chain, 'R-PERM', 'Greedy aligner: mapping[:, f] = mapping[mapping[:, f-1], f] for f = 1..F-1 (composition with the composed predecessor)', fn.loc(), '',
                  'the recursive composition of adjacent-bin assignments is broken (not composed with column f-1 of the running mapping, or not in increasing f from 1)',
                  construct=f'R-PERM::{q}::composition')
    # ---- oracle
    q = P + 'OraclePermutationAlignment.calculate_mapping'
    fn = A.prog.func(q)
    g = A.graphs.get(fn)
    r = [strip_views(x) for x in ret_alts(g)]
    ok = len(r) == 1 and call_parts(r[0])[0] == P + '_mapping_from_score_matrix'
    run.check(ok, 'R-PERM', 'Oracle aligner returns an assignment of the score matrix', fn.loc(), '', 'calculate_mapping does not return _mapping_from_score_matrix(...)', construct=f'R-PERM::{q}::assignment')


def _chain_root(t):
    """peel loop-carried values and stores (no copy stripping): the array object the chain started from"""
    while isinstance(t, T) and t.op in ('mu', 'store', 'refine'):
        t = t.args[0]
    return t


def _view_root(t):
    """like _chain_root, and through basic-index views (x[f] with f a loop index is a view of x): the array object that a store finally writes to"""
    for _ in range(20):
        t = _chain_root(t)
        if isinstance(t, T) and t.op == 'sub':
            idx = t.args[1]
            items = list(idx.args[0]) if idx.op == 'tuple' else [idx]
            basic = all(strip_views(x).op in ('elem', 'slice', 'star', 'unpack') or const_val(strip_views(x)) is Ellipsis or isinstance(const_val(strip_views(x)), int) for x in items)
            if basic:
                t = t.args[0]
                continue
        return t
    return t


def _root_is(t, pred):
    t = strip_views(t)
    while t.op in ('mu', 'store'):
        t = strip_views(t.args[0])
    return pred(t)


def check_optimal_and_inline_pa(run, A):
    check_exhaustive(run, A, P + '_mapping_from_score_matrix', 'optimal assignment', {('score_matrix', -2), ('score_matrix', -1)})
    q = P + '_mapping_from_score_matrix'
    fn = A.prog.func(q)
    g = A.graphs.get(fn)
    # the winner is what is stored: mapping[(slice(None), *f)] = best_permutation
    reps = [r for r in sel.exhaustive_searches(g) if sel.enumeration_domain(r['iter'])[0] is not None]
    arg_mu = reps[0]['arg_mu'] if reps else None
    st = [e for e in g.events if e.kind == 'store' and arg_mu is not None and strip_views(e.term.args[2]) is arg_mu]
    run.check(bool(st), 'R-SEL', 'optimal assignment: the best permutation is what is stored', fn.loc(), '', 'the stored column is not the arg-max permutation', construct=f'R-SEL::{q}::store-best')
    if st:
        # ... and nothing else is: every store into that result array takes the arg-max of the exhaustive search (a shortcut that
        # writes e.g. the row-wise arg-max bypasses the search and need not be a permutation)
        root = _chain_root(st[0].term.args[0])
        others = [e for e in g.events if e.kind == 'store' and _chain_root(e.term.args[0]) is root and strip_views(e.term.args[2]) is not arg_mu]
        run.check(not others, 'R-SEL', 'optimal assignment: every stored column comes from the exhaustive search', fn.loc(others[0].node) if others else fn.loc(), '',
                  f'`{norm_stmt(others[0].node)[:90] if others else ""}` writes a column of the result that is not the arg-max of the search over all permutations',
                  construct=f'R-SEL::{q}::only-search-results')
    # objective: sum_k score[k, perm[k]]
    oko = False
    if reps:
        L = reps[0]['loop']
        _, dom, _ = sel.enumeration_domain(reps[0]['iter'])
        cand = strip_views(reps[0]['cand'])
        if is_call_to(cand, 'builtin.sum', 'numpy.sum') and len(call_parts(cand)[1]) == 1:
            src = strip_views(call_parts(cand)[1][0])
            if src.op == 'sub' and data_derives(src.args[0], 'score_matrix'):
                idx = strip_views(src.args[1])
                items = list(idx.args[0]) if idx.op == 'tuple' else []
                if len(items) >= 2:
                    rows, col = strip_views(items[-2]), strip_views(items[-1])
                    rows_ok = is_call_to(rows, 'builtin.range', 'numpy.arange') and len(call_parts(rows)[1]) == 1 and dom is not None \
                        and strip_views(call_parts(rows)[1][0]) is dom
                    oko = rows_ok and col.op == 'elem' and col.extra is L
    if not oko and reps and isinstance(reps[0].get('cand'), T) and strip_views(reps[0]['cand']).op == 'mu':
        run.unresolved('R-SEL', 'optimal assignment: objective sum_k score[k, perm[k]] (row k -> column perm[k])', fn.loc(), 'the objective is accumulated in an inner loop')
    else:
        run.check(oko, 'R-SEL', 'optimal assignment: objective sum_k score[k, perm[k]] (row k -> column perm[k])', fn.loc(), '', 'objective is not the sum over rows k of score[k, permutation[k]]',
                  construct=f'R-SEL::{q}::objective')
    check_inline_pa(run, A)


def check_inline_pa(run, A):
    """the inline spatial / spectral alignment of the integration models' E-step: exhaustive strict arg-max over all class permutations of the
    criterion evaluated on the very log-pdf that the returned posterior is built from, with the winning permutation"""
    q2 = MMU + 'log_pdf_to_affiliation_for_integration_models_with_inline_pa'
    check_exhaustive(run, A, q2, 'inline spatial/spectral alignment', {('spatial_log_pdf', -2)})
    fn2 = A.prog.func(q2)
    g2 = A.graphs.get(fn2)
    # the chosen permutation (and only it) permutes the spatial stream handed to the posterior
    calls = [e.term for e in g2.events if e.kind == 'call' and call_parts(e.term)[0] == MMU + 'log_pdf_to_affiliation']
    arg_mus = [r['arg_mu'] for r in sel.exhaustive_searches(g2) if r['arg_mu'] is not None and sel.enumeration_domain(r['iter'])[0] is not None]
    okp = False
    for c in calls:
        lp = strip_views(call_arg(c, 1))
        if lp.op == 'binop' and lp.args[0] == 'Add':
            a, b = strip_views(lp.args[1]), strip_views(lp.args[2])
            for sp, sc in ((a, b), (b, a)):
                if sp.op == 'sub' and data_derives(sp, 'spatial_log_pdf') and sc.op == 'sub' and data_derives(sc, 'spectral_log_pdf'):
                    base, items = index_chain(sp)
                    if base.op == 'param' and base.args[0] == 'spatial_log_pdf' and len(items) == 3 and isinstance(items[1], T):
                        mid = strip_views(items[1])
                        # exactly the loop-carried arg-max of the search (the loop variable itself is loop carried too: it holds the LAST candidate)
                        okp = bool(arg_mus) and (mid in arg_mus or all(isinstance(x, T) and strip_views(x) in arg_mus for x in unwrap_gamma(mid)))
    run.check(okp, 'R-SEL', 'inline spatial/spectral alignment: posterior uses the best permutation found', fn2.loc(), '', 'the spatial stream is not indexed by the arg-max permutation',
              construct=f'R-SEL::{q2}::use-best')
    # the criterion is evaluated on the very log-pdf that is finally used: candidate(perm) and final(best) are the same expression
    from ..walk import struct_eq_modulo
    cand = None
    for L in g2.loops:
        for e in L.body_events:
            if e.kind == 'call' and is_call_to(e.term, 'numpy.amax'):
                cand = (call_arg(e.term, 0), L)
    final = strip_views(call_arg(calls[0], 1)) if calls else None
    best_mus = [x for x in walk_terms(final) if x.op == 'mu' and x in arg_mus] if final is not None else []
    if cand is not None and final is not None and arg_mus and not best_mus:
        run.violation('R-SEL', 'inline spatial/spectral alignment: the searched criterion and the final posterior use the same permuted log-pdf', fn2.loc(), 
                      'the final log-pdf is not built with the arg-max permutation of the search at all', construct=f'R-SEL::{q2}::criterion-equals-use')
        return
    if cand is None or final is None or not best_mus:
        raise AnalysisError(f'{q2}: the search criterion (maximum of the candidate log-pdf inside the permutation loop) or the final log-pdf handed to '
                            f'log_pdf_to_affiliation is no longer recognised')
    cterm, L = cand
    loopvars = [x for x in walk_terms(cterm) if x.op == 'elem' and x.extra is L]
    same = any(struct_eq_modulo(strip_views(cterm), final, [(lv, m)]) for lv in loopvars for m in best_mus)
    if not same:
        # another spelling of the same log-pdf?  Which axis of which stream the permutation indexes is compared instead: np.take(spatial[f], p, axis=0) and
        # spatial[f, p, :] both put it on axis 1 of the spatial stream.  Equal signatures of a sum of the two streams: the same log-pdf; different ones: the deviation;
        # anything else: not decided
        def signature(term, markers):
            out, streams = set(), set()
            for x in walk_terms(term, into_mu=False):
                if x.op == 'sub':
                    base, items = index_chain(x)
                    if isinstance(base, T) and base.op == 'param' and base.args[0] in ('spatial_log_pdf', 'spectral_log_pdf'):
                        streams.add(base.args[0])
                        for k, it_ in enumerate(items):
                            if isinstance(it_, T) and any(strip_views(y) in markers for y in unwrap_gamma(strip_views(it_)) if isinstance(y, T)):
                                out.add((base.args[0], k))
            return out, streams
        def plain_sum(term):
            term = strip_views(term)
            return term.op == 'binop' and term.args[0] == 'Add' and all(strip_views(z).op == 'sub' for z in term.args[1:])
        sc, stc = signature(strip_views(cterm), loopvars)
        sf, stf = signature(final, best_mus)
        if plain_sum(cterm) and plain_sum(final) and sc and sf and stc == stf:
            if sc == sf:
                same = True
            # else: the permutation sits on another stream / axis - the deviation reported below
        else:
            run.unresolved('R-SEL', 'inline spatial/spectral alignment: the searched criterion and the final posterior use the same permuted log-pdf', fn2.loc(),
                           'the candidate log-pdf and the final log-pdf are written differently and are not both a plain sum of the two indexed streams')
            return
    run.check(same, 'R-SEL', 'inline spatial/spectral alignment: the searched criterion and the final posterior use the same permuted log-pdf', fn2.loc(), '',
              'the candidate log-pdf scored inside the search differs from the log-pdf built with the winning permutation (e.g. the other stream is permuted): '
              'the applied permutation is the inverse of the optimal one for K >= 3', construct=f'R-SEL::{q2}::criterion-equals-use')


def check_dhtv_copy(run, A):
    """the DHTV aligner reorders its working features in place: they must be a fresh array, otherwise the caller's mask -
    and, inside EM, the affiliation but not the quadratic form - is permuted a second time"""
    q = P + 'DHTVPermutationAlignment.calculate_mapping'
    fn = A.prog.func(q)
    g = A.graphs.get(fn)
    feats = [e for e in g.events if e.kind == 'store' and not _root_is(e.term.args[0], is_identity_columns)]
    if not feats:
        return      # nothing is reordered in place (the paired-update rule reports the missing feature update)
    root = _chain_root(feats[0].term.args[0])
    alts = list(unwrap_gamma(root))
    def fresh(x):
        return (is_call_to(x, 'method:copy', 'numpy.copy') or call_parts(x)[0] == P + '_parameterized_vector_norm' or
                (is_call_to(x, 'numpy.array') and const_val(call_arg(x, None, 'copy')) in (NOVAL, True)))

    def own_helper(x):
        # campaign 13: the preparation moved into a method / function of the package - what it returns is not followed here
        name = call_parts(x)[0] if isinstance(x, T) and x.op == 'call' else None
        return isinstance(name, str) and not fresh(x) and (name.startswith(P) or name.startswith('self.') or name.startswith('method:_'))
    ok = bool(alts) and all(fresh(x) for x in alts)
    if not ok and alts and all(fresh(x) or own_helper(x) for x in alts):
        run.unresolved('R-PERM', 'DHTV: the features that are reordered in place are a fresh copy of the mask', fn.loc(),
                       'the working features are the result of a helper of the package whose return paths are not followed')
        return
    run.check(ok, 'R-PERM', 'DHTV: the features that are reordered in place are a fresh copy of the mask', fn.loc(), '',
              'the working features may be the caller\'s mask itself (e.g. np.asarray(mask, dtype=...) returns the argument when the dtype matches): the mask is reordered in place and '
              'apply_mapping then permutes it a second time', construct=f'R-PERM::{q}::features-copy')


def check(run):
    A = run.A
    from ..opt import check_optional_truthiness, check_params_reach, check_forwarding, check_stale_loop_variables, check_argument_names, check_none_use
    check_none_use(run, A, ('pb_bss.permutation_alignment',))
    check_argument_names(run, A, ('pb_bss.permutation_alignment',))
    check_stale_loop_variables(run, A, ('pb_bss.permutation_alignment',))
    from ..opt import check_extent_loops
    check_extent_loops(run, A, ('pb_bss.permutation_alignment',))
    from ..opt import check_block_partitions
    check_block_partitions(run, A, ('pb_bss.permutation_alignment',))
    from ..opt import check_layout_dependent_flatten
    check_layout_dependent_flatten(run, A, ('pb_bss.permutation_alignment',))
    from ..opt import check_result_buffers
    check_result_buffers(run, A, ('pb_bss.permutation_alignment',))
    check_forwarding(run, A, ('pb_bss.permutation_alignment',))
    check_params_reach(run, A, ('pb_bss.permutation_alignment',))
    check_optional_truthiness(run, A, ('pb_bss.permutation_alignment',))
    run.explanation = (
        'Bijectivity and purity of permutation alignment decided structurally: apply_mapping is a pure gather; the inline EM alignment is value preserving with one mapping for '
        'affiliation and quadratic form; calculate_mapping of DHTV / greedy / oracle aligners returns columns with permutation provenance (identity start, self-gather by an '
        'assignment, composition chain, appended identity column); the greedy assignment satisfies the retire premises (K arg-max picks, chosen row and column retired with -inf in a '
        'view-consistent copy, row -> column, after the finiteness guard) and both exhaustive searches enumerate all permutations of the full class count with a strict arg-max from -inf. '
        'Assumption: integer score matrices never contain iinfo.min.')
    run.trusted = ['itertools.permutations(range(K)) enumerates all K! permutations', 'numpy advanced indexing x[idx, range(F)] gathers rows per column']
    run.assumptions = ['integer score matrices do not contain iinfo(dtype).min']
    check_apply_mapping(run, A)
    check_inline_em_alignment(run, A)
    check_calculate_mappings(run, A)
    check_dhtv_copy(run, A)
    check_greedy(run, A)
    check_optimal_and_inline_pa(run, A)
