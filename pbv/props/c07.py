"""C07 - log_pdf is the logarithm of the named, normalised density (structural parts).

  R-LIN  signed-term form of every log_pdf / log-normaliser: which atoms, which sign, which symbolic
         factor (D, kappa, 1/2).
  R-EIN  contraction structure of the quadratic / inner-product forms: conjugation, which index of the
         precision Cholesky factor is contracted (scikit-learn: Sigma^-1 = P P^T, so the whitened vector
         is P^T (y - mu)), reciprocal eigenvalues in the cACG quadratic form.
  R-DEP  log-normalisers are computed from the stored concentration / eigenvalues and the feature
         dimension of the stored mode.
An atom that is no longer recognised is reported as unresolved (fail-closed through the floor), a
recognised atom with the wrong sign / factor / index is a violation.
"""
from ..model import AnalysisError
from ..terms import T, walk_terms
from ..walk import call_parts, call_arg, is_call_to, const_val, NOVAL, strip_views, is_conj, same_value, unwrap_gamma, norm_stmt, data_derives
from ..lin import linearise, peel, product_factors
from .. import ein

D = 'pb_bss.distribution.'


def self_field(t, name=None):
    t = peel(t)
    if isinstance(t, T) and t.op == 'attr' and t.args[0].op == 'param' and t.args[0].args[0] == 'self':
        return t.args[1] if name is None else t.args[1] == name
    return None if name is None else False


def is_feature_dim(t, field):
    """t == self.<field>.shape[-1]"""
    t = peel(t)
    if isinstance(t, T) and t.op == 'sub' and const_val(t.args[1]) == -1:
        b = t.args[0]
        return b.op == 'attr' and b.args[1] == 'shape' and self_field(b.args[0], field)
    return False


def is_log_const(t, value_pred):
    t = peel(t)
    return is_call_to(t, 'numpy.log') and value_pred(call_arg(t, 0))


def is_two_pi(t):
    t = peel(t)
    c, fs = product_factors(t)
    return abs(c - 2.0) < 1e-12 and len(fs) == 1 and fs[0].op == 'ref' and getattr(fs[0].args[0], 'dotted', '') in ('numpy.pi', 'math.pi')


def is_pi(t):
    t = peel(t)
    return isinstance(t, T) and t.op == 'ref' and getattr(t.args[0], 'dotted', '') in ('numpy.pi', 'math.pi')


def find(alt, pred):
    out = []
    for p in alt:
        hits = [f for f in p.factors if pred(f)]
        if hits:
            out.append((p, hits[0]))
    return out


class Checker:
    def __init__(self, run, A):
        self.run, self.A = run, A
        self.resolved = 0
        self.matched = {}      # id(alt) -> set of matched Prod ids
        self.missing = {}      # id(alt) -> [(q, label, rule)]
        self._keep = []        # every linearised alternative stays alive: `matched` / `missing` are keyed by id() and a freed list's id is reused

    def graph(self, q):
        return self.A.graphs.get(self.A.prog.func(q))

    def alts(self, q, component=None):
        g = self.graph(q)
        ret = g.ret
        if component is not None and ret.op == 'tuple':
            ret = ret.args[0][component]
        alts = linearise(ret)
        self._keep.append(alts)
        return g, alts

    def term(self, q, alt, label, pred, want_sign, want_factors=(), exact_coef=None, rule='R-LIN'):
        """find the atom and check its sign / coefficient / symbolic factors"""
        fn = self.A.prog.func(q)
        short = q.split('::')[1]
        self._keep.append(alt)
        hits = find(alt, pred)
        if not hits:
            # decided by close(): a vanished term is a violation when everything that is left has been recognised
            self.missing.setdefault(id(alt), []).append((q, label, rule, alt, pred))
            return None
        self.resolved += 1
        p, atom = hits[0]
        self.matched.setdefault(id(alt), set()).update(id(h[0]) for h in hits)
        others = [f for f in p.factors if f is not atom]
        ok_sign = (p.coef > 0) == (want_sign > 0)
        ok_coef = exact_coef is None or abs(abs(p.coef) - exact_coef) < 1e-12
        missing = []
        for name, fp in want_factors:
            if not any(fp(f) for f in others):
                missing.append(name)
        extra = [f for f in others if not any(fp(f) for _, fp in want_factors)]
        extra = [f for f in extra if not (const_val(peel(f)) is not NOVAL)]
        ok = ok_sign and ok_coef and not missing and not extra
        self.run.check(ok, rule, f'{short}: {label}', fn.loc(getattr(atom, 'node', None)),
                       f'coefficient {p.coef:+g}, factors {[n for n, _ in want_factors]}',
                       f'term `{label}` has coefficient {p.coef:+g} (expected sign {"+" if want_sign > 0 else "-"}'
                       f'{"" if exact_coef is None else ", magnitude " + str(exact_coef)}), missing factors {missing}, unexpected factors {[repr(e)[:40] for e in extra]}',
                       construct=f'{rule}::{q}::{label}')
        return p, atom


def close_terms(ck):
    """expected atoms that were not found: if every remaining product of that return expression was recognised as some
    other expected atom, the term was dropped (violation); if unrecognised products remain, the code may have been
    reformulated (unresolved)"""
    for aid, items in ck.missing.items():
        for q, label, rule, alt, pred in items:
            fn = ck.A.prog.func(q)
            short = q.split('::')[1]
            left = [p for p in alt if id(p) not in ck.matched.get(aid, set())]
            buried = None
            for p in left:
                for f in p.factors:
                    for x in walk_terms(f, into_mu=False):
                        try:
                            if x is not f and pred(x):
                                buried = (p, x)
                        except Exception:
                            pass
            if buried is not None:
                # the expected atom is there, but not as a factor of its summand: divided by it, or wrapped into another function
                ck.run.violation(rule, f'{short}: {label}', fn.loc(getattr(buried[1], 'node', None)),
                                 f'the term `{label}` does not enter the density as a factor of a summand: `{norm_stmt(buried[1].node)[:60]}` occurs inside '
                                 f'another operation (a quotient / a function of it)', construct=f'{rule}::{q}::{label}::role')
                continue
            if not left:
                ck.run.violation(rule, f'{short}: {label}', fn.loc(), f'the term `{label}` is missing from the density: the expression consists only of '
                                 f'{len(alt)} other recognised term(s)', construct=f'{rule}::{q}::{label}::missing')
            else:
                ck.run.unresolved(rule, f'{short}: {label}', fn.loc(), f'atom not recognised; {len(left)} unrecognised product(s) remain in the expression')
    ck.missing = {}


def quad_sum_of_squares(t):
    """einsum('...nd,...nd->...n', w, w) with the same operand twice"""
    t = peel(t)
    if not is_call_to(t, 'numpy.einsum'):
        # np.sum(w ** 2, axis=-1) / np.sum(np.square(w), -1) / np.sum(w * w, -1)
        from ..walk import last_axis_product_sum
        lp = last_axis_product_sum(t) if is_call_to(t, 'numpy.sum') else None
        return lp[0] if lp is not None and lp[0] is lp[1] and not lp[2] else None
    _, pos, _ = call_parts(t)
    if len(pos) == 3 and pos[1] is pos[2]:
        return pos[1]
    return None


def check_gaussians(ck):
    run, A = ck.run, ck.A
    for cname, n_prec_letters in (('Gaussian', 2), ('DiagonalGaussian', 1), ('SphericalGaussian', 0)):
        q = f'{D}gaussian::{cname}.log_pdf'
        g, alts = ck.alts(q)
        fn = A.prog.func(q)
        for alt in alts:
            ck.term(q, alt, '-D/2 log(2 pi)', lambda f: is_log_const(f, is_two_pi), -1, [('D', lambda f: is_feature_dim(f, 'mean'))], exact_coef=0.5)
            ck.term(q, alt, '+log det of the precision Cholesky factor', lambda f: self_field(f, 'log_det_precision_cholesky'), +1, exact_coef=1.0)
            r = ck.term(q, alt, '-1/2 squared norm of the whitened difference', lambda f: quad_sum_of_squares(f) is not None, -1, exact_coef=0.5)
            if r is None:
                continue
            white = quad_sum_of_squares(r[1])
            # sum of squares contracts the feature letter only
            ss = [s for s in ein.find_sites(A, q) if s.term is peel(r[1])]
            if ss and ss[0].parsed:
                st = ein.structure(ss[0])
                ok = st['ins'][0] == st['ins'][1] and len(st['out']) == len(st['ins'][0]) - 1 and st['out'] == st['ins'][0][:-1]
                run.check(ok, 'R-EIN', f'{cname}.log_pdf: squared norm sums over the feature axis only', ss[0].loc, st['sub'],
                          f'{st["sub"]!r} does not reduce exactly the last (feature) axis of the whitened difference', construct=f'R-EIN::{q}::sum-of-squares')
            ws = [s for s in ein.find_sites(A, q) if s.term is strip_views(white)]
            if (not ws or not ws[0].parsed) and n_prec_letters <= 1:
                # per-feature / scalar scaling written with broadcasting instead of an einsum: (y - mean) * precision_factor[..., None, :]
                w0 = strip_views(white)
                if w0.op in ('binop', 'iop') and w0.args[0] in ('Mult', 'Div'):
                    a_, b_ = peel(w0.args[1]), peel(w0.args[2])
                    is_pc = lambda z: any(self_field(x, 'precision_cholesky') for x in walk_terms(z, into_mu=False))
                    is_df = lambda z: isinstance(z, T) and z.op == 'binop' and z.args[0] in ('Sub', 'Add')
                    diff = a_ if is_df(a_) else b_ if is_df(b_) else None
                    fac = b_ if diff is a_ else a_
                    if diff is not None and is_pc(fac):
                        ck.resolved += 1
                        okd = diff.args[0] == 'Sub' and ein.derives_from_param(diff.args[1], 'y') and any(self_field(x, 'mean') for x in walk_terms(diff.args[2]))
                        run.check(okd, 'R-EIN', f'{cname}.log_pdf: whitened quantity is y - mean', fn.loc(w0.node), '', 'the whitened operand is not (y - self.mean[..., None, :])',
                                  construct=f'R-EIN::{q}::difference')
                        # the stored factor is the PRECISION factor 1 / sigma: whitening multiplies by it
                        run.check(w0.args[0] == 'Mult', 'R-EIN', f'{cname}.log_pdf: whitening multiplies the difference by the stored precision factor', fn.loc(w0.node), '',
                                  'the difference is DIVIDED by self.precision_cholesky (= 1 / sigma): the Mahalanobis term is that of the inverse covariance while the '
                                  'log-determinant term is not - the density is not the named Gaussian and ranks the classes the wrong way round',
                                  construct=f'R-EIN::{q}::whitening-direction')
                        continue
            if (not ws or not ws[0].parsed) and n_prec_letters == 2:
                # whitening written as a matrix product: difference @ P contracts the ROW index of P, (P @ difference[..., None]) its column index
                w0 = strip_views(white)
                if w0.op == 'binop' and w0.args[0] == 'MatMult':
                    l_, r_ = peel(w0.args[1]), peel(w0.args[2])
                    is_pc = lambda z: any(self_field(x, 'precision_cholesky') for x in walk_terms(z, into_mu=False))
                    is_df = lambda z: isinstance(z, T) and z.op == 'binop' and z.args[0] in ('Sub', 'Add')
                    if is_df(l_) and is_pc(r_) and not is_pc(l_):
                        ck.resolved += 1
                        okd = l_.args[0] == 'Sub' and ein.derives_from_param(l_.args[1], 'y') and any(self_field(x, 'mean') for x in walk_terms(l_.args[2]))
                        run.check(okd, 'R-EIN', f'{cname}.log_pdf: whitened quantity is y - mean', fn.loc(w0.node), '', 'the whitened operand is not (y - self.mean[..., None, :])',
                                  construct=f'R-EIN::{q}::difference')
                        conv = stored_factor_convention(A, D + 'gaussian::Gaussian.__post_init__')
                        if conv is None:
                            raise AnalysisError('Gaussian.__post_init__: how the stored precision Cholesky factor is computed is no longer recognised')
                        transposed = strip_views(r_).op == 'attr' and strip_views(r_).args[1] == 'T' or is_call_to(strip_views(r_), 'numpy.swapaxes', 'numpy.transpose')
                        contracts = 'column' if transposed else 'row'
                        want = 'row' if conv == 'upper' else 'column'
                        run.check(contracts == want, 'R-EIN', f'Gaussian.log_pdf: whitening contracts the {want.upper()} index of the stored ({conv}) precision Cholesky factor', fn.loc(w0.node), '',
                                  f'`difference @ P{".T" if transposed else ""}` contracts the {contracts} index of the stored {conv} factor: the density evaluated is that of a transposed '
                                  f'covariance factor', construct=f'R-EIN::{q}::cholesky-row')
                        continue
            if not ws or not ws[0].parsed:
                run.unresolved('R-EIN', f'{cname}.log_pdf: whitening contraction', fn.loc(), 'whitening einsum not found')
                continue
            s = ws[0]
            st = ein.structure(s)
            ip = ein.operand_index(s, lambda b, cj, raw: ein.is_self_field(b, 'precision_cholesky'))
            idf = ein.operand_index(s, lambda b, cj, raw: isinstance(b, T) and b.op == 'binop' and b.args[0] in ('Sub', 'Add'))
            if ip is None or idf is None:
                run.unresolved('R-EIN', f'{cname}.log_pdf: whitening operands', s.loc, 'operands not recognised')
                continue
            ck.resolved += 1
            pl, dl, out = st['ins'][ip], st['ins'][idf], st['out']
            # difference = y - mean[..., None, :]
            diff = ein.operand_info(s)[idf][0]
            okd = diff.args[0] == 'Sub' and ein.derives_from_param(diff.args[1], 'y') and any(self_field(x, 'mean') for x in walk_terms(diff.args[2]))
            run.check(okd, 'R-EIN', f'{cname}.log_pdf: whitened quantity is y - mean', s.loc, '', 'the whitened operand is not (y - self.mean[..., None, :])',
                      construct=f'R-EIN::{q}::difference')
            if len(pl) != n_prec_letters:
                run.violation('R-EIN', f'{cname}.log_pdf: rank of the precision factor in the subscript', s.loc,
                              f'{st["sub"]!r} gives the precision Cholesky factor {len(pl)} core axes, its documented shape has {n_prec_letters}',
                              construct=f'R-EIN::{q}::precision-rank')
                continue
            if n_prec_letters == 2:
                row, col = pl[0], pl[1]
                feat = dl[-1]
                # which factor is stored?  scikit-learn's _compute_precision_cholesky returns the UPPER factor P = L^-T (Sigma^-1 = P P^T): the
                # whitened vector is P^T (y - mu), a sum over the ROW index.  inv(cholesky(Sigma)) is the LOWER factor L^-1: sum over the COLUMN index.
                conv = stored_factor_convention(A, D + 'gaussian::Gaussian.__post_init__')
                if conv is None:
                    raise AnalysisError('Gaussian.__post_init__: how the stored precision Cholesky factor is computed is no longer recognised')
                if conv == 'upper':
                    ok = (row == feat and row not in out and col in out and out[-1] == col)
                else:
                    ok = (col == feat and col not in out and row in out and out[-1] == row)
                want = 'ROW' if conv == 'upper' else 'COLUMN'
                run.check(ok, 'R-EIN', f'Gaussian.log_pdf: whitening contracts the {want} index of the stored ({conv}) precision Cholesky factor', s.loc,
                          f'{st["sub"]!r}: P[{row},{col}] x[{feat}] -> [{out}]',
                          f'{st["sub"]!r} contracts the wrong index of the precision Cholesky factor: the stored factor is the {conv} one '
                          f'({"Sigma^-1 = P P^T, whitened vector P^T (y - mu)" if conv == "upper" else "Sigma^-1 = Q^T Q, whitened vector Q (y - mu)"}); '
                          f'the density evaluated is that of a transposed covariance factor',
                          construct=f'R-EIN::{q}::cholesky-row')
            elif n_prec_letters == 1:
                ok = pl[0] == dl[-1] and pl[0] in out and out == dl
                run.check(ok, 'R-EIN', 'DiagonalGaussian.log_pdf: per-feature scaling', s.loc, st['sub'],
                          f'{st["sub"]!r} is not an element-wise scaling of the feature axis', construct=f'R-EIN::{q}::diag-scaling')
            else:
                ok = out == dl
                run.check(ok, 'R-EIN', 'SphericalGaussian.log_pdf: scalar scaling', s.loc, st['sub'], f'{st["sub"]!r} changes the axes of the difference',
                          construct=f'R-EIN::{q}::spherical-scaling')
        # the observation is centred before anything else: every use of `y` in the density is `y - mean`.  The expanded square y^2 p - 2 y p m + p m^2 is the same
        # polynomial but cancels catastrophically once |mean| >> sigma (the value is then not the log of any density)
        gq = ck.graph(q)
        ypar = gq.params.get('y')
        if ypar is not None:
            uses = []
            for r_ in [gq.ret] + [e.term for e in gq.events if e.term is not None]:
                for t_ in walk_terms(r_, into_mu=False):
                    for a_ in (t_.args if t_.op != 'call' else list(t_.args[1]) + [v for _, v in t_.args[2]]):
                        if isinstance(a_, T) and strip_views(a_) is ypar and not (t_.op == 'attr' and t_.args[1] in ('shape', 'ndim', 'dtype')):
                            uses.append(t_)
            centred = [u for u in uses if u.op == 'binop' and u.args[0] == 'Sub' and strip_views(u.args[1]) is ypar and any(self_field(x, 'mean') for x in walk_terms(u.args[2], into_mu=False))]
            other = [u for u in uses if u not in centred and not (u.op == 'call' and is_call_to(u, 'numpy.asarray', 'numpy.array', 'numpy.broadcast_arrays'))]
            if uses:
                ck.resolved += 1
                run.check(bool(centred) and not other, 'R-SAN', f'{cname}.log_pdf: the observation enters only as y - mean', fn.loc(other[0].node if other else None), '',
                          f'`{norm_stmt(other[0].node)[:80] if other else ""}` uses the uncentred observation: an expanded square cancels catastrophically for means far from the origin',
                          construct=f'R-SAN::{q}::centred-observation')
        # __post_init__: factor and log-determinant come from the covariance through the scikit-learn helpers with the right type string
        pq = f'{D}gaussian::{cname}.__post_init__'
        pg = ck.graph(pq)
        want = {'Gaussian': ('full', 'full'), 'DiagonalGaussian': ('diag', 'diag'), 'SphericalGaussian': ('diag', 'spherical')}[cname]
        calls = {call_parts(e.term)[0].split('.')[-1]: e.term for e in pg.events if e.kind == 'call' and call_parts(e.term)[0] and 'sklearn' in call_parts(e.term)[0]}
        pc, ld = calls.get('_compute_precision_cholesky'), calls.get('_compute_log_det_cholesky')
        if pc is None and ld is not None and cname == 'Gaussian' and stored_factor_convention(A, pq) is not None:
            # the factor is computed with numpy in a recognised convention (checked against the whitening contraction above); the log-determinant still comes from it
            ck.resolved += 1
            cov_ok = any(self_field(x, 'covariance') for x in walk_terms(call_arg(ld, 0)))
            run.check(const_val(call_arg(ld, 1)) == want[1] and cov_ok, 'R-DEP', f'{cname}.__post_init__: log-det of the factor computed from the stored covariance', A.prog.func(pq).loc(ld.node), '',
                      'the log-determinant is not taken of the precision factor of self.covariance with the matching covariance type', construct=f'R-DEP::{pq}::sklearn-helpers')
        elif pc is None or ld is None:
            run.unresolved('R-DEP', f'{cname}.__post_init__: scikit-learn helpers', A.prog.func(pq).loc(), 'helper calls not found')
        else:
            ck.resolved += 1
            t1, t2 = const_val(call_arg(pc, 1)), const_val(call_arg(ld, 1))
            cov_ok = any(self_field(x, 'covariance') for x in walk_terms(call_arg(pc, 0)))
            ldarg = strip_views(call_arg(ld, 0))
            run.check((t1, t2) == want and cov_ok and ldarg is pc, 'R-DEP', f'{cname}.__post_init__: precision factor / log-det from the stored covariance', A.prog.func(pq).loc(pc.node),
                      f'covariance types {t1!r}/{t2!r}',
                      f'precision Cholesky / log-determinant computed with covariance types {t1!r}/{t2!r} (expected {want}), from covariance: {cov_ok}, log-det of the same factor: {ldarg is pc}',
                      construct=f'R-DEP::{pq}::sklearn-helpers')
            dim = call_arg(ld, 2)
            run.check(dim is not None and is_feature_dim(dim, 'mean'), 'R-DEP', f'{cname}.__post_init__: log-det uses the feature dimension', A.prog.func(pq).loc(ld.node), '',
                      'the dimension argument of the log-determinant is not self.mean.shape[-1]', construct=f'R-DEP::{pq}::logdet-dimension')


def check_ccsg(ck):
    run, A = ck.run, ck.A
    q = D + 'complex_circular_symmetric_gaussian::ComplexCircularSymmetricGaussian.log_pdf'
    g, alts = ck.alts(q)
    fn = A.prog.func(q)
    for alt in alts:
        ck.term(q, alt, '-D log(pi)', lambda f: is_log_const(f, is_pi), -1, [('D', lambda f: is_feature_dim(f, 'covariance'))], exact_coef=1.0)

        def is_logdet(f):
            f = peel(f)
            # slogdet(...)[1] / slogdet(...)[-1] / `_, logdet = slogdet(...)`
            return isinstance(f, T) and ((f.op == 'sub' and is_call_to(f.args[0], 'numpy.linalg.slogdet')) or
                                         (f.op == 'unpack' and f.args[3] is None and is_call_to(strip_views(f.args[0]), 'numpy.linalg.slogdet')))
        r = ck.term(q, alt, '-log|det covariance|', is_logdet, -1, exact_coef=1.0)
        if r is not None:
            idx = const_val(peel(r[1]).args[1]) if peel(r[1]).op == 'sub' else peel(r[1]).args[1]
            run.check(idx in (-1, 1), 'R-LIN', 'ComplexCircularSymmetricGaussian.log_pdf: slogdet component is the log-magnitude', fn.loc(r[1].node), f'index {idx}',
                      f'slogdet(...)[{idx}] is the sign, not the logarithm of the determinant', construct=f'R-LIN::{q}::slogdet-index')

        def is_quad(f):
            f = peel(f)
            return isinstance(f, T) and f.op == 'attr' and f.args[1] == 'real' and is_call_to(f.args[0], 'numpy.einsum')
        r = ck.term(q, alt, '-Re(y^H Sigma^-1 y)', is_quad, -1, exact_coef=1.0)
        if r is not None:
            s = [s for s in ein.find_sites(A, q) if s.term is peel(r[1]).args[0]][0]
            info = ein.operand_info(s)
            conj = [cj for _, cj, _ in info]
            solve_ops = [raw for b, cj, raw in info if any(is_call_to(x, 'numpy.linalg.solve') for x in walk_terms(raw))]
            ok = sum(conj) == 1 and len(solve_ops) == 1
            okroles = False
            if solve_ops:
                sv = next(x for x in walk_terms(solve_ops[0]) if is_call_to(x, 'numpy.linalg.solve'))
                okroles = any(self_field(x, 'covariance') for x in walk_terms(call_arg(sv, 0))) and ein.derives_from_param(call_arg(sv, 1), 'y')
            run.check(ok and okroles, 'R-EIN', 'ComplexCircularSymmetricGaussian.log_pdf: y^H (Sigma^-1 y) with one conjugated side', s.loc, '',
                      f'quadratic form: conjugated operands {sum(conj)}, solve(covariance, y): {okroles}', construct=f'R-EIN::{q}::quadratic-form')


def check_vmf(ck):
    run, A = ck.run, ck.A
    q = D + 'von_mises_fisher::VonMisesFisher.log_pdf'
    g, alts = ck.alts(q)
    for alt in alts:
        def is_inner(f):
            f = peel(f)
            if not is_call_to(f, 'numpy.einsum'):
                return False
            _, pos, _ = call_parts(f)
            return len(pos) == 3 and any(self_field(x, 'mean') for x in walk_terms(pos[2])) or (len(pos) == 3 and any(self_field(x, 'mean') for x in walk_terms(pos[1])))
        ck.term(q, alt, '+kappa * mu^T x', is_inner, +1, [('kappa', lambda f: self_field(f, 'concentration'))], exact_coef=1.0)

        def is_lognorm(f):
            f = peel(f)
            return is_call_to(f, 'method:log_norm')
        ck.term(q, alt, '-log normaliser', is_lognorm, -1, exact_coef=1.0)
    q = D + 'von_mises_fisher::VonMisesFisher.log_norm'
    g, alts = ck.alts(q)
    fn = A.prog.func(q)
    for alt in alts:
        ck.term(q, alt, '+D/2 log(2 pi)', lambda f: is_log_const(f, is_two_pi), +1, [('D', lambda f: is_feature_dim(f, 'mean'))], exact_coef=0.5)

        def is_log_ive(f):
            f = peel(f)
            return is_call_to(f, 'numpy.log') and is_call_to(call_arg(f, 0), 'scipy.special.ive')
        r = ck.term(q, alt, '+log ive(D/2 - 1, kappa)', is_log_ive, +1, exact_coef=1.0)
        if r is not None:
            iv = call_arg(peel(r[1]), 0)
            order, arg = call_arg(iv, 0), call_arg(iv, 1)
            lo = linearise(order)[0]
            ok_order = len(lo) == 2 and any(abs(p.coef - 0.5) < 1e-12 and any(is_feature_dim(f, 'mean') for f in p.factors) for p in lo) \
                and any(abs(p.coef + 1.0) < 1e-12 and not p.factors for p in lo)
            run.check(ok_order and self_field(arg, 'concentration'), 'R-LIN', 'VonMisesFisher.log_norm: Bessel order D/2 - 1 at the stored concentration', fn.loc(iv.node), '',
                      'the order of the Bessel function is not D/2 - 1 or its argument is not the stored concentration', construct=f'R-LIN::{q}::bessel-order')

        def is_abs_kappa(f):
            f = peel(f)
            return is_call_to(f, 'numpy.abs', 'numpy.absolute') and self_field(call_arg(f, 0), 'concentration')
        ck.term(q, alt, '+|kappa| (undoes the exponential scaling of ive)', is_abs_kappa, +1, exact_coef=1.0)

        def is_log_kappa(f):
            f = peel(f)
            return is_call_to(f, 'numpy.log') and self_field(call_arg(f, 0), 'concentration')
        hits = find(alt, is_log_kappa)
        if not hits:
            run.unresolved('R-LIN', 'VonMisesFisher.log_norm: -(D/2 - 1) log kappa', fn.loc(), 'atom not recognised')
        else:
            ck.resolved += 1
            tot_d = sum(p.coef for p, _ in hits if any(is_feature_dim(f, 'mean') for f in p.factors))
            tot_c = sum(p.coef for p, _ in hits if not any(is_feature_dim(f, 'mean') for f in p.factors))
            run.check(abs(tot_d + 0.5) < 1e-12 and abs(tot_c - 1.0) < 1e-12, 'R-LIN', 'VonMisesFisher.log_norm: -(D/2 - 1) log kappa', fn.loc(hits[0][1].node),
                      'coefficient -D/2 + 1', f'log(kappa) enters with coefficient {tot_d:+g}*D {tot_c:+g} (expected -0.5*D +1)', construct=f'R-LIN::{q}::log-kappa')


def check_watson(ck):
    run, A = ck.run, ck.A
    q = D + 'complex_watson::ComplexWatson.log_pdf'
    g, alts = ck.alts(q)
    fn = A.prog.func(q)
    for alt in alts:
        def sq_part(part):
            def pred(f):
                f = peel(f)
                if isinstance(f, T) and f.op == 'binop' and f.args[0] == 'Pow' and const_val(f.args[2]) == 2:
                    b = peel(f.args[1])
                    return isinstance(b, T) and b.op == 'attr' and b.args[1] == part and is_call_to(b.args[0], 'numpy.einsum')
                return False
            return pred
        r1 = ck.term(q, alt, '+kappa * Re(w^H z)^2', sq_part('real'), +1, [('kappa', lambda f: self_field(f, 'concentration'))], exact_coef=1.0)
        r2 = ck.term(q, alt, '+kappa * Im(w^H z)^2', sq_part('imag'), +1, [('kappa', lambda f: self_field(f, 'concentration'))], exact_coef=1.0)
        if r1 is not None and r2 is not None:
            e1, e2 = peel(peel(r1[1]).args[1]).args[0], peel(peel(r2[1]).args[1]).args[0]
            s = [s for s in ein.find_sites(A, q) if s.term is e1]
            ok = e1 is e2 and bool(s)
            if ok:
                info = ein.operand_info(s[0])
                st = ein.structure(s[0])
                modes = [i for i, (b, cj, raw) in enumerate(info) if any(self_field(x, 'mode') for x in walk_terms(raw))]
                ok = len(info) == 2 and len(modes) == 1 and sum(cj for _, cj, _ in info) == 1 and st['ins'][0][-1] == st['ins'][1][-1] and st['ins'][0][-1] not in st['out']
            run.check(ok, 'R-EIN', 'ComplexWatson.log_pdf: |w^H z|^2 of one inner product over the feature axis', fn.loc(e1.node), '',
                      'real and imaginary squares are not taken of the same feature-axis inner product of y with the (conjugated) mode', construct=f'R-EIN::{q}::inner-product')
        ck.term(q, alt, '-log normaliser', lambda f: is_call_to(peel(f), 'method:log_norm'), -1, exact_coef=1.0)
    # what the concentration multiplies is the squared MAGNITUDE of the inner product, in any spelling (re^2 + im^2, abs() ** 2, (x conj(x)).real); the bare
    # (complex) inner product or its real part there is a recognised deviation, not an unknown form
    from ..walk import abs_square_operand
    for t_ in walk_terms(g.ret):
        if t_.op in ('binop', 'iop') and t_.args[0] == 'Mult':
            for u, v in ((t_.args[1], t_.args[2]), (t_.args[2], t_.args[1])):
                if self_field(peel(u), 'concentration'):
                    y_ = peel(v)
                    sq = abs_square_operand(y_)
                    inner_ok = sq is not None and is_call_to(strip_views(sq), 'numpy.einsum')
                    ck.resolved += 1
                    run.check(inner_ok, 'R-LIN', 'ComplexWatson.log_pdf: the concentration multiplies |w^H z|^2', fn.loc(t_.node), '',
                              'the factor of the concentration is not the squared magnitude of the inner product of y with the mode', construct=f'R-LIN::{q}::squared-magnitude')
                    if inner_ok:
                        # decided in this form: the re^2 / im^2 atoms of the expanded spelling are not needed
                        for aid in list(ck.missing):
                            ck.missing[aid] = [it for it in ck.missing[aid] if not (it[0] == q and it[1].startswith('+kappa * '))]
                        s_ = [s_ for s_ in ein.find_sites(A, q) if s_.term is strip_views(sq)]
                        if s_:
                            info = ein.operand_info(s_[0])
                            st = ein.structure(s_[0])
                            modes = [i for i, (b, cj, raw) in enumerate(info) if any(self_field(x, 'mode') for x in walk_terms(raw))]
                            oke = len(info) == 2 and len(modes) == 1 and st['ins'][0][-1] == st['ins'][1][-1] and st['ins'][0][-1] not in st['out']
                            run.check(oke, 'R-EIN', 'ComplexWatson.log_pdf: |w^H z|^2 of one inner product over the feature axis', fn.loc(s_[0].term.node), '',
                                      'the inner product is not a contraction of y with the mode over the feature axis', construct=f'R-EIN::{q}::inner-product')
    # log_norm: 1F1(1; D; kappa) * 2 pi^D / (D-1)!  evaluated at the stored concentration and the mode's feature dimension
    q = D + 'complex_watson::ComplexWatson.log_norm'
    g = ck.graph(q)
    fn = A.prog.func(q)
    ok = False
    ret = strip_views(g.ret)
    n, pos, kw = call_parts(ret)
    if n and n.endswith('log_norm_1f1') or (n == 'method:log_norm_1f1'):
        args = [p for p in pos if not (p.op == 'param' and p.args[0] == 'self')]
        ok = len(args) == 2 and self_field(args[0], 'concentration') and is_feature_dim(args[1], 'mode')
        ck.resolved += 1
        run.check(ok, 'R-DEP', 'ComplexWatson.log_norm: normaliser of the stored concentration and feature dimension', fn.loc(), '',
                  'log_norm does not evaluate the 1F1 normaliser at (self.concentration, self.mode.shape[-1])', construct=f'R-DEP::{q}::arguments')
    else:
        inner = [x for x in walk_terms(ret, into_mu=False) if x.op == 'call' and (call_parts(x)[0] or '').endswith('log_norm_1f1')]
        if inner:
            # the exact normaliser is still called, but what is returned is something else built around it (np.where with a closed-form
            # approximation on part of the domain, a correction term ...): exp(log_pdf) no longer integrates to one there, and the M-step,
            # which inverts the exact normaliser, no longer maximises the model's own likelihood
            run.violation('R-DEP', 'ComplexWatson.log_norm: the returned value is the exact 1F1 normaliser', fn.loc(ret.node),
                          f'`{norm_stmt(ret.node)[:100]}`: log_norm returns an expression that only contains the 1F1 normaliser; on part of the parameter domain another formula is used',
                          construct=f'R-DEP::{q}::exact-normaliser')
        else:
            run.unresolved('R-DEP', 'ComplexWatson.log_norm', fn.loc(), 'does not call log_norm_1f1')
    q = D + 'complex_watson::ComplexWatson.log_norm_1f1'
    g = ck.graph(q)
    fn = A.prog.func(q)
    ret = strip_views(g.ret)
    if is_call_to(ret, 'numpy.log'):
        from ..ratfun import rational, NotRational, A as _A, C as _C
        hyp = [x for x in walk_terms(call_arg(ret, 0), into_mu=False) if is_call_to(x, 'scipy.special.hyp1f1')]
        if hyp:
            ck.resolved += 1
            h = hyp[0]
            a, b, x = call_arg(h, 0), call_arg(h, 1), call_arg(h, 2)
            okh = const_val(a) == 1 and b.op == 'param' and b.args[0] == 'dimension' and x.op == 'param' and x.args[0] == 'scale'
            run.check(okh, 'R-LIN', 'ComplexWatson.log_norm_1f1: 1F1(1; D; kappa)', fn.loc(h.node), '', 'confluent hypergeometric function is not 1F1(1, dimension, scale)',
                      construct=f'R-LIN::{q}::hyp1f1-args')

            # the argument of the logarithm as a quotient of polynomials over {1F1, pi^D, (D-1)!}: any spelling of 2 pi^D / (D-1)! * 1F1 is accepted
            def atoms(t):
                if t is h:
                    return 'H'
                if t.op == 'binop' and t.args[0] == 'Pow' and is_pi(t.args[1]):
                    ok_e = peel(t.args[2]).op == 'param' and peel(t.args[2]).args[0] == 'dimension'
                    return 'PI^D' if ok_e else f'PI^<{norm_stmt(t.args[2].node)[:30]}>'          # a recognised atom with another exponent: a deviation, not an unknown
                if is_call_to(t, 'math.factorial', 'scipy.special.factorial'):
                    d = peel(call_arg(t, 0))
                    if d.op == 'binop' and d.args[0] == 'Sub' and const_val(d.args[2]) == 1 and peel(d.args[1]).op == 'param' and peel(d.args[1]).args[0] == 'dimension':
                        return '(D-1)!'
                    return f'factorial(<{norm_stmt(call_arg(t, 0).node)[:30]}>)'
                return None
            try:
                got = rational(call_arg(ret, 0), atoms)
            except NotRational as e:
                run.unresolved('R-LIN', 'ComplexWatson.log_norm_1f1: sphere area factor', fn.loc(h.node), f'normaliser not a recognised rational expression ({e})')
            else:
                want = _C(2) * _A('PI^D') * _A('H') / _A('(D-1)!')
                run.check(got.same(want), 'R-LIN', 'ComplexWatson.log_norm_1f1: sphere area factor 2 pi^D / (D-1)!', fn.loc(h.node), '',
                          f'the normaliser is not 1F1(1; D; kappa) * 2 * pi**D / (D-1)!  (found {got})', construct=f'R-LIN::{q}::sphere-area')
        else:
            run.unresolved('R-LIN', 'ComplexWatson.log_norm_1f1', fn.loc(), 'hyp1f1 factor not found')
    else:
        run.unresolved('R-LIN', 'ComplexWatson.log_norm_1f1', fn.loc(), 'not a logarithm')


def check_bingham(ck):
    run, A = ck.run, ck.A
    q = D + 'complex_bingham::ComplexBingham.log_pdf'
    g, alts = ck.alts(q)
    fn = A.prog.func(q)
    for alt in alts:
        def is_quad(f):
            f = peel(f)
            return isinstance(f, T) and f.op == 'attr' and f.args[1] == 'real' and is_call_to(f.args[0], 'numpy.einsum')
        r = ck.term(q, alt, '+Re(z^H B z)', is_quad, +1, exact_coef=1.0)
        if r is not None:
            s = [s for s in ein.find_sites(A, q) if s.term is peel(r[1]).args[0]][0]
            info = ein.operand_info(s)
            st = ein.structure(s)
            im = ein.operand_index(s, lambda b, cj, raw: ein.is_self_field(b, 'covariance'))
            ys = [i for i, (b, cj, raw) in enumerate(info) if i != im]
            ok = im is not None and len(ys) == 2 and sum(info[i][1] for i in ys) == 1 and same_value(info[ys[0]][0], info[ys[1]][0])
            if ok:
                m = st['ins'][im]
                ok = len(m) == 2 and all(c not in st['out'] for c in m) and {st['ins'][ys[0]][-1], st['ins'][ys[1]][-1]} == set(m)
            run.check(ok, 'R-EIN', 'ComplexBingham.log_pdf: quadratic form z^H B z with the stored parameter matrix', s.loc, st['sub'],
                      'quadratic form does not contract y.conj() and y with the two indices of self.covariance', construct=f'R-EIN::{q}::quadratic-form')
        ck.term(q, alt, '-log normaliser', lambda f: is_call_to(peel(f), 'method:log_norm'), -1, exact_coef=1.0)
    # norm = 2 pi^D sum_j a_j exp(lambda_j), a_j = 1 / prod_{i != j} (lambda_j - lambda_i)
    q = D + 'complex_bingham::ComplexBingham.norm'
    g = ck.graph(q)
    fn = A.prog.func(q)
    ret = peel(g.ret)
    c, fs = product_factors(ret)
    ok_c = abs(c - 2.0) < 1e-12
    pows = [f for f in fs if peel(f).op == 'binop' and peel(f).args[0] == 'Pow' and is_pi(peel(f).args[1])]
    from ..walk import last_axis_product_sum
    # (np.sum(a * exp(lambda), axis=-1) is built as the contraction einsum('...d,...d->...', a, exp(lambda)))
    sums = [f for f in fs if is_call_to(peel(f), 'numpy.sum', 'numpy.einsum')]
    if pows and sums:
        ck.resolved += 1
        sm = peel(sums[0])
        lp = last_axis_product_sum(sm)
        if lp is not None:
            ax = -1
            fi = [lp[0], lp[1]]
        else:
            ax = const_val(call_arg(sm, 1, 'axis')) if is_call_to(sm, 'numpy.sum') else None
            inner = call_arg(sm, 0)
            ci, fi = product_factors(inner)
        exps = [f for f in fi if is_call_to(peel(f), 'numpy.exp')]
        ok = ok_c and ax == -1 and len(exps) == 1 and len(fi) == 2
        run.check(ok, 'R-LIN', 'ComplexBingham.norm: 2 pi^D sum_j a_j exp(lambda_j) over the eigenvalue axis', fn.loc(sm.node), '',
                  f'normaliser is not 2 * pi**D * sum(a * exp(eigenvalues), axis=-1) (coef {c:g}, axis {ax})', construct=f'R-LIN::{q}::normaliser-form')
        # the diagonal of the difference matrix is neutralised before the product
        stores = [e for e in g.events if e.kind == 'store']
        recip = [t for e in g.events if e.term is not None for t in walk_terms(e.term) if t.op == 'binop' and t.args[0] == 'Div' and const_val(t.args[1]) == 1
                 and is_call_to(t.args[2], 'numpy.prod')]
        diag = bool(stores)
        if not diag and recip:
            # out-of-place form: np.where(np.eye(D, dtype=bool), 1, differences)
            ctx_ = A.ev.entry(fn)
            for x in walk_terms(recip[0].args[2], into_mu=False):
                if is_call_to(x, 'numpy.where') and any(is_call_to(y, 'numpy.eye', 'numpy.identity') for y in walk_terms(call_arg(x, 0), into_mu=False)):
                    v = A.ev.eval(call_arg(x, 1), ctx_)
                    diag = diag or (v.is_const and v.cval == 1)
        okp = diag and bool(recip) and const_val(call_arg(recip[0].args[2], 1, 'axis')) == -1
        run.check(okp, 'R-LIN', 'ComplexBingham.norm: a_j = 1 / prod of eigenvalue differences with unit diagonal', fn.loc(), '',
                  'partial-fraction coefficients are not 1/prod(deltas, axis=-1) with the diagonal set to one', construct=f'R-LIN::{q}::partial-fractions')
    else:
        run.unresolved('R-LIN', 'ComplexBingham.norm', fn.loc(), 'normaliser form not recognised')
    # duplicate-eigenvalue spreading: the partial fractions divide by lambda_j - lambda_i, so `norm` spreads coinciding eigenvalues first.
    # The minimal gap is an absolute positive number: the helper is applied to the Bingham parameter eigenvalues, which are shifted so that
    # their maximum is 0, and a gap proportional to the eigenvalues themselves (`eps * largest`) vanishes exactly there.
    q = D + 'complex_bingham::ComplexBingham._remove_duplicate_eigenvalues'
    fn = A.prog.func(q)
    g = ck.graph(q)
    floors = []
    for e in g.events:
        if e.kind == 'call' and is_call_to(e.term, 'numpy.maximum'):
            a, b = call_arg(e.term, 0), call_arg(e.term, 1)
            for x, fl in ((a, b), (b, a)):
                if x is not None and fl is not None and any(is_call_to(y, 'numpy.diff') for y in walk_terms(x, into_mu=False)) \
                        and not any(is_call_to(y, 'numpy.diff') for y in walk_terms(fl, into_mu=False)):
                    floors.append((e.term, fl))
    if not floors:
        raise AnalysisError('ComplexBingham._remove_duplicate_eigenvalues: the floor of the consecutive differences (maximum(diff(sorted), gap)) is no longer recognised')
    evp = [p_ for p_ in fn.params if p_ not in ('self', 'cls', 'eps')]
    for tm, fl in floors:
        dep = [p_ for p_ in evp if data_derives(fl, p_)]
        ck.resolved += 1
        run.check(not dep, 'R-DEP', 'ComplexBingham._remove_duplicate_eigenvalues: the minimal gap is an absolute number', fn.loc(tm.node), '',
                  f'the minimal gap between spread eigenvalues depends on the eigenvalues themselves ({dep}): for the Bingham parameter eigenvalues (maximum 0 by '
                  f'construction) a relative gap is 0, duplicates survive and the normaliser divides by zero', construct=f'R-DEP::{q}::absolute-gap')
    if 'eps' in fn.defaults:
        ctx0 = A.ev.entry(fn)
        d = A.ev.default_av(fn, 'eps', ctx0)
        if d is not None and d.is_const and d.cval is None:
            # a `None` sentinel resolved in the body (campaign 13): the value that reaches the floor under the defaults decides
            try:
                d = A.ev.eval(floors[0][1], ctx0)
            except Exception:
                d = None
            if d is None or d.sign != 'POS':
                run.unresolved('R-SIGN', 'ComplexBingham._remove_duplicate_eigenvalues: default gap is positive', fn.loc(),
                               'the default is a None sentinel and the value it is resolved to is not evaluated to a positive number')
                d = False
        if d is not False:
            run.check(d is not None and d.sign == 'POS', 'R-SIGN', 'ComplexBingham._remove_duplicate_eigenvalues: default gap is positive', fn.loc(), '',
                      'the default minimal gap is not a positive number', construct=f'R-SIGN::{q}::gap-default')


def check_cacg(ck):
    run, A = ck.run, ck.A
    q = D + 'complex_angular_central_gaussian::ComplexAngularCentralGaussian._log_pdf'
    g, alts = ck.alts(q, component=0)
    fn = A.prog.func(q)
    qf_term = None
    for alt in alts:
        def is_log_q(f):
            f = peel(f)
            return is_call_to(f, 'numpy.log') and any(is_call_to(x, 'numpy.einsum') for x in walk_terms(call_arg(f, 0), into_mu=False))

        def is_D(f):
            f = peel(f)
            return isinstance(f, T) and f.op == 'unpack' and f.args[0].op == 'attr' and f.args[0].args[1] == 'shape' and f.args[1] == f.args[2] - 2 and f.args[3] == 0
        r = ck.term(q, alt, '-D log(z^H B^-1 z)', is_log_q, -1, [('D', is_D)], exact_coef=1.0)
        if r is not None:
            qf_term = call_arg(peel(r[1]), 0)
        ck.term(q, alt, '-log det B', lambda f: self_field(f, 'log_determinant'), -1, exact_coef=1.0)
    # the second component returned is the same quadratic form
    if g.ret.op == 'tuple' and qf_term is not None:
        run.check(strip_views(g.ret.args[0][1]) is strip_views(qf_term), 'R-DEP', 'cACG._log_pdf: returned quadratic form is the one inside the logarithm', fn.loc(), '',
                  'the quadratic form handed to the M-step differs from the one used in the log-density', construct=f'R-DEP::{q}::quadratic-form-identity')
    # contraction structure
    sites = ein.find_sites(A, q)
    if not sites:
        raise AnalysisError('cACG._log_pdf: einsum vanished')
    s = sites[0]
    info = ein.operand_info(s)
    st = ein.structure(s)
    iy_c = ein.operand_index(s, lambda b, cj, raw: cj and b.op == 'param' and b.args[0] == 'y')
    iy = ein.operand_index(s, lambda b, cj, raw: (not cj) and b.op == 'param' and b.args[0] == 'y')
    iu = ein.operand_index(s, lambda b, cj, raw: (not cj) and ein.is_self_field(b, 'covariance_eigenvectors'))
    iu_c = ein.operand_index(s, lambda b, cj, raw: cj and ein.is_self_field(b, 'covariance_eigenvectors'))
    il = next((i for i, (b, cj, raw) in enumerate(info) if any(ein.is_self_field(x, 'covariance_eigenvalues') for x in walk_terms(raw))), None)
    if None in (iy_c, iy, iu, iu_c, il):
        run.unresolved('R-EIN', 'cACG._log_pdf: quadratic form operands', s.loc, 'operands not recognised')
    else:
        ck.resolved += 1
        ins = st['ins']
        lam = info[il][2]
        lam_s = strip_views(lam)
        recip = lam_s.op == 'binop' and lam_s.args[0] == 'Div' and const_val(lam_s.args[1]) in (1, 1.0) and ein.is_self_field(lam_s.args[2], 'covariance_eigenvalues')
        run.check(recip, 'R-EIN', 'cACG._log_pdf: quadratic form uses the RECIPROCAL eigenvalues', s.loc, '1 / self.covariance_eigenvalues',
                  'the eigenvalue operand of z^H B^-1 z is not 1 / covariance_eigenvalues (B instead of B^-1 inverts the ranking of the classes)',
                  construct=f'R-EIN::{q}::reciprocal-eigenvalues')
        e = ins[il][-1] if ins[il] else None
        ok = (len(ins[iu]) == 2 and len(ins[iu_c]) == 2 and e is not None and ins[iu][1] == e and ins[iu_c][1] == e
              and ins[iu][0] == ins[iy_c][0] and ins[iu_c][0] == ins[iy][0] and ins[iy][-1] == ins[iy_c][-1] and ins[iy][-1] in st['out']
              and all(c not in st['out'] for c in (ins[iu][0], ins[iu_c][0], e)))
        run.check(ok, 'R-EIN', 'cACG._log_pdf: z^H U diag(1/lambda) U^H z', s.loc, st['sub'],
                  f'{st["sub"]!r}: eigenvector columns must pair with the eigenvalue index, rows with the feature index of y / conj(y); the observation index is kept',
                  construct=f'R-EIN::{q}::udu-structure')
    # covariance property: U diag(lambda) U^H with the plain eigenvalues
    for cq, fld in ((D + 'complex_angular_central_gaussian::ComplexAngularCentralGaussian.covariance', 'covariance_eigenvalues'),
                    (D + 'complex_bingham::ComplexBingham.covariance', 'covariance_eigenvalues')):
        for s in ein.find_sites(A, cq):
            info = ein.operand_info(s)
            st = ein.structure(s)
            il = ein.operand_index(s, lambda b, cj, raw: ein.is_self_field(b, fld))
            iu = ein.operand_index(s, lambda b, cj, raw: (not cj) and ein.is_self_field(b, 'covariance_eigenvectors'))
            iu_c = ein.operand_index(s, lambda b, cj, raw: cj and ein.is_self_field(b, 'covariance_eigenvectors'))
            if None in (il, iu, iu_c):
                run.unresolved('R-EIN', f'{cq.split("::")[1]}: U diag(lambda) U^H', s.loc, 'operands not recognised')
                continue
            ck.resolved += 1
            ins, out = st['ins'], st['out']
            e = ins[il][-1]
            ok = ins[iu][1] == e and ins[iu_c][1] == e and e not in out and out[-2:] == ins[iu][0] + ins[iu_c][0]
            run.check(ok, 'R-EIN', f'{cq.split("::")[1]}: U diag(lambda) U^H', s.loc, st['sub'],
                      f'{st["sub"]!r} is not sum_x U[w,x] lambda[x] conj(U[z,x]) -> [w,z]', construct=f'R-EIN::{cq}::udu')
    # log determinant
    q2 = D + 'complex_angular_central_gaussian::ComplexAngularCentralGaussian.log_determinant'
    g2 = ck.graph(q2)
    r = strip_views(g2.ret)
    ok = is_call_to(r, 'numpy.sum') and const_val(call_arg(r, 1, 'axis')) == -1 and is_call_to(call_arg(r, 0), 'numpy.log') \
        and self_field(call_arg(call_arg(r, 0), 0), 'covariance_eigenvalues')
    ck.resolved += 1
    run.check(ok, 'R-LIN', 'cACG.log_determinant: sum of log eigenvalues over the eigenvalue axis', A.prog.func(q2).loc(), '',
              'log-determinant is not np.sum(np.log(covariance_eigenvalues), axis=-1)', construct=f'R-LIN::{q2}::form')


def stored_factor_convention(A, qual):
    """'upper' (P = L^-T, scikit-learn's _compute_precision_cholesky) or 'lower' (L^-1 = inv(cholesky(Sigma))) for the value stored as
    self.precision_cholesky; a transposition of the last two axes flips it; None if not recognised"""
    from ..walk import axis_reordering
    fn = A.prog.func(qual)
    g = A.graphs.get(fn)
    vals = [e.term for e in g.events if e.kind == 'setattr' and e.data.get('attr') == 'precision_cholesky']
    if not vals:
        return None
    t = strip_views(vals[-1])
    flip = False
    for _ in range(8):
        if is_call_to(t, 'numpy.reshape'):
            t = strip_views(call_arg(t, 0))
            continue
        r = axis_reordering(t)
        if r is not None and r[1] in (('swap', frozenset((-1, -2))), ('reverse',)):
            flip = not flip
            t = strip_views(r[0])
            continue
        break
    conv = None
    if (call_parts(t)[0] or '').endswith('_compute_precision_cholesky'):
        conv = 'upper'
    elif is_call_to(t, 'numpy.linalg.inv', 'scipy.linalg.inv'):
        inner = strip_views(call_arg(t, 0))
        if is_call_to(inner, 'numpy.linalg.cholesky', 'scipy.linalg.cholesky'):
            lower = call_parts(inner)[2].get('lower')
            upper_kw = call_parts(inner)[2].get('upper')
            is_lower = True
            if call_parts(inner)[0].startswith('scipy'):
                is_lower = lower is not None and const_val(lower) is True      # scipy's default is the upper factor U (Sigma = U^T U), inv(U) = L^-T
            if upper_kw is not None and const_val(upper_kw) is True:
                is_lower = False
            conv = 'lower' if is_lower else 'upper'
    if conv is None:
        return None
    if flip:
        conv = 'upper' if conv == 'lower' else 'lower'
    return conv


COMPLEX_LOG_PDFS = {
    D + 'complex_watson::ComplexWatson.log_pdf': ('y',), D + 'complex_bingham::ComplexBingham.log_pdf': ('y',),
    D + 'complex_angular_central_gaussian::ComplexAngularCentralGaussian._log_pdf': ('y',), D + 'complex_angular_central_gaussian::ComplexAngularCentralGaussian.log_pdf': ('y',),
    D + 'complex_circular_symmetric_gaussian::ComplexCircularSymmetricGaussian.log_pdf': ('y',),
}


def check_real_log_density(run, A):
    """the logarithm of a density is a REAL number.  A Hermitian form y^H B y of complex observations is real in exact arithmetic but complex-TYPED in NumPy; returned as it
    is, the posterior (exp, normalise) and everything computed from it become complex arrays with rounding-level imaginary parts: comparisons with 0 and 1, arg-max and
    log-likelihood sums no longer mean what the property says."""
    from ..walk import decided_complex, ret_alts
    n = 0
    for q, cp in COMPLEX_LOG_PDFS.items():
        fn = A.prog.func(q)
        g = A.graphs.get(fn)
        for r in ret_alts(g):
            r0 = strip_views(r)
            vals = list(r0.args[0]) if r0.op == 'tuple' else [r0]
            for i, v in enumerate(vals):
                n += 1
                run.check(not decided_complex(v, set(cp)), 'R-REAL', f'{q.split("::")[1]}: result {i} is real valued', fn.loc(getattr(v, 'node', None)), '',
                          'the returned value is computed from the complex observation by arithmetic / contractions only (no .real, abs or |.|^2 on the way): it is a complex-typed array',
                          construct=f'R-REAL::{q}::result-{i}')
    run.floor('log-density results examined for being real valued', n, 6)


def check_factorised_matrix(run, A):
    """the cached factor and log-determinant of the Gaussian families are those of the STORED covariance: what is handed to the factorisation (scikit-learn's
    _compute_precision_cholesky, or cholesky / inv / slogdet) is self.covariance itself, reshaped at most.  A loaded / scaled / clipped copy gives a proper density -
    of another Gaussian than the one the parameters name."""
    n = 0
    for cname in ('Gaussian', 'DiagonalGaussian', 'SphericalGaussian'):
        q = f'{D}gaussian::{cname}.__post_init__'
        try:
            fn = A.prog.func(q)
        except Exception:
            continue
        g = A.graphs.get(fn)
        for e in g.events:
            if e.kind != 'call':
                continue
            nm = call_parts(e.term)[0] or ''
            if not (nm.endswith('_compute_precision_cholesky') or nm in ('numpy.linalg.cholesky', 'scipy.linalg.cholesky', 'numpy.linalg.slogdet', 'numpy.linalg.inv', 'numpy.linalg.det')):
                continue
            arg = call_arg(e.term, 0)
            if arg is None or not data_derives(arg, 'self'):
                continue
            if is_call_to(strip_views(arg), 'numpy.linalg.cholesky', 'scipy.linalg.cholesky', 'numpy.linalg.inv', 'scipy.linalg.inv') or \
                    (call_parts(strip_views(arg))[0] or '').endswith('_compute_precision_cholesky'):
                continue          # inv(cholesky(c)): the inner call is the one that sees the matrix
            # follow value-preserving steps only
            t = strip_views(arg)
            for _ in range(10):
                if is_call_to(t, 'numpy.reshape', 'numpy.asarray', 'numpy.array', 'numpy.ascontiguousarray', 'numpy.copy', 'numpy.broadcast_to', 'numpy.atleast_1d', 'numpy.atleast_2d'):
                    t = strip_views(call_arg(t, 0))
                    continue
                if t.op == 'sub' and newaxis_only(t):
                    t = strip_views(t.args[0])
                    continue
                break
            n += 1
            ok = self_field(t, 'covariance')
            run.check(ok, 'R-DEP', f'{cname}.__post_init__: the matrix that is factorised is the stored covariance', fn.loc(e.term.node), '',
                      f'`{norm_stmt(e.term.node)[:90]}` factorises something else than self.covariance (reshaped at most): the cached precision factor / log-determinant belong to '
                      f'another covariance than the one the model stores and reports', construct=f'R-DEP::{q}::factorised-matrix')
    run.floor('factorisations of the stored covariance', n, 3)


def newaxis_only(t):
    from ..walk import newaxis_insertions
    return newaxis_insertions(t) is not None


def check(run):
    A = run.A
    run.explanation = (
        'The return expression of every log_pdf / log-normaliser is linearised through reaching definitions into signed products and each expected atom is '
        'checked for sign, numeric coefficient and symbolic factors (D, kappa, 1/2); the einsum contractions of the quadratic / inner-product forms are checked on '
        'their contraction structure (conjugation, which index of the precision Cholesky factor is contracted, reciprocal eigenvalues, U diag U^H); log-normalisers '
        'are evaluated at the stored concentration / eigenvalues and the feature dimension. The numerical value of special functions and integration to one are not decided.')
    run.trusted = ['scikit-learn contract: precision Cholesky factor P satisfies Sigma^-1 = P P^T', 'density definitions of the named families']
    ck = Checker(run, A)
    check_gaussians(ck)
    check_ccsg(ck)
    check_vmf(ck)
    check_watson(ck)
    check_bingham(ck)
    check_cacg(ck)
    close_terms(ck)
    check_real_log_density(run, A)
    check_factorised_matrix(run, A)
    from .. import opt as _opt
    _opt.check_derived_fields(run, A, ['pb_bss.distribution'])      # the cached factor / log-determinant cannot be set apart from the covariance (round 14, S250)
    # generic sesquilinear rule on every einsum of the density files
    n = 0
    for s in ein.enumerate_sites(A):
        if s.fn.mod.name.startswith('pb_bss.distribution.') and s.parsed and s.fn.name in ('log_pdf', '_log_pdf', 'covariance'):
            n += ein.check_generic(run, s)
    run.floor('recognised atoms / contraction instances', ck.resolved, 30)
