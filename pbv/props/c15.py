"""C15 - oracle alignment is optimal and undoes any per-frequency permutation (structural parts).

  R-SEL c   optimality clause: the 'optimal' branch is a complete, strict arg-max enumeration of
            permutations(range(K)) with objective sum_k score[k, perm[k]] (shared rule instance with C14).
  ORIENT    inversion clause, structural part: every score metric is oriented rows = reference, columns =
            estimate; _mapping_from_score_matrix maps row -> column; apply_mapping gathers the estimate by it;
            the oracle aligner passes (mask, reference_mask) in that order to the metric.
"""
from ..model import AnalysisError
from ..terms import T, walk_terms
from ..walk import data_derives, ret_alts, call_parts, call_arg, is_call_to, const_val, NOVAL, strip_views, unwrap_gamma
from .. import ein
from . import c14

P = 'pb_bss.permutation_alignment::'


def check_orientation(run, A):
    # multiply / _calculate_score_matrix: einsum output [reference k, estimate K]
    n = 0
    for q in (P + '_ScoreMatrix.multiply', P + '_calculate_score_matrix'):
        for s in ein.find_sites(A, q):
            info = ein.operand_info(s)
            st = ein.structure(s)
            im = ein.operand_index(s, lambda b, cj, raw: data_derives(raw, 'mask') and not data_derives(raw, 'reference_mask'))
            ir = ein.operand_index(s, lambda b, cj, raw: data_derives(raw, 'reference_mask'))
            ok = im is not None and ir is not None
            if ok:
                km, kr = st['ins'][im][0], st['ins'][ir][0]
                ok = st['out'][-2:] == kr + km and st['ins'][im][-1] == st['ins'][ir][-1] and st['ins'][im][-1] not in st['out']
            n += 1
            run.check(ok, 'ORIENT', f'{q.split("::")[1]} {st["sub"]!r}: score[reference, estimate]', s.loc, '',
                      f'{st["sub"]!r}: rows of the score matrix must index the reference classes, columns the estimated classes, summed over time', construct=f'ORIENT::{q}::einsum')
    # ... and the inner product is returned as it is, with its sign: the magnitude ranks a row and its negation alike (anti-parallel rows tie with parallel ones)
    qm = P + '_ScoreMatrix.multiply'
    fnm = A.prog.func(qm)
    sites_m = ein.find_sites(A, qm)
    for r_ in ret_alts(A.graphs.get(fnm)):
        r0 = strip_views(r_)
        if any(r0 is s_.term for s_ in sites_m) or is_call_to(r0, 'numpy.einsum', 'numpy.matmul', 'numpy.dot', 'numpy.tensordot', 'numpy.inner') or (r0.op == 'binop' and r0.args[0] == 'MatMult'):
            run.ok('ORIENT', '_ScoreMatrix.multiply: the signed inner product is the score', fnm.loc(getattr(r0, 'node', None)), 'the contraction itself is returned')
        elif is_call_to(r0, 'numpy.abs', 'builtin.abs', 'numpy.absolute') or (r0.op == 'binop' and r0.args[0] == 'Pow'):
            run.violation('ORIENT', '_ScoreMatrix.multiply: the signed inner product is the score', fnm.loc(getattr(r0, 'node', None)),
                          'the magnitude (or a power) of the inner product is returned: a class row and its negation get the same score, two anti-parallel reference rows cannot be told apart',
                          construct=f'ORIENT::{qm}::signed')
        else:
            run.unresolved('ORIENT', '_ScoreMatrix.multiply: the signed inner product is the score', fnm.loc(getattr(r0, 'node', None)), 'the returned value is not the contraction itself')
    # cos = multiply(normalised mask, normalised reference) in the same order
    q = P + '_ScoreMatrix.cos'
    fn = A.prog.func(q)
    g = A.graphs.get(fn)
    r = strip_views(g.ret)
    n_, pos, kw = call_parts(r)
    ok = n_ == 'method:multiply' and len(pos) == 3 and data_derives(pos[1], 'mask') and not data_derives(pos[1], 'reference_mask') and data_derives(pos[2], 'reference_mask')
    run.check(ok, 'ORIENT', '_ScoreMatrix.cos keeps the (mask, reference) order', fn.loc(), '', 'cos does not forward (normalised mask, normalised reference) to multiply in that order',
              construct=f'ORIENT::{q}::order')
    # euclidean: -sqrt(sum(|mask[:, None] - ref[None]|^2, axis=-1)).T
    q = P + '_ScoreMatrix.euclidean'
    fn = A.prog.func(q)
    g = A.graphs.get(fn)
    r = strip_views(g.ret)
    ok = False
    why = 'not of the form (-sqrt(sum(abs(mask[:, None] - reference[None]) ** 2, axis=-1))).T'
    # `-np.sqrt(...).T` parses as -(sqrt(...).T); accept the transpose inside or outside the negation
    neg = False
    reorders = []            # outermost first
    inner = r
    from ..walk import axis_reordering

    def reorder_of(t):
        ro = axis_reordering(t)
        if ro is None and is_call_to(t, 'numpy.rollaxis'):
            ax, st = const_val(call_arg(t, 1, 'axis')), call_arg(t, 2, 'start')
            st = 0 if st is None else const_val(st)
            if isinstance(ax, int) and isinstance(st, int):
                return call_arg(t, 0, 'a'), ('roll', ax, st)
            return call_arg(t, 0, 'a'), ('unknown',)
        return ro
    for _ in range(6):
        ro = reorder_of(inner)
        if ro is not None:
            reorders.append(ro[1])
            inner = strip_views(ro[0])
        elif inner.op == 'unop' and inner.args[0] == 'USub':
            neg, inner = not neg, strip_views(inner.args[1])
    subs = [x for x in walk_terms(inner) if x.op == 'binop' and x.args[0] == 'Sub']
    layout = None            # 'mr': [estimate, reference] before the transposes; 'rm': [reference, estimate]
    sum_last = False
    sum_axis = None
    if subs:
        a, b = strip_views(subs[0].args[1]), strip_views(subs[0].args[2])

        def none_pos(t):
            if is_call_to(t, 'numpy.expand_dims'):
                v = const_val(call_arg(t, 1, 'axis'))
                return v if isinstance(v, int) and v >= 0 else None
            if t.op == 'sub' and t.args[1].op == 'tuple':
                items = t.args[1].args[0]
                for i, it in enumerate(items):
                    if const_val(it) is None:
                        return i
                    if const_val(it) is Ellipsis:
                        return None
            return None
        m_, r_ = None, None
        if data_derives(a, 'mask') and not data_derives(a, 'reference_mask') and data_derives(b, 'reference_mask') and not data_derives(b, 'mask'):
            m_, r_ = a, b
        elif data_derives(a, 'reference_mask') and not data_derives(a, 'mask') and data_derives(b, 'mask') and not data_derives(b, 'reference_mask'):
            m_, r_ = b, a
        if m_ is not None:
            pm, pr = none_pos(m_), none_pos(r_)
            # estimate expanded at axis 1 (estimate index first), reference at axis 0 -> [estimate, reference]; one transpose -> [reference, estimate]
            layout = 'mr' if (pm, pr) == (1, 0) else 'rm' if (pm, pr) == (0, 1) else None
        sm = [x for x in walk_terms(inner) if is_call_to(x, 'numpy.sum')]
        sum_axis = const_val(call_arg(sm[0], None, 'axis')) if len(sm) == 1 else None
        sum_last = isinstance(sum_axis, int) and not isinstance(sum_axis, bool)          # (which axis: judged below)
    # a transposition deeper inside the expression is not followed
    deeper = any(reorder_of(x) is not None for x in walk_terms(inner) if x.op in ('call', 'attr'))
    recognised = layout is not None and sum_last and len(subs) == 1 and not deeper and ('unknown',) not in reorders

    def apply(labels, ro):
        n_ = len(labels)
        def ax(a):
            if not -n_ <= a < n_:
                raise IndexError(a)
            return a % n_
        if ro[0] == 'reverse':
            return labels[::-1]
        if ro[0] == 'perm':
            if sorted(ax(a) for a in ro[1]) != list(range(n_)):
                raise IndexError(ro[1])
            return [labels[ax(a)] for a in ro[1]]
        if ro[0] == 'swap':
            a, b = (tuple(ro[1]) * 2)[:2]
            out = list(labels)
            out[ax(a)], out[ax(b)] = out[ax(b)], out[ax(a)]
            return out
        if ro[0] == 'move':
            out = list(labels)
            x = out.pop(ax(ro[1]))
            out.insert(ax(ro[2]), x)
            return out
        if ro[0] == 'roll':
            a, st = ax(ro[1]), ro[2]
            st = st + n_ if st < 0 else st
            if not 0 <= st <= n_:
                raise IndexError(st)
            out = list(labels)
            x = out[a]
            out[a] = None
            out.insert(st, x)
            out.remove(None)
            return out
        raise IndexError(ro)
    ok = False
    got = []
    if recognised:
        ok = neg and sum_axis == -1
        # the score of K x K classes (no independent axis) and of one independent axis, as the aligners pass it
        for nb in (0, 1):
            labels = (['estimate', 'reference'] if layout == 'mr' else ['reference', 'estimate']) + [f'independent{i}' for i in range(nb)]
            try:
                for ro in reversed(reorders):
                    labels = apply(labels, ro)
            except IndexError:
                labels = ['<raises>']
            got.append(labels)
            ok = ok and labels == [f'independent{i}' for i in range(nb)] + ['reference', 'estimate']
    # a distance accumulated over blocks of frames covers every frame exactly once: the block bounds are folded for vector lengths around the multiples of the block size
    g_e = g
    for L_ in [l for l in g_e.loops if l.kind == 'for']:
        sl = [x for e_ in g_e.events if e_.term is not None for x in walk_terms(e_.term) if x.op == 'slice' and
              any(y.op == 'elem' and y.args and y.args[0] is L_.iter for z in x.args if isinstance(z, T) for y in walk_terms(z))]
        seen_sl = []
        for x in sl:
            if not any(x is y for y in seen_sl):
                seen_sl.append(x)
        for x in seen_sl:
            from ..inteval import chunk_coverage
            consts_ = sorted({c_ for z in list(x.args) + [L_.iter] if isinstance(z, T) for y in walk_terms(z) for c_ in [const_val(y)]
                              if isinstance(c_, int) and not isinstance(c_, bool) and c_ > 1})
            ext_ = sorted({v for c_ in consts_ for v in (c_ - 1, c_, c_ + 1, 2 * c_ - 1, 2 * c_, 2 * c_ + 1) if 0 < v <= 20000} | {1, 2, 3})
            res = None
            for pn_ in ('mask', 'reference_mask'):
                res = chunk_coverage(L_.iter, x, ('shape', pn_, -1), ext_)
                if res is not None:
                    break
            if res is None:
                run.unresolved('ORIENT', '_ScoreMatrix.euclidean: a block-wise sum covers every frame once', fn.loc(getattr(x, 'node', None)), 'block bounds are not closed integer expressions of the vector length')
            else:
                run.check(res[0] is True, 'ORIENT', '_ScoreMatrix.euclidean: a block-wise sum covers every frame once', fn.loc(getattr(x, 'node', None)), '',
                          (f'for a vector axis of length {res[1]} the blocks leave out frames {res[2][:3]}{"..." if len(res[2]) > 3 else ""} ({len(res[2])} in all) and visit '
                           f'{len(res[3])} twice: rows that differ only there get distance 0') if res[0] is False else '', construct=f'ORIENT::{q}::block-coverage')
    expansion = None
    if not recognised:
        # |a - b|^2 written as |a|^2 + |b|^2 - 2 Re<a, b>: a difference of two large, nearly equal numbers for close rows
        for x in walk_terms(r):
            if x.op == 'binop' and x.args[0] == 'Sub':
                lhs, rhs = strip_views(x.args[1]), strip_views(x.args[2])
                crossing = [y for y in walk_terms(rhs) if (call_parts(y)[0] or '') in ('method:multiply', 'numpy.einsum', 'numpy.matmul', 'numpy.dot', 'numpy.tensordot', 'numpy.inner')
                            or (y.op == 'binop' and y.args[0] == 'MatMult')]
                if crossing and data_derives(rhs, 'mask') and data_derives(rhs, 'reference_mask') and lhs.op == 'binop' and lhs.args[0] == 'Add' \
                        and data_derives(lhs, 'mask') and data_derives(lhs, 'reference_mask'):
                    expansion = x
                    break
    if expansion is not None:
        from ..walk import norm_stmt
        run.violation('ORIENT', '_ScoreMatrix.euclidean: the distance is the norm of the row difference', fn.loc(getattr(expansion, 'node', None)),
                      f'`{norm_stmt(expansion.node) if getattr(expansion, "node", None) is not None else "|a|^2 + |b|^2 - 2<a, b>"}` takes the squared distance as |a|^2 + |b|^2 - 2<a, b>: '
                      f'for two distinct but close rows this is a difference of nearly equal numbers with absolute error eps * |row|^2 - their distance comes out as 0 or rounding noise '
                      f'and is no longer separated from an exact match; the norm of the difference is exact', construct=f'ORIENT::{q}::distance-by-expansion')
    elif not recognised:
        run.unresolved('ORIENT', '_ScoreMatrix.euclidean: negative distance, rows = reference after the transpose', fn.loc(), why)
    else:
        run.check(ok, 'ORIENT', '_ScoreMatrix.euclidean: negative distance, rows = reference after the transpose', fn.loc(), '',
                  f'the score comes out with axes {" / ".join("[" + ", ".join(g_) + "]" for g_ in got)} (without / with one independent axis)'
                  f'{"" if neg else ", and not negated"}{"" if not recognised or sum_axis == -1 else f", and the squared differences are summed over axis {sum_axis} instead of the time axis -1"}'
                  f': it must be the NEGATIVE distance over time laid out [independent..., reference, estimate]', construct=f'ORIENT::{q}::layout')
    # oracle passes (mask, reference_mask)
    q = P + 'OraclePermutationAlignment.calculate_mapping'
    fn = A.prog.func(q)
    g = A.graphs.get(fn)
    calls = [e.term for e in g.events if e.kind == 'call' and e.term.args[0].op == 'attr' and e.term.args[0].args[1] == 'get_score_matrix']
    ok = bool(calls) and all(strip_views(call_arg(c, 1)).op == 'param' and strip_views(call_arg(c, 1)).args[0] == 'mask' and
                             strip_views(call_arg(c, 2)).op == 'param' and strip_views(call_arg(c, 2)).args[0] == 'reference_mask' for c in calls)
    run.check(ok, 'ORIENT', 'Oracle aligner: score matrix of (mask, reference_mask)', fn.loc(), '', 'the metric is not called as get_score_matrix(mask, reference_mask)', construct=f'ORIENT::{q}::arguments')
    r = [strip_views(x) for x in ret_alts(g)]
    ok2 = len(r) == 1 and call_parts(r[0])[0] == P + '_mapping_from_score_matrix' and bool(calls) and strip_views(call_arg(r[0], 0)) is calls[0] \
        and call_arg(r[0], 1) is not None and strip_views(call_arg(r[0], 1)).op == 'attr' and strip_views(call_arg(r[0], 1)).args[1] == 'algorithm'
    run.check(ok2, 'ORIENT', 'Oracle aligner: assignment of that score matrix with the configured algorithm', fn.loc(), '', 'mapping is not _mapping_from_score_matrix(score_matrix, self.algorithm)',
              construct=f'ORIENT::{q}::assignment')
    run.floor('score metrics checked', n, 2)


def check_cos_scale_free(run, A):
    """R-NORM: the 'cos' score compares directions.  With both arguments RAW (carrying the taint of their own scale), the score returned by
    _ScoreMatrix.cos must be free of that taint, i.e. both are divided by their exact norm (`x / max(||x||, tiny)`: the floor only guards
    0 / 0).  A floor inside the supported dynamic range (machine eps, 1e-10, ...) leaves faint rows un-normalised: their scores are
    rounded away against the score of an active row and the 'optimal' search ties towards the identity - the reference is not restored."""
    from .c04 import raw_param, scale_taint
    q = P + '_ScoreMatrix.cos'
    fn = A.prog.func(q)
    ev = A.fresh_evaluator()
    over = {}
    for p_ in ('mask', 'reference_mask'):
        if p_ not in fn.params:
            raise AnalysisError(f'{q}: parameter {p_} vanished')
        over[p_] = raw_param(ev, fn, p_)
    ctx = ev.entry(fn, overrides=over)
    if ctx.result is None:
        raise AnalysisError(f'{q}: no result')
    # ... along TIME: what reaches the inner product is unit norm along the last axis (a normalisation over the class or frequency axis also
    # removes the global scale, but the score is then no cosine between activity patterns)
    from ..walk import callee_func
    mul = [cf for cf in ctx.callfacts if callee_func(cf) is not None and callee_func(cf).name == 'multiply']
    if not mul:
        raise AnalysisError(f'{q}: the call of the inner-product metric is not resolved')
    for cf in mul:
        bad = [k for k, v in cf.args.items() if k in ('mask', 'reference_mask') and v.norm != ('UNIT', -1)]
        run.check(not bad, 'R-NORM', '_ScoreMatrix.cos: both arguments are unit norm along time when they reach the inner product', fn.loc(cf.term.node), '',
                  f'{bad} reach(es) _ScoreMatrix.multiply not normalised along the time axis (-1)', construct=f'R-NORM::{q}::unit-along-time')
    if not all(('param', p_) in ctx.result.deps for p_ in over):
        raise AnalysisError(f'{q}: the dependence of the score on its arguments is not resolved')
    leaks = scale_taint(ctx.result)
    run.check(not leaks, 'R-NORM', "_ScoreMatrix.cos: the score is free of the scale of either argument's rows", fn.loc(), 'both arguments are exactly normalised along time',
              f'the cos score still depends on the magnitude of {sorted(str(x[1]) for x in leaks)}: the rows are not divided by their exact norm (a floor above finfo.tiny is not a normaliser)',
              construct=f'R-NORM::{q}::scale-free')


def check(run):
    A = run.A
    from ..opt import check_block_partitions
    check_block_partitions(run, A, ('pb_bss.permutation_alignment',))
    run.explanation = (
        'Optimality clause: the brute-force branch of _mapping_from_score_matrix is a complete strict arg-max over permutations(range(K)) of sum_k score[k, perm[k]] (same rule '
        'instance as C14). Inversion clause, structural part: all three score metrics are oriented rows = reference / columns = estimate, the assignment maps row -> column, '
        'apply_mapping gathers the estimate rows by it, the oracle aligner wires (mask, reference_mask) accordingly. Exact inversion for every permutation field and greedy <= optimal '
        'numerics are not decided.')
    run.trusted = ['itertools.permutations enumerates all permutations']
    c14.check_optimal_and_inline_pa(run, A)
    c14.check_greedy(run, A)
    c14.check_apply_mapping(run, A)
    check_orientation(run, A)
    check_cos_scale_free(run, A)
