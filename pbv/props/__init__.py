"""Registry of implemented property checks (id -> manifest texts)."""

META = {
    'C01': dict(
        technique='static analysis: interprocedural dependence (provenance) analysis + term-graph pattern rules (class-axis agreement, ordering) + sign analysis of denominators',
        level='Structural necessary conditions of the posterior clause are decided on every run for all 7 mixture models, the inline-PA E-step and all initialisers: '
              'which stored parameters reach the weight / log-pdf arguments of the one shared posterior routine, that the routine max-shifts, weights, masks, floors and '
              'normalises over the class axis in that order, that weights and initial affiliations are normalised over the class axis, fit_predict = predict(fit()), and that '
              'every data-dependent denominator / log argument on these paths is positive, a class mass, or explicitly licensed. Not a proof of numeric validity of the values. '
              'Added after seeding / survey: the posterior returned by fit_predict is the unclipped one (the training clip constant does not reach the final predict).',
        note='Trusted: documented class axis (-2), numpy semantics table, licence table for denominators justified by "every class has non-zero mass". '
             'Not decided: finite-ness for extreme magnitudes inside norm/eigh, equality with an independent Bayes evaluation.',
        design='DESIGN.md section 3 (C01)'),
    'C04': dict(
        technique='static analysis: forward context-sensitive unit-norm typestate (abstract interpretation over gated-SSA term graphs)',
        level='For all 25 public entry methods of the directional families and all paths through their private callees, the observation reaches each of the 7 scale-dependent '
              'sinks with unit norm along the axis the sink expects; only exact normalisers count. This is the mechanism that makes the models depend on direction only; '
              'rounding-level invariance of numbers is not decided. A buffer normalised in place block by block (through views, pieces of np.array_split) is of unit norm when the blocks cover the axis (folded), otherwise its typestate is lost - undecided, not RAW.',
        note='Trusted: sink table, normaliser idioms, numpy axis semantics table. Watson/Bingham log_pdf are sinks themselves (densities on the sphere).',
        design='DESIGN.md section 3 (C04)'),
    'C20': dict(
        technique='static analysis: may-alias + in-place effect analysis over the call tree of every public callable; hidden-state and nondeterminism rules; definite assignment per initialisation kind',
        level='Every public callable of the mixture, beamforming, masking, alignment, metric, initializer and solve modules (180 on the pinned tree) is analysed with its callees: no in-place '
              'effect may reach memory aliasing a parameter or stored field (set_snr excepted); no global/class-attribute writes; lazily set trainer attributes follow the '
              '`is None` + assert protocol; random numbers only when initialization is None; a cACGMM fit continued from a model starts with the E-step and has all M-step inputs assigned. '
              'Decides necessary conditions, not bit-exact reproducibility. '
              'Also: the dimension a stateful trainer remembers / compares is the last axis of the observation. Also: an array returned by an lru_cache / cache function is storage shared between calls: no in-place effect reaches it. A public memoised function does not return writable arrays. Effects on lists / dicts are judged when the receiver is a parameter or a value taken out of **kwargs. ndarray.conj() / .conjugate() keep the alias of their operand unless it is known to be complex (they return the array itself for a real dtype). Also: a keyed store into a module-level table or into a table an object created empty is accepted only when the stored value is computed from the components of its key alone (a memo of a pure function); a value that depends on something the key ignores, an id() key or a rounded key are violations, a key that mentions an operand only through a shape or a part is undecided. Also (round 14): no in-place effect on a broadcast view (R-OVERLAP, shared with C06).',
        note='Trusted: numpy view/copy table; results of unmodelled library calls may alias any argument (reported as unresolved, never as a violation). Cython variants not analysed.',
        design='DESIGN.md section 3 (C20)'),
    'C02': dict(
        technique='static analysis: dependence analysis of log_likelihood, structural recognition of the EM loops (gated SSA), MM pairing of quadratic form and posterior',
        level='Necessary conditions of monotone EM are decided: the reported log-likelihood includes the stored weights and is a class-axis log-sum of the component log-pdf; '
              'in the three cACG-based trainers the surrogate weight and the posterior stem from the same E-step call per iteration (aligner applied to both, ones at the start); '
              'weight and component updates use the same saliency-weighted affiliation; the E-step uses the model\'s own weights; Gaussian/cACG densities have the right structure. '
              'Monotonicity along trajectories (a numerical statement) is NOT decided. Also: no parameter is assigned to an existing model instance whose __post_init__ cached quantities of the old one (R-FROZEN). Also: an M-step sum accumulated block by block over the observations takes every observation (R-COVER: block bounds folded for extents around the block size).',
        note='Trusted: MM derivation of the cACG update, class axis -2. Shares rule instances with C01, C07, C08.',
        design='DESIGN.md section 3 (C02)'),
    'C03': dict(
        technique='static analysis: einsum contraction-structure rules, eigenpair-selection direction (R-SEL), signed-term linearisation of log_pdf (R-LIN)',
        level='The orientation conditions whose inversion destroys the class ranking while keeping shapes are decided: reciprocal eigenvalues and U diag U^H structure of the cACG '
              'quadratic form, principal (last) eigh eigenpair on the eigenvector column axis, signs of concentration / normaliser / determinant terms, row-index whitening, '
              'exponent-weighted additive streams. The fixed-point behaviour itself is not decided. Also: a loop over the extent of a matrix stack uses its index (the partial scipy solver of get_pca does not and is dormant: off by default, never switched on in the package). Also: the scatter matrices the complex component trainers decompose put the conjugated factor on the second index (shared with C08); block-wise loops cover their axis (R-COVER).',
        note='Trusted: numpy.linalg.eigh ascending order, scikit-learn precision Cholesky contract, density definitions.',
        design='DESIGN.md section 3 (C03)'),
    'C07': dict(
        technique='static analysis: signed-term linearisation of return expressions through reaching definitions (R-LIN) + einsum contraction-structure rules (R-EIN)',
        level='For all 8 distribution classes the linearised log_pdf / log-normaliser is checked atom by atom (sign, numeric coefficient, symbolic factors D, kappa, 1/2, Bessel order, '
              '1F1 arguments, sphere-area factor, partial-fraction form) and every quadratic / inner-product form on its contraction structure (conjugation, row index of the '
              'precision Cholesky factor, per-feature scaling, reciprocal eigenvalues); the Bingham duplicate-eigenvalue spreading uses an absolute positive gap. Numerical values of special functions and integration to one are NOT decided. Also: no returned log-density of the complex families is complex-typed (R-REAL). Also (round 14): a quantity cached at construction (precision Cholesky factor, log-determinant) cannot be set apart from the covariance: it is not a conditionally assigned constructor argument (R-DERIVED).',
        note='Trusted: density definitions, scikit-learn factor contract Sigma^-1 = P P^T. An unrecognised atom is unresolved (floor on recognised atoms), never an alarm.',
        design='DESIGN.md section 3 (C07)'),
    'C08': dict(
        technique='static analysis: structural recognition of EM loops on gated-SSA graphs (R-LOOP), interprocedural dependence analysis of M-steps (R-DEP), sibling agreement (R-SIB), einsum structure of estimators',
        level='The alternation clause is decided structurally for all 7 trainers (range(iterations), one unconditional M-step bound to the returned variable, one E-step on the current '
              'model under `model is not None` before it, aligner only in between, affiliation flow); saliency / weight_constant_axis / affiliation_eps plumbing for all 7 M-steps; '
              'fit_predict forwards every option by name; weighted estimators contract the shared observation index and divide by the saliency mass; Tyler weight and factor D; vMF clipping; '
              'principal eigenpair. Closeness to the defining formulas / convergence are NOT decided. '
              'Also: Hermitian scatter (one conj) in the complex estimators, default saliency = ones / given saliency kept, vMF concentration r(D - r^2)/(1 - r^2) and mean resultant length in rational normal form, one gather by one mapping for posterior and quadratic form in the inline alignment. Also (text-level survey): per alternative of the subscript string the saliency mass gets exactly the axes the statistic keeps, every summed feature axis is counted in the normaliser, and option string / model class / kept axes of GaussianTrainer._fit belong together; the inline alignment is a typestate (one gather, on the (K, F, T) layout, returned as (F, K, T)).',
        note='Trusted: parameter naming of the estimators. Shares rule instances with C01-C03.',
        design='DESIGN.md section 3 (C08)'),
    'C10': dict(
        technique='static analysis: einsum contraction-structure rules, axis/guard pattern rules, may-alias in-place analysis, library-API existence check',
        level='The defining sum of the PSD estimate is decided structurally for all three contractions (time index shared and summed, conjugate on the second sensor factor, source '
              'index first), the mask normalisation (time axis parameter, positive floor, only under normalize), the frame-count normaliser, the defensive copy (no in-place effect reaches '
              'mask / observation), existence of every numpy attribute used (boolean-mask conversion), the roll guard and the form of condition_covariance. '
              'PSD-ness and numeric layout equivalence are NOT decided. '
              'Every division of the mask by a mask-derived quantity is the floored time-axis sum. Also: every contraction operand goes back to the caller\'s array through exactly one reordering to (..., sensor_dim, time_dim) resp. (..., source_dim, time_dim). (a recognised spelling, or - for any chain of pure reorderings with closed axis arithmetic - on every point of ranks 2..4 x all axis assignments, folded by pbv/inteval.py).',
        note='Trusted: the defining formula in the property statement, numpy semantics table; numpy is imported only to resolve attribute names.',
        design='DESIGN.md section 3 (C10)'),
    'C11': dict(
        technique='static analysis: operand-role rules on term graphs, einsum sesquilinear structure, arg-max direction, abstract shapes for the NumPy>=2 solve contract',
        level='Roles of every operand of solve / stable_solve / trace / column selection in MVDR, Souden MVDR, WMWF, LCMV and the reference-channel criterion, exactly-one-conjugate '
              'inner products, arg-MAX of target-over-noise SNR, and that stacks of steering vectors reach numpy.linalg.solve as explicit column matrices. '
              'Optimality inequalities and scaling invariances are NOT decided. '
              'Also: a channel selection vector contracts the column index of the WMWF filter matrix. Also: the automatic reference channel is ranked on the matrix whose column is returned. Also: every alternative of the MVDR numerator comes out of a solver; a hand-written two-sensor closed form is compared with adj(Phi) a as a polynomial identity.',
        note='Trusted: NumPy >= 2 semantics of linalg.solve, documented argument shapes.',
        design='DESIGN.md section 3 (C11)'),
    'C12': dict(
        technique='static analysis: eigenpair-selection direction (R-SEL), operand roles, einsum structure, shape of scaling factors',
        level='eigh(target, noise) argument order, arg-max eigenvalue column / last pair of the ascending eigh, outer products with the conjugate on the second factor rescaled by '
              'tr(Phi)/tr(a a^H), Phi_nn w contracting the column index, both BAN chains and the (..., 1)-shaped absolute gain. Maximality of Rayleigh quotients is NOT decided; '
              'Cython variants are not analysed. '
              'Also: BAN gain = sqrt(two-factor form) / magnitude of the one-factor form, in either operand order, np.divide(where=) or masked assignment. Also: the option string \'trace\' / \'eigenvalue\' selects the gain of that name. Also: a transposed Cholesky / eigenvector factor used as the coefficient of a solver carries a conjugation (R-HERM). Also: the vector get_pca_vector scales is the eigenvector itself (no np.sign factor). Also: a stack decomposed block by block visits the last partial block (R-COVER).',
        note='Trusted: scipy.linalg.eigh(a, b) convention, numpy eigh ordering.',
        design='DESIGN.md section 3 (C12)'),
    'C13': dict(
        technique='static analysis: partial evaluation of the wrapper on every accepted name (constant propagation + branch pruning), literal-axis rule for (..., ) functions, index-local loop rule',
        level='For all 12 names x {plain, +ban} plus chN: the primitives called, their order, the slots they are chained through and the returned value equal the composition the name spells. '
              'apply_beamforming_vector contracts conj(w) with the sensor axis; every literal axis in (..., )-documented beamforming functions counts from the right (phase_correction: -2); '
              'stable_solve falls back per matrix, index-local; MVDR solves stacks as columns. Finite-ness on singular input is NOT decided. '
              'Also: phase_correction rotates bin f by the phase of w_f^H w_{f-1} summed over sensors and accumulates phasors by a product; every data reduction in the per-index helpers names its axis. Also: every array indexed by the flat loop index of stable_solve is a stack flattened to 3-D; no dropped clamp in the beamformer modules. Also: the helpers that pick their own reference channel rank the columns of the matrix they return a column of (shared with C11). Also: _get_gev_vector / get_lcmv_vector name the axis of every data reduction that is not taken of the current element of a loop over the leading index. Also: an axis computed from the rank of another array (R-ELL foreign rank: violation / undecided); block-wise loops cover their axis (R-COVER).',
        note='Trusted: the naming convention of the wrapper itself; exceptions table for front-broadcast / fixed-layout axes.',
        design='DESIGN.md section 3 (C13)'),
    'C14': dict(
        technique='static analysis: permutation-provenance rules on term graphs (R-PERM), AST idiom recognisers for the exhaustive arg-max and greedy retire loops (R-SEL c/d)',
        level='apply_mapping is a pure gather; the inline EM alignment is value preserving with one mapping for affiliation and quadratic form; calculate_mapping of all three aligners '
              'returns columns of permutation provenance; the greedy assignment meets the retire premises (K arg-max picks over a view-consistent, on every path C-contiguous copy, chosen row AND column retired with -inf, '
              'row -> column, after the finiteness guard); both exhaustive searches enumerate every permutation of the full class count with a strict arg-max from -inf, paired update, no early exit. The inline EM alignment is decided as a typestate: each returned stream is its input, gathered by the mapping exactly once on the aligner\'s layout and returned in the caller\'s.',
        note='Assumption: integer score matrices never contain iinfo.min. Trusted: semantics of itertools.permutations and numpy advanced indexing.',
        design='DESIGN.md section 3 (C14)'),
    'C15': dict(
        technique='static analysis: exhaustive arg-max loop recogniser (R-SEL c) + orientation typing of score matrices (einsum structure, transposes, argument order)',
        level='Optimality clause: complete strict arg-max enumeration with objective sum_k score[k, perm[k]]. Inversion clause, structural part: all score metrics are rows = reference / '
              'columns = estimate, assignment maps row -> column, apply_mapping gathers the estimate, the oracle wires (mask, reference_mask) and its configured algorithm; the cos score is free of the scale of its arguments (exact normalisers only). The euclidean score is the negative norm of the row difference, laid out [independent..., reference, estimate] (axis labels followed through every pure reordering; the expansion |a|^2+|b|^2-2<a,b> is a deviation). multiply returns the signed contraction itself. A block-wise sum of the distance covers every frame exactly once (bounds folded around the multiples of the block size). '
              'Exact inversion for every permutation field is NOT decided.',
        note='Shares rule instances with C14.',
        design='DESIGN.md section 3 (C15)'),
    'C16': dict(
        technique='static analysis: paired-update and composition-chain rules on term graphs (net-reordering clause) + exhaustive enumeration of the branch outcomes of '
                  'alignment_plan (band-edge condition of plan coverage)',
        level='Only the net-reordering clause is claimed: DHTV applies each per-bin permutation with the same index vector, bin and guard to features and mapping (identity start, self-gather only, '
              'on a copy, centroid from the current features); the greedy aligner composes adjacent-bin assignments with the composed predecessor in increasing f from an identity column. '
              'Of plan coverage only a necessary condition is decided: for every outcome of the branch conditions of alignment_plan some segment is stretched to each band edge (0 and F). '
              'Recovery of a consistent order, identity on consistent masks and full plan coverage are NOT decided (no sound static argument in reach). '
              'Also decided: the bins re-assigned in a DHTV segment are the bins its centroid was averaged over, cosine features are normalised over time, every planned segment spans segment_width bins. Also: under \'cos\' neither the bin\'s features nor the centroid reach the per-bin score without the time normaliser. Also: the centroid is not written into a buffer of the dtype of the mask (R-DTYPE). Also: the loop over the passes of a segment runs as often as the plan says.',
        note='The behavioural clauses of C16 quantify over all masks / all plan configurations; see DESIGN.md section 6.',
        design='DESIGN.md section 3 (C16)'),
    'C05': dict(
        technique='static analysis: named-axis shape domain (abstract interpretation) + class-axis parametricity rules',
        level='With abstract shapes for every array in the 7 mixture models / trainers and mixture_model_utils: no integer literal on a class axis (shape templates excepted), no loop or '
              'branch over class indices, only symmetric reductions over the class axis, per-class work broadcast over an explicitly inserted class axis (14 sites). '
              'A loop over class indices is accepted only as a symmetric accumulation of the k-th slice; no flat index (np.take without axis, .item) into a stacked array anywhere in the distribution modules. '
              'Rounding-level equality of relabelled runs is NOT decided; arg-max ties in the inline-PA search are a recorded order dependence.',
        note='Trusted: documented class axis labels (K / k / num_classes) in docstrings, shape unpackings and einsum subscripts; unresolved shapes are counted, never flagged.',
        design='DESIGN.md section 3 (C05)'),
    'C06': dict(
        technique='static analysis: literal-axis rule, flatten/restore typestate on term graphs, index-local loop rule, constructor-arity rule, einsum field-rank rule',
        level='For every `...`-documented distribution / mixture function: literal axes count from the right, axis-less reductions only in listed scalar idioms; every escaping value of a '
              'function that flattens leading axes passes a reshape derived from the original shape; the Bingham per-problem loop is index-local; numpy constructors get one shape argument; '
              'stored fields get no more einsum core letters than documented. Numeric equality of slices is NOT decided. '
              'Also: no layout-dependent flattening (order=K / A), np.squeeze names its axis. Also: an axis computed from the rank of an array the operand is not tied to is a violation (foreign parameter) or undecided (broadcast partner). Also: a memo table of the Bingham trainer filled inside the per-problem loop must store values that are a function of their key (shared rule of C20). Also (round 14): no in-place effect lands on a broadcast view (np.broadcast_to / broadcast_arrays results are tagged in the alias domain; R-OVERLAP).',
        note='Trusted: field comments / docstring shapes; the fixed-layout (F, K, T) integration models are excluded by their own contract.',
        design='DESIGN.md section 3 (C06)'),
    'C09': dict(
        technique='static analysis: sanitiser-dominance rules on term graphs (R-SAN)',
        level='Each parameter stored in a fitted model is the value of its documented sanitiser with the documented bounds as operands (vMF clip and floored-norm mean, Watson saturating '
              'spline, cACG max-normalisation + floor + finiteness assert + Hermitian scatter, Bingham bounded solver + floor + Hermitian scatter, uniform / L1-normalised weights, floored '
              'Gaussian mass, Cholesky at construction). NaN-freeness on arbitrary degenerate data is NOT decided. '
              'Also: a relative eigenvalue floor is relative to the largest eigenvalue. Also: no statement-level floor / clamp is computed and dropped (R-DROP). Also: a python-float floor below float32 tiny is not a positive floor (it is 0.0 against single-precision data). Also: np.linalg.eig in from_covariance only as the fallback of an exception handler. Also: the options that select / bound the sanitisers (covariance_norm, eigenvalue_floor, concentration bounds) are handed on to the component trainer that applies them (R-FWD).',
        note='Trusted: sanitiser-per-field table from the documentation.',
        design='DESIGN.md section 3 (C09)'),
    'C18': dict(
        technique='static analysis: axis-parametricity rule, form rules on term graphs, integer typing of shape arithmetic, may-alias in-place analysis',
        level='Every axis-consuming call in the 9 mask functions takes its axis from a parameter (literals only on the restored 2-D working array); binary / ratio / amplitude / phase-sensitive / '
              'complex masks have their defining form with the sum over source_axis; eps defaults are positive also in single precision; flatten dimensions are integers; quantile direction per sign; no caller mutation. '
              'Threshold semantics on values and ties are NOT decided. Also: what the quantile mask ranks and compares are magnitudes (no path from the signal avoids abs). Also: axes are moved back to the positions named by the caller only on an array of the rank they were given for (not on a stack of results). Also: the working shape is (prod(shape[:-n]), prod(shape[-n:])), the destination axes are {-1..-n}, the row loop runs over the independent slices, and the returned mask has a data path to the VALUES of the signal. The Lorenz mask compares the power with the threshold power (no selection by sort rank).',
        note='Trusted: mask definitions in the statement; sibling lorenz_mask as reference idiom.',
        design='DESIGN.md section 3 (C18)'),
    'C19': dict(
        technique='static analysis: term identity rules for the power decomposition, AST idioms for self exclusion, constant-domain specialisation for the return_dict protocol, literal-axis rule',
        level='Both SXR functions compute _sxr(S, I+N), _sxr(S, I), _sxr(S, N) with identical S and the first denominator the sum of the others (for the pure ratio _sxr); own-source exclusion; input_sxr pools the sensors in the power domain (operands of _sxr are sensor means under average_channels, dB values are reduced over the source axis only); '
              'complete enumeration + arg-MAX output selection; return_dict True / prefix / False specialisations return dict / dict / tuple for both siblings; si_sdr reduces over -1 only with the '
              'projection form; set_snr exponent. dB values and scaling laws as numbers are NOT decided. '
              'Also: power helper = mean |X|^2 over the axis parameter, set_snr multiplies the noise by the factor measured with keepdims over the same axis, the captured power is evaluated for every enumerated selection. Also: SDR, SIR and SNR go through the same post-processing after _sxr. Also: the interference is a SUM of the powers of the other sources, not total minus own (cancellation). Also: every power of the SXR functions is taken over the last (time) axis. Also: the entries that are averaged over the sources are not selected by the value of the ratio itself.',
        note='Trusted: metric definitions in the statement.',
        design='DESIGN.md section 3 (C19)'),
}

ALL = sorted(META)
