"""Registry of implemented property checks (id -> manifest texts)."""

META = {
    'C01': dict(
        technique='static analysis: interprocedural dependence (provenance) analysis + term-graph pattern rules (class-axis agreement, ordering) + sign analysis of denominators',
        level='Structural necessary conditions of the posterior clause are decided on every run for all 7 mixture models, the inline-PA E-step and all initialisers: '
              'which stored parameters reach the weight / log-pdf arguments of the one shared posterior routine, that the routine max-shifts, weights, masks, floors and '
              'normalises over the class axis in that order, that weights and initial affiliations are normalised over the class axis, fit_predict = predict(fit()), and that '
              'every data-dependent denominator / log argument on these paths is positive, a class mass, or explicitly licensed. Not a proof of numeric validity of the values.',
        note='Trusted: documented class axis (-2), numpy semantics table, licence table for denominators justified by "every class has non-zero mass". '
             'Not decided: finite-ness for extreme magnitudes inside norm/eigh, equality with an independent Bayes evaluation.',
        design='DESIGN.md section 3 (C01)'),
    'C04': dict(
        technique='static analysis: forward context-sensitive unit-norm typestate (abstract interpretation over gated-SSA term graphs)',
        level='For all 25 public entry methods of the directional families and all paths through their private callees, the observation reaches each of the 7 scale-dependent '
              'sinks with unit norm along the axis the sink expects; only exact normalisers count. This is the mechanism that makes the models depend on direction only; '
              'rounding-level invariance of numbers is not decided.',
        note='Trusted: sink table, normaliser idioms, numpy axis semantics table. Watson/Bingham log_pdf are sinks themselves (densities on the sphere).',
        design='DESIGN.md section 3 (C04)'),
    'C20': dict(
        technique='static analysis: may-alias + in-place effect analysis over the call tree of every public callable; hidden-state and nondeterminism rules; definite assignment per initialisation kind',
        level='Every public callable of the mixture, beamforming, masking, alignment, metric, initializer and solve modules (180 on the pinned tree) is analysed with its callees: no in-place '
              'effect may reach memory aliasing a parameter or stored field (set_snr excepted); no global/class-attribute writes; lazily set trainer attributes follow the '
              '`is None` + assert protocol; random numbers only when initialization is None; a cACGMM fit continued from a model starts with the E-step and has all M-step inputs assigned. '
              'Decides necessary conditions, not bit-exact reproducibility.',
        note='Trusted: numpy view/copy table; results of unmodelled library calls may alias any argument (reported as unresolved, never as a violation). Cython variants not analysed.',
        design='DESIGN.md section 3 (C20)'),
}

ALL = sorted(META)
