"""C08 - trainers return the documented weighted estimators and EM alternates them.

  R-LOOP  (7 loops) n iterations = n alternations: iteration over range(iterations); exactly one unconditional
          M-step per iteration bound to the returned variable; one E-step on the current model guarded by
          `model is not None` only, before the M-step; optional aligner in between; the affiliation handed to the
          M-step is this iteration's E-step result (or the initial affiliation in the first iteration).
  R-DEP   (7 _m_step) saliency reaches the weight update and the component update as a factor of the
          affiliation; weight_constant_axis reaches the weight update; affiliation_eps reaches the posterior
          clip or is asserted 0; every fit option is used.
  R-SIB   fit_predict has fit's parameters and forwards each under its own name.
  R-EIN   weighted scatter / resultant contractions share the observation index with the saliency operand
          and are normalised by the sum of the same saliency; cACG Tyler update has the factor D and the
          quotient saliency / quadratic_form.
  R-SEL / R-SAN  principal eigenpair for Watson; vMF concentration is clipped to [min, max].
"""
import ast

from ..model import AnalysisError
from ..terms import T, walk_terms
from ..absint import AV, TOP, cav
from ..walk import (dead_leaf, call_parts, call_arg, is_call_to, const_val, NOVAL, strip_views, unwrap_gamma, callee_func, callee_name,
                    call_paths, is_conj, same_value, norm_stmt, gamma_paths, compatible, newaxis_insertions, shape_dim, selected_options)
from .. import loop as LP
from .. import ein, sel

D = 'pb_bss.distribution.'
MMU = D + 'mixture_model_utils::'


def mentions(t, target):
    return any(x is target for x in walk_terms(t, into_mu=False))


def check_alternation(run, A):
    n = 0
    for cname in LP.TRAINERS:
        L = LP.recognise(A, cname)
        fn = L.fn
        short = fn.qual.split('::')[1]
        n += 1
        # a first (or last) alternation written out in front of / behind the loop (`model = m_step(init); for _ in range(iterations - 1): ...`): n alternations may still be made,
        # but the shape the rules below read - everything inside one loop over range(iterations) - is not there: undecided, not a deviation
        g0 = A.graphs.get(fn)
        in_loop = {id(e_) for e_ in L.loop.body_events}
        def step_name(e_):
            nm = call_parts(e_.term)[0] if (e_.kind == 'call' and e_.term is not None and e_.term.op == 'call') else None
            return (nm or '').split('.')[-1].split(':')[-1]
        peeled = [e_ for e_ in g0.events if id(e_) not in in_loop and step_name(e_) in ('_m_step', '_e_step', '_predict') and step_name(e_) == step_name(L.m_event)]
        if peeled and L.range_ok is False:
            run.unresolved('R-LOOP', f'{short}: n iterations are n alternations of E-step and M-step', fn.loc(peeled[0].node),
                           f'`{norm_stmt(peeled[0].node)[:80]}`: an M-step stands outside the EM loop (a peeled iteration); the alternation is not in the one-loop form the rule reads')
            continue
        if L.range_ok is None:
            run.unresolved('R-LOOP', f'{short}: iterates over range(iterations)', fn.loc(L.loop.node), 'the iterable of the EM loop is not a range whose length can be folded')
        else:
            run.check(L.range_ok, 'R-LOOP', f'{short}: iterates over range(iterations)', fn.loc(L.loop.node), '',
                      'the EM loop does not run exactly `iterations` times (range(iterations) of the parameter)', construct=f'R-LOOP::{fn.qual}::range')
        g_ = A.graphs.get(fn)
        exits = [e for e in g_.events if e.kind == 'break' and L.loop in (e.loops or ())] if g_.events and hasattr(g_.events[0], 'loops') else \
            [e for e in g_.events if e.kind == 'break']
        run.check(not exits, 'R-LOOP', f'{short}: the EM loop has no early exit', fn.loc(exits[0].node) if exits else fn.loc(L.loop.node), '',
                  'a `break` ends the EM loop before `iterations` alternations were made (a fit of n iterations is no longer n alternations)', construct=f'R-LOOP::{fn.qual}::early-exit')
        run.check(not any(p[0] == 'return' for p in L.problems), 'R-LOOP', f'{short}: returns the last M-step result', fn.loc(), '',
                  'the function does not return the loop-carried model on every path', construct=f'R-LOOP::{fn.qual}::return')
        ok_m = not any(p[0] == 'm-step' for p in L.problems) and len(L.m_calls_in_loop) == 1
        run.check(ok_m, 'R-LOOP', f'{short}: exactly one unconditional M-step per iteration', fn.loc(L.m_call.node),
                  f'{L.m_name} called once', f'{len(L.m_calls_in_loop)} M-step call(s) per iteration, unconditional: {not any(p[0] == "m-step" for p in L.problems)}',
                  construct=f'R-LOOP::{fn.qual}::one-m-step')
        if L.m_event is not None:
            inner = LP.inner_guards(L, L.m_event)
            run.check(not inner, 'R-LOOP', f'{short}: M-step is unconditional', fn.loc(L.m_call.node), '', 'the M-step is executed under a condition',
                      construct=f'R-LOOP::{fn.qual}::m-step-guard')
        run.check(len(L.e_calls) == 1, 'R-LOOP', f'{short}: one E-step on the current model per iteration', fn.loc(L.loop.node), '',
                  f'{len(L.e_calls)} E-step calls on the model variable inside the loop', construct=f'R-LOOP::{fn.qual}::one-e-step')
        if not L.e_calls:
            continue
        e = L.e_calls[0]
        run.check(all(L.e_guard_ok), 'R-LOOP', f'{short}: E-step guarded by `model is not None` only', fn.loc(e.node), '',
                  'the E-step is skipped / executed under a different condition than `model is not None`', construct=f'R-LOOP::{fn.qual}::e-step-guard')
        if L.m_event is not None:
            run.check(e.seq < L.m_event.seq, 'R-LOOP', f'{short}: E-step precedes the M-step', fn.loc(e.node), '',
                      'the E-step comes after the M-step inside the iteration (the M-step would use a stale affiliation)', construct=f'R-LOOP::{fn.qual}::order')
        # the affiliation handed to the M-step
        aff = LP.m_step_arg(L, 'affiliation')
        if aff is None:
            run.unresolved('R-LOOP', f'{short}: affiliation argument of the M-step', fn.loc(L.m_call.node), 'keyword not found')
            continue
        ok, why = affiliation_structure(L, aff, e.term)
        run.check(ok, 'R-LOOP', f'{short}: M-step receives this iteration\'s posterior', fn.loc(L.m_call.node), '', why, construct=f'R-LOOP::{fn.qual}::affiliation-flow')
        # model starts as None (or the given model) so that the first iteration uses the initial affiliation
        inits = [strip_views(x) for x in unwrap_gamma(L.model_init)]
        ok_init = all((x.op == 'const' and x.args[0] is None) or (x.op == 'param' and x.args[0] == 'initialization') or dead_leaf(x) for x in inits)
        if L.peeled:
            # the first M-step in front of the loop works on the given initialisation
            a0 = LP.m_step_arg_of(L.first_m_call, 'affiliation')
            ok_init = a0 is not None and strip_views(a0).op == 'param' and strip_views(a0).args[0] == 'initialization'
        run.check(ok_init, 'R-LOOP', f'{short}: model variable starts as None / the given model', fn.loc(), '',
                  'the model variable is initialised with something else than None or the initialization argument', construct=f'R-LOOP::{fn.qual}::model-init')
        # the data term and the options of every M-step are the caller's own: the saliency reaches the M-step as given (or as the all-ones
        # default); a rescaled / re-weighted copy changes the pooled (weight-tied) estimates although each per-slice update is scale invariant
        sal = LP.m_step_arg(L, 'saliency')
        if sal is not None:
            bad = []
            for leaf in LP.value_sources(sal):
                x = strip_views(leaf)
                if x.op == 'param' and x.args[0] == 'saliency':
                    continue
                if x.op == 'const' and x.args[0] is None:
                    continue
                if is_call_to(x, 'numpy.ones', 'numpy.ones_like', 'numpy.broadcast_to'):
                    continue
                bad.append(x)
            run.check(not bad, 'R-DEP', f'{short}: the saliency reaches the M-step as given', fn.loc(getattr(bad[0], 'node', None)) if bad else fn.loc(), '',
                      f'`{norm_stmt(bad[0].node)[:90] if bad and getattr(bad[0], "node", None) is not None else ""}`: the saliency handed to the M-step is a transformed copy of the '
                      f'argument (rescaled / normalised per slice): sums that pool several slices (tied mixture weights) weight the slices differently',
                      construct=f'R-DEP::{fn.qual}::saliency-as-given')
    run.floor('EM loops recognised', n, 7)


def affiliation_structure(L, aff, e_call):
    """aff must be  gamma(model is not None ? <derived from e_call [through the aligner]> : <loop-head value>)  (or the mu carrying it)"""
    M = L.model_mu
    t = strip_views(aff)
    if L.peeled:
        # every iteration of the loop has a model: the affiliation is the (aligned) E-step result unconditionally
        x = strip_views(t.args[0]) if t.op == 'unpack' else t
        if x is e_call:
            return True, ''
        n_, pos_, kw_ = call_parts(x)
        if n_ == MMU + 'apply_inline_permutation_alignment':
            a0 = strip_views(kw_.get('affiliation', pos_[0] if pos_ else None))
            a0 = strip_views(a0.args[0]) if a0.op == 'unpack' else a0
            if a0 is e_call:
                return True, ''
        if t.op == 'gamma' and all(mentions(y, e_call) for y in unwrap_gamma(t)):
            return True, ''
        return False, 'in the peeled loop the M-step does not receive the E-step result of the same iteration'
    if t.op == 'mu' and t.next is not None and t.extra[0] is L.loop:
        # value defined before this M-step in the same iteration is the back-edge value only if the M-step came first
        return False, 'the M-step uses the affiliation of the previous iteration (loop-carried value), not the one computed in this iteration'
    if t.op != 'gamma':
        if mentions(t, e_call):
            return False, 'affiliation is taken from the E-step unconditionally'
        return False, 'affiliation handed to the M-step is not connected to the E-step'
    sp = LP.split_by_iteration(L, t)
    if sp is None:
        return False, 'affiliation is selected by a condition other than `model is not None`'
    then_b, else_b = sp
    leaves_then = unwrap_gamma(then_b)
    if not all(mentions(x, e_call) for x in leaves_then):
        return False, 'with a model present, the affiliation is not (derived from) the E-step result'
    for x in leaves_then:
        x = strip_views(x)
        # allowed shapes: E, unpack(E, i), aligner(E...), unpack(aligner(...), i)
        y = x.args[0] if x.op == 'unpack' else x
        y = strip_views(y)
        if y is e_call:
            continue
        n, pos, kw = call_parts(y)
        if n == MMU + 'apply_inline_permutation_alignment':
            a = kw.get('affiliation', pos[0] if pos else None)
            a0 = strip_views(a)
            a0 = strip_views(a0.args[0]) if a0.op == 'unpack' else a0
            if a0 is e_call:
                continue
        return False, f'the E-step result is transformed by something else than the inline aligner before the M-step ({n})'
    leaves_else = [strip_views(x) for x in unwrap_gamma(else_b)]
    def start_value(x):
        # the value carried into the loop, or a loop-invariant start value used directly in the first iteration
        if x.op == 'mu':
            return x.extra[0] is L.loop
        return not mentions(x, e_call) and not any(y.op in ('mu', 'elem') and (y.extra[0] if y.op == 'mu' else y.extra) is L.loop for y in walk_terms(x, into_mu=False))
    if not all(start_value(x) for x in leaves_else):
        return False, 'without a model, the affiliation is not the initial / carried value'
    return True, ''


def factor_degree(t, pname, depth=0):
    """how many times does parameter `pname` enter the product t as a factor (max over alternatives)"""
    t = strip_views(t)
    if depth > 30 or not isinstance(t, T):
        return 0
    if t.op == 'param':
        return 1 if t.args[0] == pname else 0
    if t.op == 'sub':
        return factor_degree(t.args[0], pname, depth + 1)
    if t.op in ('binop', 'iop') and t.args[0] == 'Mult':
        return factor_degree(t.args[1], pname, depth + 1) + factor_degree(t.args[2], pname, depth + 1)
    if t.op == 'gamma':
        return max(factor_degree(t.args[1], pname, depth + 1), factor_degree(t.args[2], pname, depth + 1))
    if t.op == 'const':
        return 0
    return 1 if any(x.op == 'param' and x.args[0] == pname for x in walk_terms(t, into_mu=False)) else 0


def check_aligner_guard(run, A):
    """R-LOOP: the optional inline aligner is applied exactly when one is given: the call of apply_inline_permutation_alignment(aligner=<p>) stands under
    `<p> is not None` (flipped, a trainer without an aligner dereferences None in every E-step and one with an aligner silently skips it)."""
    from ..walk import none_test
    n = 0
    for fn in A.prog.all_funcs():
        if not fn.mod.name.startswith(D) or fn.cls is None or not fn.cls.name.endswith('Trainer'):
            continue
        g = A.graphs.get(fn)
        for e in g.events:
            if e.kind != 'call' or call_parts(e.term)[0] != MMU + 'apply_inline_permutation_alignment':
                continue
            al = call_arg(e.term, None, 'aligner')
            if al is None:
                continue
            al0 = strip_views(al)
            n += 1
            given = False
            for c, pol in e.guards:
                x, is_none = none_test(c, pol)
                if x is not None and (x is al0 or (x.op == 'param' and al0.op == 'param' and x.args[0] == al0.args[0])) and is_none is False:
                    given = True
            run.check(given, 'R-LOOP', f'{fn.qual.split("::")[1]}: the inline aligner is applied exactly when one is given', fn.loc(e.term.node), '',
                      'the call of apply_inline_permutation_alignment is not guarded by `<aligner> is not None`', construct=f'R-LOOP::{fn.qual}::aligner-guard')
    run.floor('C08 guarded inline aligner calls', n, 3)


def check_default_saliency(run, A):
    """R-DEP: `saliency=None` means "every observation counts once".  Wherever a trainer replaces the missing saliency, the replacement is an array
    of ones and a given saliency is kept as it is (a zeros default / a flipped test silently removes all - or the caller's - observation weights)."""
    from ..walk import gamma_paths, none_test
    n = 0
    fns = []
    for cname, mod in LP.TRAINERS.items():
        cls = A.prog.cls(f'{D}{mod}::{cname}Trainer')
        fns += [m for nm, m in cls.methods.items() if nm in ('fit', '_fit') and 'saliency' in m.params]
    fns.append(A.prog.func(D + 'von_mises_fisher::VonMisesFisherTrainer._fit'))
    for fn in fns:
        g = A.graphs.get(fn)
        roots = [e.term for e in g.events if e.kind == 'call'] + [g.ret]
        seen = set()
        for r in roots:
            for t in walk_terms(r, into_mu=False):
                if t.op != 'gamma' or t.id in seen:
                    continue
                seen.add(t.id)
                x, is_none = none_test(t.args[0])
                if x is None or not (x.op == 'param' and x.args[0] == 'saliency'):
                    continue
                a, b = (t.args[1], t.args[2]) if is_none else (t.args[2], t.args[1])          # a: value when saliency is None, b: when given
                sa, sb = strip_views(a), strip_views(b)
                if not (sb.op == 'param' and sb.args[0] == 'saliency') and not (sa.op == 'param' and sa.args[0] == 'saliency'):
                    continue          # not the replacement idiom (e.g. masked_affiliation = affiliation if saliency is None else affiliation * saliency)
                n += 1
                ones = is_call_to(sa, 'numpy.ones_like', 'numpy.ones') or (const_val(sa) is not NOVAL and const_val(sa) == 1)
                kept = sb.op == 'param' and sb.args[0] == 'saliency'
                run.check(ones and kept, 'R-DEP', f'{fn.qual.split("::")[1]}: a missing saliency is replaced by ones, a given one is kept', fn.loc(t.node or sa.node), '',
                          f'replacement when saliency is None is an array of ones: {bool(ones)}; the given saliency is used unchanged: {kept}',
                          construct=f'R-DEP::{fn.qual}::default-saliency')
    run.floor('C08 default-saliency replacements', n, 7)


def check_plumbing(run, A):
    prog, ev = A.prog, A.ev
    n = 0
    for cname, mod in LP.TRAINERS.items():
        cls = prog.cls(f'{D}{mod}::{cname}Trainer')
        ms = cls.methods.get('_m_step')
        if ms is None:
            raise AnalysisError(f'{cls.qual}._m_step vanished')
        n += 1
        over = {}
        if 'saliency' in ms.params:
            over['saliency'] = ev.param_av(ms, 'saliency', kind=frozenset(['array']))
        ctx = ev.entry(ms, overrides=over)
        short = ms.qual.split('::')[1]
        comp_calls, weight_calls = [], []
        for cf in ctx.callfacts:
            f = callee_func(cf)
            if f is None:
                continue
            if f.name == '_fit' and f.cls is not None and f.cls.name.endswith('Trainer'):
                comp_calls.append(cf)
            if f.qual == MMU + 'estimate_mixture_weight':
                weight_calls.append(cf)
        if not comp_calls:
            raise AnalysisError(f'{ms.qual}: component update call not found')
        for cf in comp_calls:
            f = callee_func(cf)
            # the weight parameter of the component update: `saliency`, or (campaign 13: private keyword renamed at the helper and its call sites) the one
            # parameter of `_fit` that is neither the observation nor the quadratic form
            wp = 'saliency'
            if wp not in f.params:
                cand = [p_ for p_ in f.params if p_ not in ('self', 'cls', 'y', 'x', 'observation', 'quadratic_form')]
                wp = cand[0] if len(cand) == 1 else None
            s = cf.args.get(wp) if wp else None
            if s is None:
                run.unresolved('R-DEP', f'{short}: {f.cls.name}._fit is weighted by affiliation x saliency', cf.ctx.fn.loc(cf.term.node),
                               f'which argument of {f.cls.name}._fit carries the observation weights is not recognised (parameters {list(f.params)})')
                continue
            ok = s is not None and ('param', 'affiliation') in s.deps and ('param', 'saliency') in s.deps
            st = call_arg(cf.term, None, wp)
            if st is not None:
                dg = factor_degree(st, 'saliency')
                run.check(dg == 1, 'R-DEP', f'{short}: saliency enters the {f.cls.name} update exactly once', cf.ctx.fn.loc(cf.term.node), '',
                          f'observation weights of the component update contain the saliency {dg} times', construct=f'R-DEP::{ms.qual}::saliency-degree::{f.cls.name}')
            run.check(ok, 'R-DEP', f'{short}: {f.cls.name}._fit is weighted by affiliation x saliency', cf.ctx.fn.loc(cf.term.node), '',
                      f'observation weights of the component update depend on {sorted(map(str, s.deps)) if s is not None else None}; both the posterior and the saliency must enter',
                      construct=f'R-DEP::{ms.qual}::component-weights::{f.cls.name}')
            if 'quadratic_form' in cf.args and 'quadratic_form' in ms.params:
                qv = cf.args['quadratic_form']
                run.check(('param', 'quadratic_form') in qv.deps and ('param', 'affiliation') not in qv.deps, 'R-DEP', f'{short}: quadratic form handed through to the cACG update',
                          cf.ctx.fn.loc(cf.term.node), '', 'the cACG update does not receive the E-step quadratic form unchanged', construct=f'R-DEP::{ms.qual}::quadratic-form')
        # weight update
        if weight_calls:
            for cf in weight_calls:
                a, s, w = cf.args.get('affiliation'), cf.args.get('saliency'), cf.args.get('weight_constant_axis')
                ok = a is not None and ('param', 'affiliation') in a.deps and s is not None and ('param', 'saliency') in s.deps \
                    and w is not None and ('param', 'weight_constant_axis') in w.deps
                run.check(ok, 'R-DEP', f'{short}: weight update from affiliation, saliency and weight_constant_axis', cf.ctx.fn.loc(cf.term.node), '',
                          'estimate_mixture_weight does not receive the posterior, the saliency and weight_constant_axis of this M-step',
                          construct=f'R-DEP::{ms.qual}::weight-update')
                # the routine multiplies by the saliency itself: its affiliation argument must be the plain posterior (saliency enters exactly once)
                at = call_arg(cf.term, 0, 'affiliation')
                deg = factor_degree(at, 'saliency') if at is not None else 0
                run.check(deg == 0, 'R-DEP', f'{short}: saliency enters the weight update exactly once', cf.ctx.fn.loc(cf.term.node), '',
                          f'the affiliation handed to estimate_mixture_weight already carries the saliency (degree {deg}) and the routine multiplies by it again: weights ~ sum s^2 gamma',
                          construct=f'R-DEP::{ms.qual}::saliency-degree-weight')
        else:
            # integration models: inline weight update stored in the returned model
            res = ctx.result
            w = res.obj.fields.get('weight') if res.obj is not None else None
            ok = w is not None and {('param', 'affiliation'), ('param', 'saliency'), ('param', 'weight_constant_axis')} <= set(w.deps)
            run.check(ok, 'R-DEP', f'{short}: inline weight update from affiliation, saliency and weight_constant_axis', ms.loc(), '',
                      f'stored weight depends on {sorted(map(str, w.deps)) if w is not None else None}', construct=f'R-DEP::{ms.qual}::weight-update')
            # renormalised over the class axis
            g = A.graphs.get(ms)
            from .c01 import _division_terms, class_sum_form
            divs = [(dv, class_sum_form(dv.args[2])) for dv in _division_terms(g)]
            divs = [(dv, cs) for dv, cs in divs if cs is not None]
            okn = bool(divs) and all(cs[1] == -2 and cs[2] == -2 and strip_views(cs[0]) is strip_views(dv.args[1]) for dv, cs in divs)
            run.check(okn, 'R-AXIS', f'{short}: inline weights renormalised over the class axis', ms.loc(), '', 'weight /= sum(weight, axis=-2, keepdims=True) not found',
                      construct=f'R-AXIS::{ms.qual}::weight-renormalisation')
        # the returned model stores both updates
        res = ctx.result
        if res.obj is not None:
            missing = [k for k, v in res.obj.fields.items() if v.deps == frozenset() and k in ('weight',)]
            run.check('weight' in res.obj.fields, 'R-DEP', f'{short}: returned model carries the new weight', ms.loc(), '', 'model built without weight', construct=f'R-DEP::{ms.qual}::model-weight')
    run.floor('_m_step methods analysed', n, 7)


def check_options(run, A):
    """every fit option reaches a use; affiliation_eps reaches the posterior clip or is asserted 0; fit_predict forwards by name"""
    prog = A.prog
    for cname, mod in LP.TRAINERS.items():
        cls = prog.cls(f'{D}{mod}::{cname}Trainer')
        fit, fp = cls.methods['fit'], cls.methods.get('fit_predict')
        g = A.graphs.get(fit)
        used = set()
        roots = [g.ret] + [e.term for e in g.events if e.term is not None and e.kind != 'assert'] + \
                [c for e in g.events for c, _ in e.guards]
        seen = set()
        for r in roots:
            for t in walk_terms(r, seen):
                if t.op == 'param':
                    used.add(t.args[0])
        unused = [p for p in fit.params if p not in used and p != 'self']
        run.check(not unused, 'R-DEP', f'{cname}Trainer.fit: every option is used', fit.loc(), f'{len(fit.params) - 1} parameters',
                  f'parameters accepted but never used (outside assertions): {unused}', construct=f'R-DEP::{fit.qual}::unused-option')
        if 'affiliation_eps' in fit.params:
            L = LP.recognise(A, cname)
            ok = False
            why = 'affiliation_eps neither reaches the E-step nor is asserted to be 0'
            for e in L.e_calls:
                n, pos, kw = call_parts(e.term)
                if 'affiliation_eps' in kw and strip_views(kw['affiliation_eps']).op == 'param':
                    ok = True
            if not ok:
                for e in L.graph.events:
                    if e.kind == 'assert' and e.term.op == 'cmp' and e.term.args[0] == 'Eq' and strip_views(e.term.args[1]).op == 'param' \
                            and strip_views(e.term.args[1]).args[0] == 'affiliation_eps' and const_val(e.term.args[2]) == 0:
                        ok = True
            run.check(ok, 'R-DEP', f'{cname}Trainer: affiliation_eps reaches the posterior clip or is asserted 0', L.fn.loc(), '', why,
                      construct=f'R-DEP::{cls.qual}::affiliation_eps')
        if fp is None:
            raise AnalysisError(f'{cls.qual}.fit_predict vanished')
        gp = A.graphs.get(fp)
        fit_calls = [e.term for e in gp.events if e.kind == 'call' and call_parts(e.term)[0] == 'method:fit']
        same_params = [p for p in fit.params] == [p for p in fp.params]
        run.check(same_params, 'R-SIB', f'{cname}Trainer: fit_predict has the parameters of fit', fp.loc(), '',
                  f'parameter lists differ: fit {fit.params} vs fit_predict {fp.params}', construct=f'R-SIB::{cls.qual}::fit_predict-params')
        if not fit_calls:
            raise AnalysisError(f'{fp.qual}: call to self.fit not found')
        n, pos, kw = call_parts(fit_calls[0])
        wrong = []
        forwarded = set()
        for i, a in enumerate(pos[1:]):
            pname = fit.params[1 + i] if 1 + i < len(fit.params) else None
            forwarded.add(pname)
            if not (strip_views(a).op == 'param' and strip_views(a).args[0] == pname):
                wrong.append(pname)
        for k, a in kw.items():
            forwarded.add(k)
            if not (strip_views(a).op == 'param' and strip_views(a).args[0] == k):
                wrong.append(k)
        missing = [p for p in fit.params if p != 'self' and p not in forwarded]
        run.check(not wrong and not missing, 'R-SIB', f'{cname}Trainer.fit_predict forwards every option under its own name', fp.loc(fit_calls[0].node), '',
                  f'options forwarded under a different name / value: {wrong}; not forwarded at all: {missing}', construct=f'R-SIB::{cls.qual}::fit_predict-forwarding')


SCATTER_FITS = [
    D + 'complex_watson::ComplexWatsonTrainer._fit', D + 'complex_bingham::ComplexBinghamTrainer._fit',
    D + 'complex_circular_symmetric_gaussian::ComplexCircularSymmetricGaussianTrainer._fit',
    D + 'gaussian::GaussianTrainer._fit', D + 'complex_angular_central_gaussian::ComplexAngularCentralGaussianTrainer._fit',
    D + 'von_mises_fisher::VonMisesFisherTrainer._fit',
]


def tiny_floor(t):
    """k * np.finfo(.).tiny with a moderate k, or a literal below 1e-100"""
    t = strip_views(t)
    if t.op == 'const' and isinstance(t.args[0], (int, float)) and not isinstance(t.args[0], bool):
        return 0 < t.args[0] <= 1e-100
    if t.op == 'attr' and t.args[1] == 'tiny' and is_call_to(t.args[0], 'numpy.finfo'):
        return True
    if t.op == 'binop' and t.args[0] == 'Mult':
        a, b = strip_views(t.args[1]), strip_views(t.args[2])
        for k, x in ((a, b), (b, a)):
            if k.op == 'const' and isinstance(k.args[0], (int, float)) and 0 < k.args[0] <= 1e6 and tiny_floor(x):
                return True
    return False


def is_saliency_term(t):
    t = strip_views(t)
    return any(x.op == 'param' and x.args[0] == 'saliency' for x in walk_terms(t, into_mu=False))


def _string_paths(t, conds=None):
    """[(path condition, str)] of a subscript operand: a literal, a conditional of literals, a concatenation of those; None when something else"""
    out = []
    for c, leaf in gamma_paths(t, conds):
        leaf = strip_views(leaf)
        v = const_val(leaf)
        if leaf.op == 'raise' or (leaf.op == 'unknown' and leaf.args == ('keyerror',)):
            continue                  # a path that does not continue
        if isinstance(v, str):
            out.append((c, v))
        elif leaf.op == 'binop' and leaf.args[0] == 'Add':
            left = _string_paths(leaf.args[1], c)
            if left is None:
                return None
            for c1, s1 in left:
                right = _string_paths(leaf.args[2], c1)
                if right is None:
                    return None
                out += [(c2, s1 + s2) for c2, s2 in right]
        else:
            return None
    return out


def _mass_paths(t, conds=None, n_new=0, n_dim=0, depth=0):
    """[(path condition, number of axes appended on the right, kind, number of axis-length factors)] of a normaliser: kind 'mass' = a reduction of the saliency over the
    observation axis (one value per leading index), 'count' = a 0-d number of observations (broadcasts against anything), None = not recognised"""
    out = []
    if depth > 12:
        return [(conds or {}, n_new, None, n_dim)]
    for c, leaf in gamma_paths(t, conds):
        leaf = strip_views(leaf)
        ins = newaxis_insertions(leaf)
        if ins is not None and ins[1] and all(isinstance(p_, int) and p_ < 0 for p_ in ins[1]) and sorted(ins[1]) == list(range(-len(ins[1]), 0)):
            out += _mass_paths(ins[0], c, n_new + len(ins[1]), n_dim, depth + 1)
            continue
        if leaf.op == 'sub':
            ix = leaf.args[1]
            while ix.op == 'refine':
                ix = ix.args[0]
            if ix.op == 'gamma':
                # x[index] with the index tuple selected by tests (a column of a dispatch table)
                alts = gamma_paths(ix, c)
                vals = [const_val(a_) for _c, a_ in alts]
                if alts and all(isinstance(v_, tuple) and len(v_) >= 1 and v_[0] is Ellipsis and all(x_ is None for x_ in v_[1:]) for v_ in vals):
                    for (c1, _a), v_ in zip(alts, vals):
                        out += _mass_paths(leaf.args[0], c1, n_new + len(v_) - 1, n_dim, depth + 1)
                    continue
        if is_call_to(leaf, 'numpy.maximum'):
            a, b = call_arg(leaf, 0), call_arg(leaf, 1)
            arr = [x for x in (a, b) if x is not None and not tiny_floor(x)]
            if len(arr) == 1:
                out += _mass_paths(arr[0], c, n_new, n_dim, depth + 1)
                continue
        if leaf.op == 'sub' and leaf.args[1].op == 'tuple' and len(leaf.args[1].args[0]) == 2 and const_val(leaf.args[1].args[0][0]) is Ellipsis \
                and leaf.args[1].args[0][1].op == 'star':
            # x[(..., *(None,) * k)] with k selected by tests
            rep = strip_views(leaf.args[1].args[0][1].args[0])
            if rep.op == 'binop' and rep.args[0] == 'Mult':
                tup, k = strip_views(rep.args[1]), rep.args[2]
                if const_val(tup) != (None,):
                    tup, k = strip_views(rep.args[2]), rep.args[1]
                if const_val(tup) == (None,):
                    ks = gamma_paths(k, c)
                    if all(isinstance(const_val(kl), int) for _c, kl in ks):
                        for c1, kl in ks:
                            out += _mass_paths(leaf.args[0], c1, n_new + const_val(kl), n_dim, depth + 1)
                        continue
        if leaf.op in ('binop', 'iop') and leaf.args[0] == 'Mult':
            a, b = leaf.args[1], leaf.args[2]

            def axis_length(x):
                x = strip_views(x)
                return shape_dim(x) is not None or (x.op == 'unpack' and strip_views(x.args[0]).op == 'attr' and strip_views(x.args[0]).args[1] == 'shape')
            if axis_length(b):
                out += _mass_paths(a, c, n_new, n_dim + 1, depth + 1)
                continue
            if axis_length(a):
                out += _mass_paths(b, c, n_new, n_dim + 1, depth + 1)
                continue
        if is_call_to(leaf, 'numpy.array', 'numpy.asarray') and call_arg(leaf, 0) is not None and shape_dim(call_arg(leaf, 0)) is not None:
            out.append((c, n_new, 'count', n_dim))
            continue
        if shape_dim(leaf) is not None or (leaf.op == 'unpack' and strip_views(leaf.args[0]).op == 'attr' and strip_views(leaf.args[0]).args[1] == 'shape'):
            out.append((c, n_new, 'count', n_dim))
            continue
        if is_call_to(leaf, 'numpy.einsum'):
            _, pos, _kw = call_parts(leaf)
            subs = _string_paths(pos[0], c) if pos else None
            if subs and len(pos) == 2 and is_saliency_term(pos[1]):
                for c1, sub in subs:
                    sub = sub.replace(' ', '')
                    lhs, _, rhs = sub.partition('->')
                    out.append((c1, n_new, 'mass' if (lhs.startswith('...') and rhs == '...' and len(lhs) == 4) else None, n_dim))
                continue
        if is_call_to(leaf, 'numpy.sum') and is_saliency_term(call_arg(leaf, 0, 'a')) and const_val(call_arg(leaf, 1, 'axis')) == -1:
            kd = call_arg(leaf, None, 'keepdims')
            out.append((c, n_new + (1 if kd is not None and const_val(kd) is True else 0), 'mass', n_dim))
            continue
        out.append((c, n_new, None, n_dim))
    return out


def check_mass_rank(run, A):
    """(a) the saliency mass has one value per leading index; the contraction it divides has the leading axes plus the letters kept after the ellipsis.  Dividing needs exactly
    that many axes appended to the mass - with fewer, NumPy aligns the mass with the LAST axes of the statistic: an error for most shapes, and a silent mixing of the
    independent problems whenever the lengths happen to agree (F == D).
    (b) a statistic that also sums over a feature axis (the spherical variance) is a mean only when the mass is multiplied by the length of that axis."""
    n = 0
    for q in SCATTER_FITS:
        fn = A.prog.func(q)
        g = A.graphs.get(fn)
        short = q.split('::')[1]
        seen = set()
        for root in [g.ret] + [e.term for e in g.events if e.term is not None]:
            for t in walk_terms(root, into_mu=False):
                if t.id in seen or t.op not in ('binop', 'iop') or t.args[0] != 'Div':
                    continue
                seen.add(t.id)
                dens = _mass_paths(t.args[2])
                if not any(k in ('mass', 'count') for _c, _n, k, _d in dens):
                    continue
                for cn, num in gamma_paths(t.args[1]):
                    num = strip_views(num)
                    if not is_call_to(num, 'numpy.einsum'):
                        continue
                    _, pos, _kw = call_parts(num)
                    subs = _string_paths(pos[0], cn) if pos else None
                    if not subs:
                        continue
                    for cs, sub in subs:
                        sub = sub.replace(' ', '')
                        if '->' not in sub:
                            continue
                        lhs, rhs = sub.split('->')
                        if not rhs.startswith('...'):
                            continue
                        kept = len(rhs) - 3
                        data_ops = [o.replace('...', '') for o, x in zip(lhs.split(','), pos[1:])
                                    if not all(strip_views(a_).op == 'param' and strip_views(a_).args[0] == 'saliency' for a_ in unwrap_gamma(x))]
                        summed = {c_ for o in data_ops for c_ in o if c_ not in rhs}
                        extra = len(summed) - 1          # beyond the observation axis
                        comp_ = [(n_new, kind, n_dim) for cd, n_new, kind, n_dim in dens if kind in ('mass', 'count') and compatible(cs, cd)]
                        ranks = {n_new for n_new, kind, _d in comp_ if kind == 'mass'}
                        dims = {n_dim for _n, _k, n_dim in comp_}
                        # alternatives of the normaliser that the path conditions cannot tell apart and that disagree with each other: not decided (never a violation)
                        if ranks:
                            n += 1
                            inst = f'{short} {sub!r}: the saliency mass is aligned with the leading axes of the statistic it divides'
                            if ranks == {kept}:
                                run.ok('R-EIN', inst, fn.loc(t.node), '')
                            elif kept in ranks:
                                run.unresolved('R-EIN', inst, fn.loc(t.node), f'alternatives of the normaliser append {sorted(ranks)} axes and cannot be matched to the alternatives of the statistic')
                            else:
                                run.violation('R-EIN', inst, fn.loc(t.node),
                                              f'the statistic keeps {kept} ax{"is" if kept == 1 else "es"} after the leading ones ({rhs!r}) but the mass (one value per leading index) gets '
                                              f'{sorted(ranks)} appended: the division pairs the mass with the wrong axes (broadcast error, or silently mixed independent problems when lengths agree)',
                                              construct=f'R-EIN::{q}::mass-rank::{rhs}')
                        if dims and extra >= 0:
                            n += 1
                            inst = f'{short} {sub!r}: the normaliser counts every summed element'
                            if dims == {extra}:
                                run.ok('R-EIN', inst, fn.loc(t.node), '')
                            elif extra in dims:
                                run.unresolved('R-EIN', inst, fn.loc(t.node), f'alternatives of the normaliser carry {sorted(dims)} axis-length factors and cannot be matched to the alternatives of the statistic')
                            else:
                                run.violation('R-EIN', inst, fn.loc(t.node),
                                              f'the statistic sums over {extra} feature ax{"is" if extra == 1 else "es"} besides the observations, the normaliser is multiplied by {sorted(dims)} axis '
                                              f'length(s): the result is not the mean over the summed elements', construct=f'R-EIN::{q}::mass-count::{rhs}')
    run.floor('divisions of a statistic by the observation mass with decided ranks / counts', n, 25)


COVARIANCE_CLASSES = {'Gaussian': ('full', 2), 'DiagonalGaussian': ('diagonal', 1), 'SphericalGaussian': ('spherical', 0)}


def check_gaussian_dispatch(run, A):
    """GaussianTrainer._fit: the option string, the model class that is returned and the axes the pooled scatter keeps belong together
    ('full' -> Gaussian, (..., D, D); 'diagonal' -> DiagonalGaussian, (..., D); 'spherical' -> SphericalGaussian, (...))."""
    q = D + 'gaussian::GaussianTrainer._fit'
    fn = A.prog.func(q)
    g = A.graphs.get(fn)
    n = 0
    returns = []
    for conds, leaf in gamma_paths(g.ret):
        leaf = strip_views(leaf)
        if leaf.op == 'call' and leaf.args[0].op in ('gamma', 'refine'):
            # model_cls(...) with the class selected by tests
            for c2, cal in gamma_paths(leaf.args[0], conds):
                if cal.op == 'ref' and hasattr(cal.args[0], 'qual'):
                    returns.append((c2, leaf, cal.args[0].qual))
        elif call_parts(leaf)[0] is not None:
            returns.append((conds, leaf, call_parts(leaf)[0]))
    for conds, leaf, name in returns:
        cname = name.split('::')[-1].split('.')[-1]
        if cname not in COVARIANCE_CLASSES:
            continue
        want_opt, want_rank = COVARIANCE_CLASSES[cname]
        opts = [next(iter(o)) for o in selected_options(conds, 'covariance_type') if len(o) == 1]
        if opts:
            n += 1
            run.check(opts == [want_opt], 'R-SIB', f'GaussianTrainer._fit: covariance_type {opts[0]!r} returns the model of that name', fn.loc(leaf.node), '',
                      f'covariance_type == {opts[0]!r} returns a {cname} (the class for {want_opt!r})', construct=f'R-SIB::{q}::option-class::{cname}')
        cov = call_arg(leaf, None, 'covariance')
        if cov is None:
            continue
        ranks = set()
        for c2, alt in gamma_paths(cov, conds):
            alt = strip_views(alt)
            # the covariance handed to the model IS the pooled scatter divided by the mass: anything added to / multiplied into it afterwards (a regulariser, a gain) gives a
            # different estimator than the documented one - and one that is not the maximiser of the EM auxiliary function
            if alt.op in ('binop', 'iop') and alt.args[0] in ('Add', 'Sub', 'Mult') and any(
                    x.op in ('binop', 'iop') and x.args[0] == 'Div' and any(is_call_to(y, 'numpy.einsum') for y in walk_terms(x.args[1], into_mu=False))
                    for x in walk_terms(alt, into_mu=False)):
                n += 1
                run.violation('R-EIN', f'GaussianTrainer._fit: the covariance handed to {cname} is the normalised scatter itself', fn.loc(alt.node),
                              f'`{norm_stmt(alt.node)[:90]}` changes the scatter estimate after the division by the mass (regularisation / rescaling): not the weighted scatter the '
                              f'property documents', construct=f'R-EIN::{q}::scatter-modified::{cname}')
                continue
            if alt.op in ('binop', 'iop') and alt.args[0] == 'Div':
                for c3, num in gamma_paths(alt.args[1], c2):
                    num = strip_views(num)
                    if is_call_to(num, 'numpy.einsum'):
                        for _c4, sub in (_string_paths(call_parts(num)[1][0], c3) or []):
                            rhs = sub.replace(' ', '').split('->')[-1]
                            if rhs.startswith('...'):
                                ranks.add(len(rhs) - 3)
        if ranks:
            n += 1
            run.check(ranks == {want_rank}, 'R-SIB', f'GaussianTrainer._fit: the scatter handed to {cname} keeps {want_rank} feature axes', fn.loc(leaf.node), '',
                      f'{cname} expects a covariance with {want_rank} trailing feature ax(es); the contraction on this path keeps {sorted(ranks)}', construct=f'R-SIB::{q}::class-rank::{cname}')
    run.floor('GaussianTrainer._fit option / class / contraction triples', n, 6)


def check_estimators(run, A):
    n = 0
    for q in SCATTER_FITS:
        fn = A.prog.func(q)
        g = A.graphs.get(fn)
        short = q.split('::')[1]
        sites = ein.find_sites(A, q)
        weighted = [s for s in sites if s.parsed and len(s.operands) >= 2 and any(is_saliency_term(o) for o in s.operands) and
                    sum(1 for o in s.operands if not is_saliency_term(o)) >= 1]
        sums = [s for s in sites if s.parsed and len(s.operands) == 1 and is_saliency_term(s.operands[0])]
        if not weighted:
            raise AnalysisError(f'{q}: saliency-weighted contraction not found')
        for s in weighted:
            for sub, ins, out, ells in s.parsed:
                n += 1
                isal = [i for i, o in enumerate(s.operands) if is_saliency_term(o)]
                i0 = isal[0]
                obs_letter = ins[i0][-1] if ins[i0] else None
                others = [i for i in range(len(ins)) if i not in isal]
                ok = obs_letter is not None and obs_letter not in out and all(obs_letter in ins[i] for i in others) and all(c in out or c == obs_letter for c in ins[i0])
                run.check(ok, 'R-EIN', f'{short} {sub!r}: saliency weights the observation axis that is summed', s.loc, '',
                          f'{sub!r}: the saliency operand\'s observation index must be shared with every data operand and summed over', construct=f'R-EIN::{q}::weighted-sum')
        # generic sesquilinear rules on every scatter contraction of the estimator (with and without saliency)
        ein_generic = sum(ein.check_generic(run, s) for s in sites if s.parsed and len(s.operands) >= 2)
        # the scatter reaches the result only THROUGH the division by the mass (sum of the saliency, or the number of observations without saliency): a contraction
        # that is computed and a mass that is computed do not make an estimator unless the one is divided by the other
        scat = [s_.term for s_ in sites if s_.parsed and len(s_.operands) >= 2 and any(same_value(a_[0], b_[0]) for i_, a_ in enumerate(ein.operand_info(s_))
                                                                                        for b_ in ein.operand_info(s_)[i_ + 1:])]
        if scat:
            def mass_like(d):
                for alt in unwrap_gamma(d):
                    a0 = strip_views(alt)
                    if a0.op == 'raise' or (a0.op == 'unknown' and a0.args == ('keyerror',)):
                        continue          # a path that does not continue
                    if any(is_saliency_term(x) for x in walk_terms(a0, into_mu=False)):
                        continue
                    if any(x.op == 'attr' and x.args[1] == 'shape' for x in walk_terms(a0, into_mu=False)) or any(x.op == 'unpack' and strip_views(x.args[0]).op == 'attr'
                                                                                                                     and strip_views(x.args[0]).args[1] == 'shape' for x in walk_terms(a0, into_mu=False)):
                        continue
                    return False
                return True
            bare = []
            seen_ = set()
            stack = [g.ret] + [e.term for e in g.events if e.kind in ('call',) and e.term is not None and call_parts(e.term)[0] not in ('numpy.einsum', 'numpy.isfinite')]
            while stack:
                t_ = stack.pop()
                if not isinstance(t_, T) or t_.id in seen_:
                    continue
                seen_.add(t_.id)
                if t_.op in ('binop', 'iop') and t_.args[0] == 'Div' and any(x is sc for sc in scat for x in walk_terms(t_.args[1], into_mu=False)) and mass_like(t_.args[2]):
                    continue          # normalised below this node
                if any(t_ is sc for sc in scat):
                    bare.append(t_)
                    continue
                for a_ in t_.args:
                    if isinstance(a_, T):
                        stack.append(a_)
                    elif isinstance(a_, tuple):
                        stack.extend(x for x in a_ if isinstance(x, T))
                        stack.extend(y for x in a_ if isinstance(x, tuple) for y in x if isinstance(y, T))
            run.check(not bare, 'R-EIN', f'{short}: the scatter enters the estimate divided by the observation mass', fn.loc(bare[0].node if bare else None), '',
                      'a scatter contraction reaches the result without the division by the saliency mass / number of observations (the division was dropped or applies to something else)',
                      construct=f'R-EIN::{q}::normalised-by-mass')
        # normaliser: sum of the same saliency (or N without saliency), applied by division
        if sums:
            for s in sums:
                for sub, ins, out, ells in s.parsed:
                    ok = len(ins[0]) >= 1 and ins[0][-1] not in out and out == ins[0][:-1]
                    run.check(ok, 'R-EIN', f'{short} {sub!r}: normaliser is the saliency mass', s.loc, '', f'{sub!r} does not sum the saliency over the observation axis',
                              construct=f'R-EIN::{q}::mass')
            n += 1
    run.floor('weighted estimator contractions', n, 10)
    # unweighted normaliser: the number of observations N (axis -2 of (..., N, D); last axis of the cACG quadratic form)
    for q, want in ((D + 'complex_watson::ComplexWatsonTrainer._fit', ('y', -2)), (D + 'complex_bingham::ComplexBinghamTrainer._fit', ('y', -2)),
                    (D + 'complex_circular_symmetric_gaussian::ComplexCircularSymmetricGaussianTrainer._fit', ('y', -2)), (D + 'gaussian::GaussianTrainer._fit', ('y', -2))):
        fn = A.prog.func(q)
        g = A.graphs.get(fn)
        from ..walk import shape_dim
        # np.array(<an expression of axis lengths>): the observation count, however the axis length is read (y.shape[-2], `*_, n, d = y.shape`, ...)
        arrs = [e.term for e in g.events if e.kind == 'call' and is_call_to(e.term, 'numpy.array') and call_arg(e.term, 0) is not None
                and any(x.op == 'attr' and x.args[1] == 'shape' for x in walk_terms(call_arg(e.term, 0)))]
        ok = bool(arrs)
        for t in arrs:
            sd = shape_dim(call_arg(t, 0))
            ok = ok and sd is not None and sd[0].op == 'param' and sd[0].args[0] == want[0] and sd[1] == want[1]
        run.check(ok, 'R-EIN', f'{q.split("::")[1]}: unweighted estimate divides by the number of observations', fn.loc(), f'{want[0]}.shape[{want[1]}]',
                  f'the saliency-free normaliser is not {want[0]}.shape[{want[1]}] (number of observations)', construct=f'R-EIN::{q}::unweighted-normaliser')
    # cACG Tyler update: D * sum z z^H saliency / quadratic_form / mass
    q = D + 'complex_angular_central_gaussian::ComplexAngularCentralGaussianTrainer._fit'
    fn = A.prog.func(q)
    g = A.graphs.get(fn)
    three = [s for s in ein.find_sites(A, q) if len(s.operands) == 3]
    if not three:
        raise AnalysisError(f'{q}: the weighted scatter  sum_n w_n z_n z_n^H  (a contraction of three operands) is no longer recognised')
    s = three[0]
    w = strip_views(s.operands[2])
    okq = w.op == 'binop' and w.args[0] == 'Div' and is_saliency_term(w.args[1]) and \
        any(x.op == 'param' and x.args[0] == 'quadratic_form' for x in walk_terms(w.args[2], into_mu=False))
    run.check(okq, 'R-EIN', 'cACG update: observation weight is saliency / quadratic_form', s.loc, '',
              'the third operand of the scatter contraction is not saliency divided by the (floored) quadratic form', construct=f'R-EIN::{q}::tyler-weight')
    # the divisor is the quadratic form itself: its positivity guard may only be a floor far below every value a quadratic form of unit
    # vectors can take (k * finfo.tiny); a floor such as 1 replaces the MM weight 1 / (z^H B^-1 z) wherever it is active
    den = strip_views(w.args[2]) if okq else None
    if den is not None and den.op != 'param':
        okf = is_call_to(den, 'numpy.maximum')
        if okf:
            a_, b_ = strip_views(call_arg(den, 0)), strip_views(call_arg(den, 1))
            fl = b_ if any(x.op == 'param' and x.args[0] == 'quadratic_form' for x in walk_terms(a_, into_mu=False)) else a_
            okf = tiny_floor(fl)
        run.check(okf, 'R-SAN', 'cACG update: the quadratic form is only floored by a multiple of finfo.tiny', fn.loc(den.node), '',
                  f'`{norm_stmt(den.node)[:80]}`: the floor of the MM weight divisor is not a small multiple of the smallest float; wherever it exceeds z^H B^-1 z the update is no '
                  f'longer the Tyler / MM step (e.g. covariance_norm=False, where eigenvalues are not bounded by one)', construct=f'R-SAN::{q}::quadratic-form-floor')
    # factor D = y.shape[-2] multiplies the contraction
    parent = [t for e in g.events if e.term is not None for t in walk_terms(e.term) if t.op in ('binop', 'iop') and t.args[0] == 'Mult' and (strip_views(t.args[1]) is s.term or strip_views(t.args[2]) is s.term)]
    okd = False
    if parent:
        other = parent[0].args[1] if strip_views(parent[0].args[2]) is s.term else parent[0].args[2]
        o = strip_views(other)
        okd = o.op == 'sub' and const_val(o.args[1]) == -2 and o.args[0].op == 'attr' and o.args[0].args[1] == 'shape' and strip_views(o.args[0].args[0]).op == 'param' \
            and strip_views(o.args[0].args[0]).args[0] == 'y'
    run.check(okd, 'R-EIN', 'cACG update: scatter is scaled by the feature dimension D', s.loc, '', 'the Tyler update is not multiplied by D = y.shape[-2]',
              construct=f'R-EIN::{q}::tyler-dimension')
    # vMF: clipped Banerjee concentration, normalised resultant
    q = D + 'von_mises_fisher::VonMisesFisherTrainer._fit'
    fn = A.prog.func(q)
    g = A.graphs.get(fn)
    ret = strip_views(g.ret)
    n_, pos, kw = call_parts(ret)
    conc = kw.get('concentration')
    okc = conc is not None and is_call_to(conc, 'numpy.clip')
    if okc:
        lo, hi = strip_views(call_arg(conc, 1, 'a_min')), strip_views(call_arg(conc, 2, 'a_max'))
        okc = lo.op == 'param' and lo.args[0] == 'min_concentration' and hi.op == 'param' and hi.args[0] == 'max_concentration'
    run.check(okc, 'R-SAN', 'vMF update: concentration clipped to [min_concentration, max_concentration]', fn.loc(), '',
              'the stored concentration is not np.clip(., min_concentration, max_concentration)', construct=f'R-SAN::{q}::clip')
    # Banerjee's estimate kappa = r_bar (D - r_bar^2) / (1 - r_bar^2) with r_bar = ||sum_n s_n y_n|| / sum_n s_n: compared as a quotient of polynomials over
    # {r_bar, D}, so any equivalent arrangement of the formula is accepted and any other one is a recognised deviation
    if okc:
        from ..ratfun import rational, NotRational, A as _A, C as _C
        from ..walk import as_norm
        x_ = call_arg(conc, 0, 'a')
        # r_bar is the quantity the formula is written in: the arithmetic sub-term that is referred to more than once
        refs = {}

        def count(t):
            t0 = strip_views(t)
            if not isinstance(t0, T):
                return
            refs[t0.id] = (refs.get(t0.id, (0, t0))[0] + 1, t0)
            if refs[t0.id][0] == 1 and t0.op in ('binop', 'iop', 'unop'):
                for a_ in t0.args[1:]:
                    count(a_)
        count(x_)
        shared = [t0 for n_refs, t0 in refs.values() if n_refs >= 2 and t0.op not in ('const',) and not (t0.op == 'sub' and t0.args[0].op == 'attr')]
        rbar = shared[:1]

        def atoms(t):
            t0 = strip_views(t)
            from ..walk import shape_dim
            sd = shape_dim(t0)
            if sd is not None and sd[0].op == 'param' and sd[0].args[0] == 'y':
                return 'D' if sd[1] == -1 else f'y.shape[{sd[1]}]'          # the feature dimension is the LAST axis
            if rbar and t0 is rbar[0]:
                return 'r'
            return None
        try:
            got = rational(x_, atoms)
        except NotRational as e:
            run.unresolved('R-SAN', 'vMF update: concentration formula', fn.loc(), f'not a recognised rational expression of the mean resultant length ({e})')
        else:
            want = (_A('r') * _A('D') - _A('r') ** 3) / (_C(1) - _A('r') ** 2)
            run.check(got.same(want), 'R-SAN', 'vMF update: concentration = r (D - r^2) / (1 - r^2)', fn.loc(getattr(x_, 'node', None)), '',
                      f'the concentration estimate is not r_bar * (D - r_bar**2) / (1 - r_bar**2) (found {got})', construct=f'R-SAN::{q}::banerjee')
            if rbar:
                is_div = rbar[0].op in ('binop', 'iop') and rbar[0].args[0] == 'Div'
                nrm = as_norm(rbar[0].args[1]) if is_div else None
                den = strip_views(rbar[0].args[2]) if is_div else rbar[0]
                mass = (is_call_to(den, 'numpy.sum') and const_val(call_arg(den, 1, 'axis')) == -1 and is_saliency_term(call_arg(den, 0))) or \
                    (is_call_to(den, 'numpy.einsum') and any(is_saliency_term(o) for o in call_parts(den)[1][1:]))
                okr = nrm is not None and nrm[1] is not None and const_val(nrm[1]) == -1 and is_call_to(nrm[0], 'numpy.einsum') and mass
                run.check(okr, 'R-SAN', 'vMF update: r_bar = ||sum_n s_n y_n|| / sum_n s_n', fn.loc(rbar[0].node), '',
                          'the mean resultant length is not the norm (over the feature axis) of the saliency-weighted resultant divided by the saliency mass',
                          construct=f'R-SAN::{q}::resultant-length')
    mean = kw.get('mean')
    okm = False
    if mean is not None:
        m = strip_views(mean)
        if m.op == 'binop' and m.args[0] == 'Div':
            r = m.args[1]
            okm = is_call_to(strip_views(r), 'numpy.einsum') and any(is_call_to(x, 'numpy.linalg.norm') and call_arg(x, 0) is r for x in walk_terms(m.args[2]))
    run.check(okm, 'R-SAN', 'vMF update: mean is the resultant divided by its own norm', fn.loc(), '', 'mean is not r / max(||r||, tiny) of the weighted resultant',
              construct=f'R-SAN::{q}::mean')
    # Watson: principal eigenpair (shared with C03)
    sel.check_principal(run, A, 'pb_bss.utils::get_pca')


def check(run):
    A = run.A
    from ..opt import check_optional_truthiness, check_params_reach, check_forwarding, check_stale_loop_variables, check_argument_names, check_none_use
    check_none_use(run, A, ('pb_bss.distribution.', 'pb_bss.initializer.'))
    check_argument_names(run, A, ('pb_bss.distribution.', 'pb_bss.initializer.'))
    check_stale_loop_variables(run, A, ('pb_bss.distribution.', 'pb_bss.initializer.'))
    from ..opt import check_extent_loops
    check_extent_loops(run, A, ('pb_bss.distribution.', 'pb_bss.initializer.'))
    from ..opt import check_casts_to_another_operands_dtype
    check_casts_to_another_operands_dtype(run, A, ('pb_bss.distribution.', 'pb_bss.initializer.'))
    from ..opt import check_block_partitions
    check_block_partitions(run, A, ('pb_bss.distribution.', 'pb_bss.initializer.'))
    check_forwarding(run, A, ('pb_bss.distribution.', 'pb_bss.initializer.'))
    check_params_reach(run, A, ('pb_bss.distribution.', 'pb_bss.initializer.'))
    check_optional_truthiness(run, A, ('pb_bss.distribution.', 'pb_bss.initializer.'))
    run.explanation = (
        'EM alternation decided by structural recognition of the seven fit loops on their gated-SSA graphs (iteration domain, one unconditional M-step bound to the '
        'returned variable, one E-step on the current model under `model is not None`, E before M, optional aligner, affiliation flow); saliency / weight_constant_axis / '
        'affiliation_eps plumbing by interprocedural dependence analysis of every _m_step; sibling agreement of fit and fit_predict; contraction structure of the weighted '
        'estimators (shared observation index, normalisation by the saliency mass, Tyler weight and factor D, clipping, principal eigenpair). Closeness of the fitted values to the '
        'defining formulas, convergence of the Tyler iteration and the Bingham solver are not decided.')
    run.trusted = ['names of the estimator parameters (saliency, quadratic_form, weight_constant_axis, affiliation_eps)']
    check_alternation(run, A)
    check_plumbing(run, A)
    check_default_saliency(run, A)
    check_aligner_guard(run, A)
    check_options(run, A)
    # the aligner between E- and M-step reorders posterior and quadratic form with ONE mapping and by the same gather (shared rule instance with C14):
    # otherwise the cACG M-step of class k pairs the posterior of class k with the quadratic form of another class
    from . import c14
    c14.check_inline_em_alignment(run, A)
    from .. import reshape as _rs
    _n = _rs.check_reshapes(run, A, [D + 'gcacgmm::GCACGMMTrainer.fit', D + 'vmfcacgmm::VMFCACGMMTrainer.fit', D + 'gcacgmm::GCACGMM.predict', D + 'vmfcacgmm::VMFCACGMM.predict'])
    run.floor('reshapes of the integration models with resolved axis order', _n, 4)
    check_estimators(run, A)
    check_mass_rank(run, A)
    check_gaussian_dispatch(run, A)
