"""C04 - spatial models depend only on the direction of each observation vector.

R-NORM (unit-norm typestate): on every path from a public entry method of the directional
families to a scale-dependent sink (density / M-step that assumes unit-norm input) the
observation is UNIT along the feature axis the sink expects.  Normalisers are exact
(`x / max(||x||, tiny)`, `x / where(||x|| == 0, eps, ||x||)`); `||x|| + eps` or a floor
above the supported dynamic range is not a normaliser.
"""
from ..model import AnalysisError
from ..absint import AV, TOP
from ..walk import call_paths, callee_func

D = 'pb_bss.distribution.'
# sink function -> (parameter, axis along which the argument must have unit norm)
SINKS = {
    D + 'complex_angular_central_gaussian::ComplexAngularCentralGaussian._log_pdf': ('y', -2),
    D + 'complex_angular_central_gaussian::ComplexAngularCentralGaussianTrainer._fit': ('y', -2),
    D + 'complex_watson::ComplexWatson.log_pdf': ('y', -1),
    D + 'complex_watson::ComplexWatsonTrainer._fit': ('y', -1),
    D + 'complex_bingham::ComplexBingham.log_pdf': ('y', -1),
    D + 'complex_bingham::ComplexBinghamTrainer._fit': ('y', -1),
    D + 'von_mises_fisher::VonMisesFisherTrainer._fit': ('y', -1),
}
# public entry -> observation parameters that start RAW
ENTRIES = {}
for cls, mod, params in [
        ('CACGMM', 'cacgmm', ['y']), ('CWMM', 'cwmm', ['y']), ('CBMM', 'cbmm', ['y']), ('VMFMM', 'vmfmm', ['y']),
        ('GCACGMM', 'gcacgmm', ['observation']), ('VMFCACGMM', 'vmfcacgmm', ['observation', 'embedding'])]:
    ENTRIES[f'{D}{mod}::{cls}.predict'] = params
    ENTRIES[f'{D}{mod}::{cls}Trainer.fit'] = params
    ENTRIES[f'{D}{mod}::{cls}Trainer.fit_predict'] = params
ENTRIES[D + 'cacgmm::CACGMM.log_likelihood'] = ['y']
ENTRIES[D + 'complex_angular_central_gaussian::ComplexAngularCentralGaussian.log_pdf'] = ['y']
ENTRIES[D + 'von_mises_fisher::VonMisesFisher.log_pdf'] = ['y']
ENTRIES[D + 'complex_angular_central_gaussian::ComplexAngularCentralGaussianTrainer.fit'] = ['y']
ENTRIES[D + 'complex_watson::ComplexWatsonTrainer.fit'] = ['y']
ENTRIES[D + 'complex_bingham::ComplexBinghamTrainer.fit'] = ['y']
ENTRIES[D + 'von_mises_fisher::VonMisesFisherTrainer.fit'] = ['y']

# entries whose path to a sink must exist (an entry that no longer reaches any sink lost its anchor)
# (the vMF density normalises its argument itself and is not a sink)
MUST_REACH = set(ENTRIES) - {D + 'von_mises_fisher::VonMisesFisher.log_pdf', D + 'vmfmm::VMFMM.predict'}


def raw_param(ev, fn, p):
    av = ev.param_av(fn, p, kind=frozenset(['array']), norm='RAW')
    # ('scale', p): taint of everything that still depends on the magnitude of the observation (removed by exact normalisers)
    return av.replace(deps=av.deps | {('scale', p)})


def analyse_entry(run, ev, prog, q, params, config=''):
    fn = prog.func(q)
    over = {p: raw_param(ev, fn, p) for p in params}
    for p in params:
        if p not in fn.params:
            raise AnalysisError(f'{q}: observation parameter {p} vanished')
    ctx = ev.entry(fn, overrides=over)
    reached = 0
    sink_funcs = {prog.func(s): v for s, v in SINKS.items()}
    seen_sites = set()
    for cf, path in call_paths(ctx, lambda cf: callee_func(cf) in sink_funcs):
        f = callee_func(cf)
        pname, axis = sink_funcs[f]
        arg = cf.args.get(pname)
        site = (cf.ctx.fn.qual, getattr(cf.term.node, 'lineno', 0), f.qual, tuple(path))
        if site in seen_sites or arg is None:
            continue
        seen_sites.add(site)
        obs = sorted(p for p in params if ('param', p) in arg.deps)
        if not obs:
            continue
        reached += 1
        inst = f'{q}{config} -> {f.qual.split("::")[1]} [{",".join(obs)}] via {path[-1].split("::")[1]}'
        where = cf.ctx.fn.loc(cf.term.node)
        full = path + [f.qual]
        if arg.norm == ('UNIT', axis):
            run.ok('R-NORM', inst, where, f'argument `{pname}` has unit norm along axis {axis}')
        elif arg.norm is None or arg.norm == 'LOST':
            run.unresolved('R-NORM', inst, where, f'typestate of `{pname}` lost (operation not modelled' + (': a buffer partly overwritten with normalised values)' if arg.norm == 'LOST' else ')'))
        else:
            got = 'not normalised (RAW)' if arg.norm == 'RAW' else f'unit norm along axis {arg.norm[1]}'
            run.violation('R-NORM', inst, where,
                          f'`{pname}` reaches scale-dependent {f.qual} {got}; it must have unit norm along axis {axis} '
                          f'(observation parameter(s) {obs} of {q})',
                          construct=f'R-NORM::{q}::{",".join(obs)}::{f.qual}::{path[-1]}', path=full)
    # no narrowing cast of an observation that is not yet on the unit sphere: values outside the range of the target type flush to zero or overflow
    # BEFORE the projection removes the scale (a cast after the projection is harmless: unit vectors fit every float type)
    from ..walk import ctx_tree
    from ..model import Lib
    WIDE = {'numpy.float64', 'numpy.complex128', 'numpy.double', 'numpy.cdouble', 'numpy.longdouble', 'numpy.clongdouble', 'numpy.float_', 'numpy.complex_'}
    seen_casts = set()
    for c in ctx_tree(ctx):
        for cf in c.callfacts:
            cal = cf.callee
            x = dt = None
            if isinstance(cal, tuple) and cal and cal[0] == 'ndmethod' and cal[1] == 'astype':
                x = cal[2]
                dt = cf.kwargs.get('dtype') if cf.kwargs else None
                if dt is None and cf.posargs:
                    dt = cf.posargs[0]
            elif isinstance(cal, Lib) and cal.dotted in ('numpy.asarray', 'numpy.array', 'numpy.asanyarray', 'numpy.ascontiguousarray') and cf.posargs:
                x = cf.posargs[0]
                dt = (cf.kwargs or {}).get('dtype') or (cf.posargs[1] if len(cf.posargs) > 1 else None)
            if x is None or dt is None or x.norm != 'RAW' or not any(d[0] == 'scale' for d in x.deps):
                continue
            wide = bool(dt.fns) and all((isinstance(f_, Lib) and f_.dotted in WIDE) or f_ in (('builtin', 'float'), ('builtin', 'complex')) for f_ in dt.fns)
            key = (c.fn.qual, getattr(cf.term.node, 'lineno', 0))
            if wide or key in seen_casts:
                continue
            seen_casts.add(key)
            run.violation('R-NORM', f'{q.split("::")[1]}{config}: cast of a not yet normalised observation in {c.fn.qual.split("::")[1]}', c.fn.loc(cf.term.node),
                          'the observation is converted to a type that is not known to be double precision before it is projected to the unit sphere: gains outside the range of '
                          'that type (1e-45 .. 3e38 for single precision) are flushed to zero / overflow, so the result depends on the magnitude of the observation',
                          construct=f'R-NORM::{q}::cast-before-projection::{c.fn.qual}')
    # output taint: nothing that the entry returns (posterior, log-density, fields of the fitted model) still depends on the
    # magnitude of the observation - covers side channels that bypass the sinks' observation argument (a start value, a
    # weight or a floor computed from the raw observation)
    leaks = scale_taint(ctx.result) if ctx.result is not None else set()
    short = q.split('::')[1]
    if leaks and ctx.result is not None and scale_taint(ctx.result, kind='scale-lost'):
        # the taint arrives through a buffer that was partly overwritten with normalised values and whose coverage could not be folded: not decided
        run.unresolved('R-NORM', f'{short}{config}: result is free of the observation\'s scale', fn.loc(),
                       'the observation passes through a buffer that is overwritten block by block with normalised values; whether every entry is overwritten is not decided')
        return reached
    run.check(not leaks, 'R-NORM', f'{short}{config}: result is free of the observation\'s scale', fn.loc(), 'no returned value / stored field carries the scale taint',
              f'returned value still depends on the magnitude of the raw observation through {sorted(map(str, leaks))} (a quantity computed from the observation before / beside its '
              f'projection to the unit sphere reaches the result)', construct=f'R-NORM::{q}::output-taint')
    return reached


def scale_taint(av, depth=0, kind='scale'):
    out = set(d for d in av.deps if d[0] == kind)
    if av.tup:
        for x in av.tup:
            out |= scale_taint(x, depth + 1, kind)
    if av.obj is not None and depth < 4:
        for k, v in av.obj.fields.items():
            if scale_taint(v, depth + 1, kind):
                out.add(('field', k))
    return out


def check(run):
    A = run.A
    prog = A.prog
    run.explanation = (
        'Forward, context-sensitive unit-norm typestate analysis: the observation parameters of the 25 public entry methods of the '
        'directional families start RAW; the typestate is propagated through the gated-SSA term graphs and private callees '
        '(helpers such as _unit_norm are specialised on their constant arguments; axis follows swapaxes / indexing / reshape); '
        'at each of the 7 scale-dependent sinks the argument must be UNIT along the sink\'s feature axis. Reports entry, call path and sink. '
        'Decides that the spatial models see directions only; rounding-level invariance of the numbers is not decided.')
    run.trusted = ['sink table (7 functions documented as assuming unit-norm input)', 'normaliser idioms recognised by nptable.binop/h_norm/h_maximum/h_where']
    run.assumptions = ['ComplexWatson.log_pdf and ComplexBingham.log_pdf are densities on the sphere and themselves sinks (callers are checked)']
    for s in SINKS:
        prog.func(s)
    ev = A.ev
    total_params = 0
    reached_entries = 0
    for q, params in sorted(ENTRIES.items()):
        total_params += len(params)
        n = analyse_entry(run, ev, prog, q, params)
        if n:
            reached_entries += 1
        elif q in MUST_REACH:
            raise AnalysisError(f'R-NORM: no path from entry {q} to any sink was found (anchor lost)')
    run.count('entry methods', len(ENTRIES))
    run.count('observation parameters', total_params)
    run.count('sinks', len(SINKS))
    run.floor('entries reaching a sink', reached_entries, 23)
    if run.tier == 'thorough':
        # per-configuration re-analysis: option values that select different code paths
        from ..absint import cav
        configs = []
        for cn in ('eigenvalue', 'trace', False):
            configs.append((f' [covariance_norm={cn!r}]', {'covariance_norm': cav(cn)}))
        for init in ('none', 'array'):
            configs.append((f' [initialization={init}]', {'initialization': cav(None) if init == 'none' else AV(kind=frozenset(['array']))}))
        configs.append((' [saliency=None]', {'saliency': cav(None)}))
        configs.append((' [saliency=array]', {'saliency': AV(kind=frozenset(['array']))}))
        configs.append((' [inline aligner=None]', {'inline_permutation_aligner': cav(None)}))
        configs.append((' [inline_permutation_alignment=True]', {'inline_permutation_alignment': cav(True)}))
        n_cfg = 0
        for q, params in sorted(ENTRIES.items()):
            fn = prog.func(q)
            for label, over in configs:
                if not all(k in fn.params for k in over):
                    continue
                ev2 = A.fresh_evaluator()
                o = {p: raw_param(ev2, fn, p) for p in params}
                o.update(over)
                ctx = ev2.entry(fn, overrides=o)
                n_cfg += 1
                sink_funcs = {prog.func(s): v for s, v in SINKS.items()}
                for cf, path in call_paths(ctx, lambda cf: callee_func(cf) in sink_funcs):
                    f = callee_func(cf)
                    pname, axis = sink_funcs[f]
                    arg = cf.args.get(pname)
                    if arg is None or not any(('param', p) in arg.deps for p in params):
                        continue
                    inst = f'{q}{label} -> {f.qual.split("::")[1]} via {path[-1].split("::")[1]}'
                    if arg.norm == ('UNIT', axis):
                        run.ok('R-NORM/config', inst, cf.ctx.fn.loc(cf.term.node))
                    elif arg.norm is None:
                        run.unresolved('R-NORM/config', inst, cf.ctx.fn.loc(cf.term.node))
                    else:
                        run.violation('R-NORM/config', inst, cf.ctx.fn.loc(cf.term.node),
                                      f'`{pname}` reaches {f.qual} with typestate {arg.norm} under configuration{label}',
                                      construct=f'R-NORM::{q}::{f.qual}::{path[-1]}', path=path + [f.qual])
        run.count('configurations analysed', n_cfg)
