"""C11 - MVDR, LCMV and Wiener beamformers (structural parts).

  R-ROLE  operand roles: solve(Phi_nn, a), stable_solve(Phi_nn, Phi_xx) in Souden MVDR and WMWF, trace over the last
          two axes, column selection on the last axis, mu + lambda in the WMWF denominator, SNR = target / noise.
  R-EIN   a^H (Phi^-1 a) has exactly one conjugated side; quadratic forms of the reference-channel criterion.
  R-SEL   the reference channel is the arg-MAX of the SNR.
  R-API   NumPy >= 2 semantics of linalg.solve(A, b): b is a stack of vectors only if it is 1-D, so stacks of steering
          vectors must be passed as explicit column matrices.
"""
from ..model import AnalysisError
from ..terms import T, walk_terms
from ..absint import TOP
from ..walk import dead_leaf, data_derives, ret_alts, call_parts, call_arg, is_call_to, const_val, NOVAL, strip_views, unwrap_gamma, is_conj, callee_name, ctx_tree, newaxis_insertions, axis_reordering, only_adds_axes
from .. import ein, sel

B = 'pb_bss.extraction.beamformer::'
SOLVES = ('numpy.linalg.solve', 'scipy.linalg.solve')


def derives(t, pname):
    return data_derives(t, pname)


def solve_vector_semantics(run, A, fn_qual, rule='R-API'):
    """every linalg.solve(A, b) reached from fn: b must be matrix shaped (explicit column / matrix), not a stack of vectors"""
    fn = A.prog.func(fn_qual)
    ctx = A.ev.entry(fn)
    n = 0
    for c in ctx_tree(ctx):
        for cf in c.callfacts:
            if callee_name(cf) not in SOLVES or len(cf.posargs) < 2:
                continue
            a, b = cf.posargs[0], cf.posargs[1]
            inst = f'{fn_qual.split("::")[1]}: solve() in {c.fn.qual.split("::")[1]}'
            where = c.fn.loc(cf.term.node)
            if b.shape is None:
                # fall back to the syntactic form of the argument: x[..., None] / x[..., :, None] is an explicit column
                bt = strip_views(call_arg(cf.term, 1))
                col = bt.op == 'sub' and bt.args[1].op == 'tuple' and const_val(bt.args[1].args[0][-1]) is None
                if col:
                    n += 1
                    run.ok(rule, inst, where, 'right-hand side is an explicit column matrix x[..., None]')
                else:
                    run.unresolved(rule, inst, where, 'shape of the right-hand side not known')
                continue
            n += 1
            bd = b.shape.dims
            column = len(bd) >= 1 and '1' in bd[-1]
            vector_stack = False
            if not column and a.shape is not None and len(a.shape.dims) >= 2 and len(bd) >= 2:
                # labels: b's last axis is the matrix dimension while its second-to-last is not
                last_is_dim = bool(bd[-1] & (a.shape.dims[-1] | a.shape.dims[-2]))
                prev_is_dim = bool(bd[-2] & (a.shape.dims[-1] | a.shape.dims[-2]))
                vector_stack = last_is_dim and not prev_is_dim
            elif not column and len(bd) >= 2 and a.shape is None:
                vector_stack = False
            run.check(not vector_stack, rule, inst, where, f'b has shape {b.shape}',
                      f'np.linalg.solve(A, b) with b of documented shape {b.shape}: under NumPy >= 2 a b with ndim > 1 is a stack of MATRICES, so a stack of vectors '
                      f'raises (or silently solves a different system when the sizes happen to match); pass b[..., None] and take [..., 0]',
                      construct=f'{rule}::{fn_qual}::solve-vector-stack::{c.fn.qual}')
    return n


def _two_by_two_closed_form(alt):
    """alt = np.stack([c0, c1], axis=-1) with c0, c1 polynomials in the entries Phi[..., i, j] of the (Hermitian) noise PSD and a[..., k] of the steering vector:
    True / False when (c0, c1) is / is not proportional to adj(Phi) a = (Phi11 a0 - Phi01 a1, Phi00 a1 - Phi10 a0), None when the form is not of that kind.
    conj(Phi[i, j]) is Phi[j, i] (the matrix was symmetrised).  Pure polynomial identity on the term graph (pbv/ratfun.py); nothing is evaluated."""
    from ..ratfun import rational, NotRational, A as _A
    alt = strip_views(alt)
    if not (is_call_to(alt, 'numpy.stack') and const_val(call_arg(alt, None, 'axis')) == -1):
        return None
    items = strip_views(call_arg(alt, 0))
    if items.op not in ('list', 'tuple') or len(items.args[0]) != 2:
        return None

    def entry(t, pname, n_idx):
        t = strip_views(t)
        if t.op == 'sub' and t.args[1].op == 'tuple' and len(t.args[1].args[0]) == n_idx + 1 and const_val(t.args[1].args[0][0]) is Ellipsis and derives(t.args[0], pname):
            ks = [const_val(x) for x in t.args[1].args[0][1:]]
            if all(isinstance(k, int) and not isinstance(k, bool) and k in (0, 1, -1, -2) for k in ks):
                return tuple(k % 2 for k in ks)
        return None

    def classify(t):
        b, cj = is_conj(t)
        e2 = entry(b, 'noise_psd_matrix', 2)
        if e2 is not None:
            i, j = e2
            return ('P', j, i) if cj else ('P', i, j)
        e1 = entry(b, 'atf_vector', 1)
        if e1 is not None and not cj:
            return ('a', e1[0])
        return None
    try:
        c0, c1 = (rational(x, classify) for x in items.args[0])
    except NotRational:
        return None
    P = lambda i, j: _A(('P', i, j))
    a = lambda k: _A(('a', k))
    e0 = P(1, 1) * a(0) - P(0, 1) * a(1)
    e1 = P(0, 0) * a(1) - P(1, 0) * a(0)
    if c0.p.is_zero() and c1.p.is_zero():
        return False
    return (c0 * e1).same(c1 * e0)


def check_mvdr(run, A):
    q = B + 'get_mvdr_vector'
    fn = A.prog.func(q)
    g = A.graphs.get(fn)
    solves = [e.term for e in g.events if e.kind == 'call' and (call_parts(e.term)[0] in SOLVES)]
    if not solves:
        raise AnalysisError('get_mvdr_vector: solve call not found')
    for t in solves:
        a, b = call_arg(t, 0), call_arg(t, 1)
        run.check(derives(a, 'noise_psd_matrix') and not derives(a, 'atf_vector') and derives(b, 'atf_vector') and not derives(b, 'noise_psd_matrix'),
                  'R-ROLE', 'get_mvdr_vector: numerator = solve(Phi_nn, a)', fn.loc(t.node), '', 'operands of solve are not (noise PSD, steering vector)',
                  construct=f'R-ROLE::{q}::solve-roles')
    n = solve_vector_semantics(run, A, q)
    if n == 0:
        raise AnalysisError('get_mvdr_vector: solve call not analysable')
    # Hermitian symmetrisation of the noise PSD before solving
    def last_two_swapped(x):
        r = axis_reordering(x)
        return r is not None and r[1] == ('swap', frozenset((-1, -2)))
    herm = [t for e in g.events if e.term is not None for t in walk_terms(e.term, into_mu=True)
            if t.op in ('binop', 'iop') and t.args[0] == 'Add' and derives(t, 'noise_psd_matrix')
            and any(last_two_swapped(x) for side in (t.args[1], t.args[2]) for x in walk_terms(side))]
    okh = False
    for t in herm:
        for side in (t.args[1], t.args[2]):
            if any(last_two_swapped(x) for x in walk_terms(side)):
                cj = any(is_call_to(x, 'numpy.conj', 'numpy.conjugate', 'method:conj') for x in walk_terms(side))
                okh = okh or cj
    run.check(okh, 'R-ROLE', 'get_mvdr_vector: noise PSD is symmetrised as (Phi + Phi^H) / 2', fn.loc(), '', 'Hermitian symmetrisation with conj and swapaxes(-1, -2) not found',
              construct=f'R-ROLE::{q}::hermitise')
    # the matrix that is inverted is the given noise PSD (symmetrised), nothing else: loading / regularisation changes the
    # minimiser, the result is no longer the minimum-variance vector for the caller's Phi_nn
    for t in solves:
        a = strip_views(call_arg(t, 0))
        sym = None
        if a.op in ('binop', 'iop') and a.args[0] == 'Mult':
            inner = [x for x in (strip_views(a.args[1]), strip_views(a.args[2])) if x.op in ('binop', 'iop') and x.args[0] == 'Add']
            coef = [x for x in (a.args[1], a.args[2]) if const_val(x) == 0.5]
            sym = inner[0] if inner and coef else None
        elif a.op in ('binop', 'iop') and a.args[0] == 'Div' and const_val(a.args[2]) == 2:
            sym = strip_views(a.args[1]) if strip_views(a.args[1]).op in ('binop', 'iop') else None
        exact = False
        if sym is not None:
            l, r = strip_views(sym.args[1]), strip_views(sym.args[2])

            def base_param(x):
                x = strip_views(x)
                while x.op in ('mu', 'gamma') or newaxis_insertions(x) is not None or only_adds_axes(x) is not None or is_call_to(x, 'numpy.reshape', 'numpy.broadcast_to', 'numpy.expand_dims'):
                    if only_adds_axes(x) is not None and newaxis_insertions(x) is None:
                        x = strip_views(only_adds_axes(x))
                        continue
                    if x.op == 'mu':
                        x = strip_views(x.args[0])
                    elif x.op == 'gamma':
                        x = strip_views(x.args[1])
                    elif x.op == 'call':
                        x = strip_views(call_arg(x, 0))        # shape-only: reshape / broadcast_to in front of the stack of steering vectors
                    else:
                        x = strip_views(newaxis_insertions(x)[0])
                return x
            lb = base_param(l)
            if not (lb.op == 'param' and lb.args[0] == 'noise_psd_matrix'):
                l, r = r, l          # Phi^H + Phi: the plain matrix is the second summand
                lb = base_param(l)
            exact = lb.op == 'param' and lb.args[0] == 'noise_psd_matrix' and derives(r, 'noise_psd_matrix') and \
                not any(x.op == 'call' and call_parts(x)[0] and call_parts(x)[0].startswith('pb_bss.') for x in walk_terms(sym, into_mu=True))
        run.check(exact, 'R-ROLE', 'get_mvdr_vector: the solved matrix is the given noise PSD (symmetrised only)', fn.loc(t.node), '',
                  'the matrix handed to solve is a modified noise PSD (e.g. diagonally loaded): the result satisfies the constraint but is not the minimum-variance vector for Phi_nn',
                  construct=f'R-ROLE::{q}::solved-matrix')
    # denominator a^H (Phi^-1 a)
    sites = ein.find_sites(A, q)
    if not sites:
        raise AnalysisError('get_mvdr_vector: denominator einsum vanished')
    s = sites[0]
    info = ein.operand_info(s)
    st = ein.structure(s)
    n_conj = sum(1 for _, cj, _ in info if cj)
    ok = len(info) == 2 and n_conj == 1 and st['out'] == '' and st['ins'][0] == st['ins'][1] and len(st['ins'][0]) == 1 \
        and any(derives(raw, 'atf_vector') for _, _, raw in info)
    run.check(ok, 'R-EIN', 'get_mvdr_vector: denominator a^H Phi^-1 a has exactly one conjugated side', s.loc, st['sub'],
              f'{st["sub"]!r} with {n_conj} conjugated operand(s): the distortionless constraint w^H a = 1 needs the sesquilinear inner product', construct=f'R-EIN::{q}::denominator')
    ret = strip_views(g.ret)
    ins = newaxis_insertions(ret.args[2]) if ret.op in ('binop', 'iop') and ret.args[0] == 'Div' else None
    okr = ins is not None and ins[1] == [-1] and strip_views(ins[0]) is s.term
    run.check(okr, 'R-ROLE', 'get_mvdr_vector: w = numerator / denominator[..., None]', fn.loc(), '', 'return value is not the numerator divided by the broadcast denominator',
              construct=f'R-ROLE::{q}::quotient')
    # every alternative of the numerator comes out of a solver applied to the noise PSD (solve, or the per-bin lstsq of the fallback): a closed form written out by hand
    # (2 x 2 adjugate, explicit inverse of a special size) is not followed - and is where a conjugate / transpose slips in unnoticed by the constraint w^H a = 1
    if ret.op in ('binop', 'iop') and ret.args[0] == 'Div':
        for alt in unwrap_gamma(ret.args[1]):
            alt = strip_views(alt)
            solved = any(call_parts(x)[0] in SOLVES or call_parts(x)[0] in ('numpy.linalg.lstsq', 'scipy.linalg.lstsq', 'numpy.linalg.inv') for x in walk_terms(alt, into_mu=True))
            if not solved:
                verdict = _two_by_two_closed_form(alt)
                if verdict is None:
                    run.unresolved('R-ROLE', 'get_mvdr_vector: the numerator is Phi_nn^-1 a on every path', fn.loc(getattr(alt, 'node', None)),
                                   'an alternative of the numerator is not computed by a solver applied to the noise PSD (a hand-written closed form is not followed)')
                else:
                    run.check(verdict, 'R-ROLE', 'get_mvdr_vector: a closed form for two sensors is adj(Phi_nn) a up to a common factor', fn.loc(getattr(alt, 'node', None)), '',
                              'the two hand-written components are not proportional to (Phi11 a0 - Phi01 a1, Phi00 a1 - Phi10 a0) with Phi10 = conj(Phi01): an off-diagonal entry and its '
                              'conjugate are exchanged - the result is conj(Phi)^-1 a, still distortionless, no longer minimum variance', construct=f'R-ROLE::{q}::two-sensor-closed-form')


def check_souden_wmwf(run, A):
    for name, ref_param in (('get_mvdr_vector_souden', 'ref_channel'), ('get_wmwf_vector', 'reference_channel')):
        q = B + name
        fn = A.prog.func(q)
        g = A.graphs.get(fn)
        ss = [e.term for e in g.events if e.kind == 'call' and call_parts(e.term)[0] == 'pb_bss.math.solve::stable_solve']
        if not ss:
            raise AnalysisError(f'{name}: stable_solve call not found')
        t = ss[0]
        a, b = call_arg(t, 0), call_arg(t, 1)
        run.check(derives(a, 'noise_psd_matrix') and derives(b, 'target_psd_matrix') and not derives(a, 'target_psd_matrix') and not derives(b, 'noise_psd_matrix'),
                  'R-ROLE', f'{name}: Phi_nn^-1 Phi_xx', fn.loc(t.node), 'stable_solve(noise, target)',
                  'stable_solve is not called as (noise PSD, target PSD): target and noise are swapped', construct=f'R-ROLE::{q}::solve-roles')
        tr = [e.term for e in g.events if e.kind == 'call' and is_call_to(e.term, 'numpy.trace')]
        okt = bool(tr) and {const_val(call_arg(tr[0], None, 'axis1')), const_val(call_arg(tr[0], None, 'axis2'))} == {-1, -2} and strip_views(call_arg(tr[0], 0)) is t
        run.check(okt, 'R-AXIS', f'{name}: lambda = trace of Phi_nn^-1 Phi_xx over the last two axes', fn.loc(), '', 'trace is not taken over axes (-1, -2) of the solved matrix',
                  construct=f'R-AXIS::{q}::trace')
        # selected column: index on the last axis by the reference channel
        alts = [strip_views(x) for x in unwrap_gamma(g.ret)]
        alts = [x.args[0][0] if x.op == 'tuple' else x for x in alts]
        sel_ok = 0
        for x in alts:
            x = strip_views(x)
            if x.op == 'sub' and x.args[1].op == 'tuple':
                items = x.args[1].args[0]
                if len(items) == 2 and const_val(items[0]) is Ellipsis and derives(items[1], ref_param) or (len(items) == 2 and const_val(items[0]) is Ellipsis and
                                                                                                              any(call_parts(y)[0] == B + 'get_optimal_reference_channel' for y in walk_terms(items[1]))):
                    sel_ok += 1
        def matvec_with_selection(x_):
            # filter @ e written as a matrix-vector product: einsum('...dD,...D->...d', filter, e) - the vector is contracted with the COLUMN index
            x_ = strip_views(x_)
            if not is_call_to(x_, 'numpy.einsum') or len(call_parts(x_)[1]) != 3 or not isinstance(const_val(call_parts(x_)[1][0]), str):
                return None
            import re as _re
            m_ = _re.fullmatch(r'\.\.\.([a-zA-Z])([a-zA-Z]),\.\.\.([a-zA-Z])->\.\.\.([a-zA-Z])', const_val(call_parts(x_)[1][0]).replace(' ', ''))
            if not m_ or m_.group(1) == m_.group(2):
                return None
            mat_, vec_ = call_parts(x_)[1][1], call_parts(x_)[1][2]
            if not (derives(vec_, 'channel_selection_vector') and any(y is t for y in walk_terms(mat_))):
                return None
            return m_.group(3) == m_.group(2) and m_.group(4) == m_.group(1)          # True: column contracted, row kept; False: the row is contracted (e^T filter)
        want = sum(1 for x in alts if not is_call_to(strip_views(x), 'numpy.sum', 'numpy.einsum'))
        # the other return paths apply a channel selection VECTOR e: filter @ e = sum over the column (last) axis of filter[..., d, D] * e[..., None, D]
        for x in alts:
            x = strip_views(x)
            if not is_call_to(x, 'numpy.sum', 'numpy.einsum'):
                continue
            from ..walk import last_axis_product_sum, newaxis_insertions
            mv_ = matvec_with_selection(x)
            if mv_ is not None:
                run.check(mv_, 'R-ROLE', f'{name}: a channel selection vector is applied to the COLUMN index of the filter matrix', fn.loc(x.node), '',
                          'the selection vector is contracted with the ROW index of the filter matrix (e^T filter instead of filter @ e)', construct=f'R-ROLE::{q}::selection-vector')
                continue
            lp = last_axis_product_sum(x)
            okv = False
            if lp is not None and not lp[2]:
                for u, v in ((lp[0], lp[1]), (lp[1], lp[0])):
                    ins = newaxis_insertions(v)
                    if ins is not None and ins[1] == [-2] and derives(ins[0], 'channel_selection_vector') and any(y is t for y in walk_terms(u)):
                        okv = True
            run.check(okv, 'R-ROLE', f'{name}: a channel selection vector is applied to the COLUMN index of the filter matrix', fn.loc(x.node), '',
                      'the selection-vector path is not sum(filter * e[..., None, :], axis=-1) (filter @ e)', construct=f'R-ROLE::{q}::selection-vector')
        run.check(sel_ok >= 1 and sel_ok == want, 'R-ROLE', f'{name}: beamformer is the reference COLUMN of the matrix', fn.loc(), '',
                  f'{sel_ok} of {want} return paths select `[..., {ref_param}]` (last axis = column)', construct=f'R-ROLE::{q}::column-selection')
        if name == 'get_mvdr_vector_souden':
            mats = [t2 for e in g.events if e.term is not None for t2 in walk_terms(e.term) if t2.op in ('binop', 'iop') and t2.args[0] == 'Div' and strip_views(t2.args[1]) is t]
            okm = False
            for m in mats:
                d = m.args[2]
                okm = is_call_to(d, 'numpy.maximum') and any(x is tr[0] for x in walk_terms(d)) if tr else False
            run.check(okm, 'R-ROLE', 'get_mvdr_vector_souden: matrix divided by the floored trace', fn.loc(), '', 'phi / maximum(trace.real, eps) not found', construct=f'R-ROLE::{q}::trace-division')
        else:
            mats = [t2 for e in g.events if e.term is not None for t2 in walk_terms(e.term) if t2.op in ('binop', 'iop') and t2.args[0] == 'Div' and strip_views(t2.args[1]) is t]
            if not tr:
                raise AnalysisError('get_wmwf_vector: the trace lambda = tr(Phi_nn^-1 Phi_xx) is no longer recognised (np.trace call not found)')
            okm = False
            for m in mats:
                # the denominator may be selected (frequency dependent weight / plain mu) before one shared division
                for d in unwrap_gamma(m.args[2]):
                    d = strip_views(d)
                    if d.op == 'binop' and d.args[0] == 'Add':
                        okm = okm or (derives(d, 'distortion_weight') and any(x is tr[0] for x in walk_terms(d)))
            run.check(okm, 'R-ROLE', 'get_wmwf_vector: filter = Phi_nn^-1 Phi_xx / (mu + lambda)', fn.loc(), '', 'denominator is not distortion_weight + trace', construct=f'R-ROLE::{q}::mu-plus-lambda')
        # reference channel defaults to the optimal one
        calls = [e for e in g.events if e.kind == 'call' and call_parts(e.term)[0] == B + 'get_optimal_reference_channel']
        okc = bool(calls)
        for e in calls:
            n_, pos, kw = call_parts(e.term)
            okc = okc and derives(pos[1] if len(pos) > 1 else None, 'target_psd_matrix') and derives(pos[2] if len(pos) > 2 else None, 'noise_psd_matrix')
        run.check(okc, 'R-ROLE', f'{name}: automatic reference channel from (filter, target, noise)', fn.loc(), '', 'get_optimal_reference_channel is not called with (w_mat, target, noise)',
                  construct=f'R-ROLE::{q}::ref-channel-args')
        # ... and the candidates that are ranked are the columns of the very matrix whose column is returned (on every path)
        from ..walk import gamma_paths, compatible, struct_eq
        n_rank = 0
        for x in alts:
            x = strip_views(x)
            if not (x.op == 'sub' and x.args[1].op == 'tuple' and len(x.args[1].args[0]) == 2):
                continue
            ranked = [y for y in walk_terms(x.args[1].args[0][1]) if call_parts(y)[0] == B + 'get_optimal_reference_channel']
            for c_ in ranked:
                cand = call_parts(c_)[1][0] if call_parts(c_)[1] else call_arg(c_, 0, 'w_mat')
                if cand is None:
                    continue
                n_rank += 1
                same = True
                for c1, l1 in gamma_paths(x.args[0]):
                    for c2, l2 in gamma_paths(cand):
                        if compatible(c1, c2) and not (strip_views(l1) is strip_views(l2) or struct_eq(strip_views(l1), strip_views(l2))):
                            same = False
                run.check(same, 'R-ROLE', f'{name}: the reference channel is ranked on the filter matrix whose column is returned', fn.loc(c_.node), '',
                          'get_optimal_reference_channel is given another matrix than the one indexed with its result on some path: the output SNR is a ratio of sums over the '
                          'bins, a per-bin scale of the candidates re-weights the bins and moves the arg-max', construct=f'R-ROLE::{q}::ranked-matrix')
        run.count(f'{name}: automatic reference channels compared with the returned matrix', n_rank)


def check_ref_channel(run, A):
    q = B + 'get_optimal_reference_channel'
    fn = A.prog.func(q)
    g = A.graphs.get(fn)
    sites = ein.find_sites(A, q)
    if len(sites) < 2:
        raise AnalysisError('get_optimal_reference_channel: quadratic forms not found')
    div = [t for e in g.events if e.term is not None for t in walk_terms(e.term) if t.op == 'binop' and t.args[0] == 'Div' and is_call_to(t.args[1], 'numpy.einsum')]
    ok = False
    if div:
        num, den = div[0].args[1], div[0].args[2]
        ok = derives(num, 'target_psd_matrix') and not derives(num, 'noise_psd_matrix') and derives(den, 'noise_psd_matrix') and not derives(den, 'target_psd_matrix') \
            and is_call_to(den, 'numpy.maximum')
    run.check(ok, 'R-ROLE', 'get_optimal_reference_channel: SNR = w^H Phi_xx w / max(w^H Phi_nn w, eps)', fn.loc(), '',
              'the SNR ratio does not have the target PSD in the numerator and the floored noise PSD in the denominator', construct=f'R-ROLE::{q}::snr-roles')
    # ... and the floor is positive when the caller does not give one: every alternative of the floor that is a parameter taken as it is has a positive (or None-resolved) default
    if ok:
        den = div[0].args[2]
        n_, pos_, kw_ = call_parts(strip_views(den))
        floors = [x for x in pos_ if not derives(x, 'noise_psd_matrix')]
        for fl in floors:
            for alt in unwrap_gamma(fl):
                alt = strip_views(alt)
                if alt.op == 'param':
                    names = [a.arg for a in fn.node.args.posonlyargs + fn.node.args.args]
                    dflt = None
                    if alt.args[0] in names:
                        k_ = names.index(alt.args[0]) - (len(names) - len(fn.node.args.defaults))
                        dflt = fn.node.args.defaults[k_] if k_ >= 0 else None
                    elif alt.args[0] in [a.arg for a in fn.node.args.kwonlyargs]:
                        dflt = fn.node.args.kw_defaults[[a.arg for a in fn.node.args.kwonlyargs].index(alt.args[0])]
                    import ast as _ast
                    if isinstance(dflt, _ast.Constant) and isinstance(dflt.value, (int, float)) and not isinstance(dflt.value, bool):
                        run.check(dflt.value > 0, 'R-ROLE', 'get_optimal_reference_channel: the default floor of the noise power is positive', fn.loc(getattr(fl, 'node', None)), '',
                                  f'the floor `{alt.args[0]}` defaults to {dflt.value!r} and is used as it is: with zero output noise power in every bin the SNR is 0 / 0 and the '
                                  f'helpers that do not pass their own floor (get_wmwf_vector) fail where the primitive with an explicit reference channel works',
                                  construct=f'R-ROLE::{q}::default-floor')
    for s in sites:
        info = ein.operand_info(s)
        st = ein.structure(s)
        ws = [i for i, (b, cj, raw) in enumerate(info) if derives(raw, 'w_mat')]
        ms = [i for i in range(len(info)) if i not in ws]
        okq = len(ws) == 2 and len(ms) == 1 and sum(info[i][1] for i in ws) == 1
        if okq:
            m = st['ins'][ms[0]]
            wc = next(i for i in ws if info[i][1])
            wp = next(i for i in ws if not info[i][1])
            r, c = m[-2], m[-1]
            okq = r in st['ins'][wc] and c in st['ins'][wp] and st['ins'][wc][-1] == st['ins'][wp][-1] and st['out'] == st['ins'][wp][-1]
        run.check(okq, 'R-EIN', f'get_optimal_reference_channel {st["sub"]!r}: per-column quadratic form w_R^H Phi w_R', s.loc, '',
                  f'{st["sub"]!r}: conj(w) must contract the row index, w the column index of the PSD, the column index R of w is kept', construct=f'R-EIN::{q}::quadratic-form')
    args = sel.argext_calls(g)
    rets = [strip_views(x) for x in unwrap_gamma(g.ret) if not dead_leaf(x)]
    okr = bool(div) and bool(rets) and all(is_call_to(ret, 'numpy.argmax') and any(x is div[0] for x in walk_terms(call_arg(ret, 0))) for ret in rets)
    run.check(okr, 'R-SEL', 'get_optimal_reference_channel: reference channel = arg-max of the SNR', fn.loc(), '',
              f'return value is not np.argmax of the SNR (found {[k for _, k in args]})', construct=f'R-SEL::{q}::argmax')


def check_lcmv(run, A):
    q = B + 'get_lcmv_vector'
    fn = A.prog.func(q)
    g = A.graphs.get(fn)
    ss = [e.term for e in g.events if e.kind == 'call' and call_parts(e.term)[0] == 'pb_bss.math.solve::stable_solve']
    if len(ss) < 2:
        raise AnalysisError('get_lcmv_vector: stable_solve calls not found')
    a, b = call_arg(ss[0], 0), call_arg(ss[0], 1)
    bt = strip_views(b)
    col = bt.op == 'sub' and bt.args[1].op == 'tuple' and const_val(bt.args[1].args[0][-1]) is None
    run.check(derives(a, 'noise_psd_matrix') and derives(b, 'atf_vectors') and col, 'R-ROLE', 'get_lcmv_vector: Phi^-1 A with explicit column vectors', fn.loc(ss[0].node), '',
              'first solve is not stable_solve(noise PSD, atf_vectors[..., None])', construct=f'R-ROLE::{q}::first-solve')
    sites = ein.find_sites(A, q)
    if len(sites) >= 1:
        s = sites[0]
        info = ein.operand_info(s)
        st = ein.structure(s)
        ic = [i for i, (bb, cj, raw) in enumerate(info) if cj]
        ok = len(ic) == 1 and derives(info[ic[0]][2], 'atf_vectors') and st['out'][-2] == st['ins'][ic[0]][0] and st['out'][-1] == st['ins'][1 - ic[0]][0] \
            and st['ins'][0][-1] == st['ins'][1][-1] and st['ins'][0][-1] not in st['out']
        run.check(ok, 'R-EIN', f'get_lcmv_vector {st["sub"]!r}: A^H Phi^-1 A with the conjugated factor supplying the row index', s.loc, '',
                  f'{st["sub"]!r}: Gram matrix must be [k, K] = sum_d conj(a_k[d]) (Phi^-1 a_K)[d]', construct=f'R-EIN::{q}::gram')
    a2, b2 = call_arg(ss[1], 0), call_arg(ss[1], 1)
    run.check(sites and a2 is sites[0].term and derives(b2, 'response_vector'), 'R-ROLE', 'get_lcmv_vector: (A^H Phi^-1 A)^-1 r', fn.loc(ss[1].node), '',
              'second solve is not stable_solve(Gram matrix, response vector)', construct=f'R-ROLE::{q}::second-solve')


def check(run):
    A = run.A
    # stable_solve is what Souden MVDR / WMWF invert with: its literal axes count from the right like those of the beamforming functions (shared with C13)
    from . import c13 as _c13
    _c13.check_ell(run, A, only=('pb_bss.math.solve',))
    from ..opt import check_axisless_squeeze
    check_axisless_squeeze(run, A, ('pb_bss.extraction.beamformer', 'pb_bss.math.solve'))
    run.explanation = (
        'Operand roles of every solve / stable_solve / trace / column selection of the MVDR, Souden-MVDR, WMWF and LCMV designs, the sesquilinear structure of their inner '
        'products and quadratic forms, the arg-max reference-channel selection with target over noise, and the NumPy >= 2 vector semantics of linalg.solve (right-hand sides must be '
        'explicit column matrices), all decided on the term graphs / abstract shapes of the current source. Optimality inequalities and scaling invariances are not decided.')
    run.trusted = ['NumPy >= 2: linalg.solve(a, b) treats b as a stack of vectors only if b.ndim == 1', 'documented shapes of the beamformer arguments']
    check_mvdr(run, A)
    check_souden_wmwf(run, A)
    check_ref_channel(run, A)
    check_lcmv(run, A)
    # LCMV, Souden MVDR and WMWF solve through stable_solve: what it returns is the solver's solution (shared with C13)
    from . import c13
    c13.check_stable_solve(run, A)
    # the wrapper paths that use MVDR with an estimated steering vector
    for name in ('pca+mvdr', 'scaled_gev_atf+mvdr'):
        pass
